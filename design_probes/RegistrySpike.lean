/-- first index i with r ≤ i < n and names i = s (fwd_find_stage scanning profile[reg_idx:]) -/
def findFrom (names : Nat → String) (n : Nat) (s : String) : (fuel r : Nat) → Option Nat
  | 0, _ => none
  | fuel + 1, r => if r < n then (if names r = s then some r else findFrom names n s fuel (r + 1)) else none

/-- greedy registration of the requested site indices; returns the matched profile index of each -/
def register (names : Nat → String) (n : Nat) : List Nat → Nat → List (Option Nat)
  | [], _ => []
  | j :: js, r =>
    match findFrom names n (names j) (n - r) r with
    | some i => some i :: register names n js (i + 1)
    | none => none :: register names n js r

theorem findFrom_eq (names : Nat → String) (n : Nat) (j : Nat) (hj : j < n) :
    ∀ (fuel r : Nat), r ≤ j → j < r + fuel → (∀ m, r ≤ m → m < j → names m ≠ names j) →
      findFrom names n (names j) fuel r = some j := by
  intro fuel
  induction fuel with
  | zero => intro r h1 h2; omega
  | succ f ih =>
    intro r h1 h2 hno
    unfold findFrom
    have hr : r < n := by omega
    simp only [hr, if_true]
    by_cases h : r = j
    · subst h; simp
    · have hne : names r ≠ names j := hno r (Nat.le_refl _) (by omega)
      simp only [hne, if_false]
      exact ih (r + 1) (by omega) (by omega) (fun m hm1 hm2 => hno m (by omega) hm2)

/-- static condition extracted from the source: between an earlier same-name site and j there is an unconditional site -/
def Static (names : Nat → String) (cond : Nat → Bool) : Prop :=
  ∀ m j, m < j → names m = names j → ∃ u, m ≤ u ∧ u < j ∧ cond u = false

/-- the requested list: strictly increasing, in range, contains every unconditional index at or above `lo` -/
def Requested (cond : Nat → Bool) (n lo : Nat) : List Nat → Prop
  | [] => ∀ u, lo ≤ u → u < n → cond u = true
  | j :: js => lo ≤ j ∧ j < n ∧ (∀ u, lo ≤ u → u < j → cond u = true) ∧ Requested cond n (j + 1) js

theorem greedy_identity (names : Nat → String) (cond : Nat → Bool) (n : Nat)
    (hs : Static names cond) :
    ∀ (S : List Nat) (lo : Nat), Requested cond n lo S →
      register names n S lo = S.map some := by
  intro S
  induction S with
  | nil => intro lo _; rfl
  | cons j js ih =>
    intro lo hreq
    obtain ⟨h1, h2, h3, h4⟩ := hreq
    have hfind : findFrom names n (names j) (n - lo) lo = some j := by
      apply findFrom_eq names n j h2 (n - lo) lo h1 (by omega)
      intro m hm1 hm2 heq
      obtain ⟨u, hu1, hu2, hu3⟩ := hs m j hm2 heq
      have := h3 u (by omega) hu2
      simp [this] at hu3
    simp only [register, hfind, List.map_cons]
    rw [ih (j + 1) h4]

#print axioms greedy_identity
