import sys, json, subprocess, os, random, itertools, collections, shutil
sys.path.insert(0,'/tmp/exp'); import gen
M32=1<<32
def oracles(d, ev, inp):
    bad=[]
    ks=[(e['ts'],-e.get('dur',0.0)) for e in ev]
    if ks!=sorted(ks): bad.append('UNSORTED')
    lanes={}
    for e in ev:
        if e['ph']=='X': lanes.setdefault((e['pid'],e['tid']),[]).append((e['ts'],round(e['ts']+e['dur'],4)))
    for l in lanes.values():
        for (a,b),(c,dd) in itertools.combinations(l,2):
            if not (b<=c or dd<=a or (a<=c and dd<=b) or (c<=a and b<=dd)): bad.append('NOTLAMINAR'); break
    u=collections.Counter(e['args'].get('uid') for e in ev if e['ph']=='X')
    if u!=inp: bad.append(f'CONSERVATION {sum(u.values())}/{sum(inp.values())}')
    offs=collections.defaultdict(set)
    for e in ev:
        if e['ph']=='X' and 'TS1' in e['args']:
            a=e['args']; n=a.get('orig_name',e['name']); idx=(0,4)
            for k,v in {" DmaI":(0,1)," Cmpt Prep":(1,2)," Cmpt Exec":(2,3)," DmaO":(3,4)}.items():
                if k in n: idx=v; break
            dd=(int(a[f'TS{idx[1]+1}'])-int(a[f'TS{idx[0]+1}']))/512.0
            if dd!=e['dur']: bad.append('DUR')
            offs[e['args']['rank']].add(tuple((int(a[f'TS{i+1}'])-a['true_TS'][i])//M32 for i in range(5)))
    for r,o in offs.items():
        if len(o)>1 or any(len(set(t))>1 for t in o): bad.append(f'WRAP rank{r} {sorted(o)[:3]}')
    return bad
rnd=random.Random(int(sys.argv[1])); res=collections.Counter()
for it in range(int(sys.argv[2])):
    d=f'/tmp/exp/rs'; shutil.rmtree(d,ignore_errors=True)
    R=rnd.randint(1,4); G=rnd.randint(0,3) if R>1 else 0
    # place the wrap somewhere inside the trace with prob 1/2
    span=int((200+G*400+R*200)*512)
    de=[ (M32-rnd.randrange(0,span,512)) % M32 if rnd.random()<0.5 else rnd.randrange(0,M32-span,512) for _ in range(R)]
    he=[1_000_000_000.0+rnd.choice([0,0,17,250]) for _ in range(R)]
    files=gen.scenario(d,R=R,groups=G,dev_epochs=de,host_epochs=he,kernels=rnd.randint(1,3),seed=it)
    inp=collections.Counter()
    for f in files:
        for e in json.load(open(f)):
            if e['ph']=='B': inp[(e.get('attr') or e.get('args'))['uid']]+=1
    r=subprocess.run(['/venv/bin/acelyzer','-i',d+'/trace_rank_*.json','--freq','512','--keep_prep','-o',d+'/o.json','-D','0'],capture_output=True,text=True)
    if r.returncode!=0:
        res['RC '+(r.stderr.strip().splitlines() or ['?'])[-1][:90]]+=1; continue
    for b in oracles(d,json.load(open(d+'/o.json'))['traceEvents'],inp) or ['ok']:
        res[b.split(' ')[0] if b.startswith('WRAP') else b]+=1
print(dict(res))
