import sys, json, subprocess, os, random, collections, shutil
sys.path.insert(0,'/tmp/exp'); import gen
from fractions import Fraction as F
M32=1<<32
rnd=random.Random(int(sys.argv[1])); res=collections.Counter(); shown=0
for it in range(int(sys.argv[2])):
    d='/tmp/exp/rs7'; shutil.rmtree(d,ignore_errors=True)
    R=rnd.randint(2,5); G=rnd.randint(1,3)
    de=[rnd.randrange(0,M32//2,512) for _ in range(R)]          # no wraps: isolate C07 from the C05 defect
    he=[1_000_000_000.0+rnd.choice([0,17,250,1000]) for _ in range(R)]
    files=gen.scenario(d,R=R,groups=G,dev_epochs=de,host_epochs=he,kernels=rnd.randint(1,3),seed=it)
    host_in={}
    for f in files:
        evs=json.load(open(f))
        for b,e in zip(evs[::2],evs[1::2]):
            if 'args' in b: host_in[b['args']['uid']]=(b['ts'],e['ts']-b['ts'])
    r=subprocess.run(['/venv/bin/acelyzer','-i',d+'/trace_rank_*.json','--freq','512','--keep_prep','-o',d+'/o.json','-D','0'],capture_output=True,text=True)
    if r.returncode!=0: res['RC '+(r.stderr.strip().splitlines() or ['?'])[-1][:80]]+=1; continue
    ev=json.load(open(d+'/o.json'))['traceEvents']
    offs=collections.defaultdict(set); ok=True
    for e in ev:
        if e['ph']!='X': continue
        a=e['args']
        if 'TS1' in a:
            n=a.get('orig_name',e['name']); idx=0
            for k,v in {" DmaI":0," Cmpt Prep":1," Cmpt Exec":2," DmaO":3}.items():
                if k in n: idx=v; break
            offs[a['rank']].add(F(e['ts'])-F(int(a[f'TS{idx+1}']),512))
        else:
            if (e['ts'],e['dur'])!=host_in[a['uid']]: ok=False
    rigid=all(len(o)==1 for o in offs.values())
    res['ok' if (rigid and ok) else f'BAD rigid={rigid} host={ok}']+=1
    if not rigid and shown<2:
        shown+=1; print(R,G,{k:sorted(float(x) for x in v)[:4] for k,v in offs.items()})
print(dict(res))
