"""Observation (outside C19's quantifier, which speaks of ONE power sample sequence): PowerStatisticsContext keeps a
single last_power_sample for all pids.  Samples of several ranks arrive rank after rank; when rank 1 is sampled
entirely after rank 0, a period (last sample of rank 0 -> first sample of rank 1) is formed across the gap.
Run: cd /verif/harness && /venv/bin/python ../design_probes/e11.py"""
import sys
sys.path.insert(0, ".")
sys.path.insert(0, "/repo/src")
from props import c19          # noqa: E402
from lib import stage          # noqa: E402

cb, cx, kw = c19.fresh_context()


def C(pid, ts, w):
    return {"ph": "C", "name": "Power", "pid": pid, "ts": float(ts), "args": {"Watts": float(w)}}


evs = [C(0, 10, 5), C(0, 20, 7), C(0, 40, 0), C(1, 100, 9), C(1, 110, 3), C(1, 130, 0)]
with c19.capture_info() as buf:
    stage.run_stages([(cb, cx, kw)], evs)
print(cx.power_periods)        # contains (40.0, 100.0, 0.0): 60 us that no rank sampled
print(buf.getvalue())
