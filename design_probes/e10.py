"""C08 on the unchanged tree: the 'f' flow arrow keeps the receive slice's `dur` as a scratch key until the final
(ts, -dur) sort, so at equal ts it is placed like a LONG slice - in front of shorter slices - although the exported
arrow has no duration ("events without duration come last").
Run: PYTHONPATH=/repo/src:/verif/harness /venv/bin/python design_probes/e10.py   (exit 1 = defect present)"""
import sys
sys.path.insert(0, "/verif/harness")
from gen import scenario as sc
from lib import stage


def build(extra_ts=None):
    ranks = sc.build_ranks(R=2, groups=1, seed=5, kernels=1)
    if extra_ts is not None:
        # a short host slice on rank 0 starting exactly where an arrow ends
        ranks[0].events.append(({"ph": "X", "name": "hostop_tie", "pid": 0, "tid": 501, "ts": extra_ts, "dur": 2.0,
                                 "args": {"uid": "tie"}}, None))
    files = {}
    for rk in ranks:
        evs = []
        for b, e in sorted(rk.events, key=lambda p: p[0]["ts"]):
            evs.append(b)
            if e is not None:
                evs.append(e)
        files[f"trace_rank_{rk.r}.json"] = evs
    return files


argv = ["--freq", "512", "--flow", "-M"]
r = stage.e2e(argv, build())
fs = [e for e in r["events"] if e.get("ph") == "f"]
assert fs, "no flow arrows"
t = fs[0]["ts"]
r = stage.e2e(argv, build(extra_ts=t))
out = r["events"]
idx = {(e.get("ph"), e.get("name")): i for i, e in enumerate(out)}
tie = next(i for i, e in enumerate(out) if e.get("ph") == "X" and e.get("args", {}).get("uid") == "tie")
arrow = next(i for i, e in enumerate(out) if e.get("ph") == "f" and e["ts"] == out[tie]["ts"])
print("slice  :", out[tie]["ts"], out[tie]["dur"], "at index", tie)
print("f arrow:", out[arrow]["ts"], "dur" in out[arrow], "at index", arrow)
if arrow < tie:
    print("C08 VIOLATED: an event without duration precedes a slice of equal ts")
    sys.exit(1)
print("ok: the slice precedes the arrow")
