import random, itertools
import aiu_trace_analyzer.pipeline as ep
import aiu_trace_analyzer.core.processing as processing
from aiu_trace_analyzer.core.stage_profile import StageProfile, StageProfileChecker
from aiu_trace_analyzer.pipeline.context import AbstractContext
import aiu_trace_analyzer.logger as aiulog
aiulog.loglevel=-1
class AllProf:  # profile accepting any stage name
    pass
class Chk:
    def fwd_find_stage(self,n): return True
class HoldCtx(AbstractContext):
    def __init__(s): super().__init__(); s.h=[]
    def drain(s): r=s.h; s.h=[]; return r
log=[]
def mk(kind,i):
    ctx=HoldCtx() if kind=='hold' else None
    def cb(event, context):
        log.append((i,event['id']))
        if kind=='pass': return [event]
        if kind=='drop': return [] if event['id']%2==0 else [event]
        if kind=='dup': return [event, dict(event, id=event['id']+1000)]
        if kind=='hold': context.h.append(event); return []
        if kind=='dropall': return []
    cb.__name__=f'{kind}{i}'
    return cb,ctx
def real(kinds, inp):
    global log; log=[]
    p=processing.EventProcessor(profile=None); p.stage_check=Chk()
    for i,k in enumerate(kinds):
        if k=='barrier': 
            def b(event,context,i=i): log.append((i,event['id'])); return ep.pipeline_barrier(event,context)
            b.__name__='pipeline_barrier'; p.register_stage(b, ep._main_barrier_context)
        else:
            cb,ctx=mk(k,i); p.register_stage(cb,ctx)
    out=[]
    for x in inp:
        out+=[e['id'] for e in p.pre_process({'id':x,'ph':'X','ts':1,'pid':0,'name':'n'})]
    while p.stages:
        _,ctx,_=p.stages.pop(0)
        for e in (ctx.drain() if ctx else []): out+=[z['id'] for z in p.pre_process(e)]
    return out, list(log)
def spec(kinds, inp):
    xs=list(inp); recv=[]
    for i,k in enumerate(kinds):
        recv.append(list(xs))
        if k=='pass' or k=='hold' or k=='barrier': ys=xs
        elif k=='drop': ys=[x for x in xs if x%2==1]
        elif k=='dup': ys=[z for x in xs for z in (x,x+1000)]
        elif k=='dropall': ys=[]
        xs=ys
    return xs, recv
rnd=random.Random(2); bad=0
K=['pass','drop','dup','hold','barrier','dropall']
for it in range(5000):
    kinds=[rnd.choice(K) for _ in range(rnd.randint(1,6))]
    inp=list(range(rnd.randint(0,5)))
    o,l=real(kinds,inp); so,recv=spec(kinds,inp)
    per=[[e for (i,e) in l if i==j] for j in range(len(kinds))]
    ok = o==so and per==recv
    # barrier ordering: any delivery to stage>b happens after all deliveries to stages<=b
    for b,k in enumerate(kinds):
        if k=='barrier':
            idxs=[i for (i,_) in l]
            lastpre=max([p for p,i in enumerate(idxs) if i<=b],default=-1); firstpost=min([p for p,i in enumerate(idxs) if i>b],default=10**9)
            ok &= lastpre<firstpost
    if not ok:
        bad+=1
        if bad<3: print(kinds,inp,o,so)
print('bad',bad)
