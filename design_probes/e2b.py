import itertools, subprocess, json, sys, glob, collections
d=sys.argv[1]
opts=[[],['--flow'],['--keep_prep'],['-M'],['--disable_tb'],['--tb'],['-c','/tmp/exp/log1.txt'],['--power-stats'],['--comm_summarize_seq'],['--time_unit','ms'],['-t'],['-O','drop'],['-I'],['--drop_globals'],['-C','power_ts4','coll_bw','rcu_util']]
inp=collections.Counter()
for f in sorted(glob.glob(d+'/trace_rank_*.json')):
    for e in json.load(open(f)):
        if e['ph']=='B': inp[(e.get('attr') or e.get('args'))['uid']]+=1
fails={}
n=0
def lam(ev):
    lanes={}
    for e in ev:
        if e['ph']=='X': lanes.setdefault((e['pid'],e['tid']),[]).append((e['ts'],round(e['ts']+e['dur'],4)))
    for l in lanes.values():
        for (a,b),(c,dd) in itertools.combinations(l,2):
            if not (b<=c or dd<=a or (a<=c and dd<=b) or (c<=a and b<=dd)): return False
    return True
for a,b,c in itertools.combinations(range(len(opts)),3):
    o=opts[a]+opts[b]+opts[c]
    if '--flow' in o and '--comm_summarize_seq' in o: continue
    out=d+'/sw.json' if '--tb' not in o else d+'/sw.pt.trace.json'
    r=subprocess.run(['/venv/bin/acelyzer','-i',d+'/trace_rank_*.json','--freq','512:1100','-o',out,'-D','0']+o,capture_output=True,text=True)
    n+=1
    if r.returncode!=0:
        msg=(r.stderr.strip().splitlines() or ['?'])[-1][:110]; fails.setdefault(msg,[]).append(' '.join(o)); continue
    j=json.load(open(out)); ev=j['traceEvents']
    ks=[(e['ts'],-e.get('dur',0.0)) for e in ev]
    if ks!=sorted(ks) and not ('-c' in o and '-t' in o): fails.setdefault('UNSORTED',[]).append(' '.join(o))
    if not lam(ev): fails.setdefault('NOT LAMINAR',[]).append(' '.join(o))
    u=collections.Counter(e['args'].get('uid') for e in ev if e['ph']=='X')
    if any(v>1 for v in u.values()) or any(k not in inp for k in u): fails.setdefault('DUP/EXTRA',[]).append(' '.join(o))
    if not any(x in o for x in ('-O','--comm_summarize_seq','--drop_globals')) and sum(u.values())!=sum(inp.values()): fails.setdefault('LOST',[]).append(' '.join(o)+f' {sum(u.values())}/{sum(inp.values())}')
print('runs',n)
for k,v in fails.items(): print(len(v),k,'|',v[:5])
