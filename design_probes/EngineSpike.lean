/-- running stage: private state + step + drain -/
structure RS (ε : Type) where
  σ : Type
  s : σ
  step : σ → ε → σ × List ε
  drain : σ → List ε

namespace RS
variable {ε : Type}

/-- one stage consumes a list element-wise -/
def feed1 (st : RS ε) : List ε → RS ε × List ε
  | [] => (st, [])
  | x :: xs =>
    let (s', out) := st.step st.s x
    let (st'', outs) := feed1 { st with s := s' } xs
    (st'', out ++ outs)

/-- pre_process: the list returned by stage i is fed element-wise to stage i+1 -/
def feed : List (RS ε) → List ε → List (RS ε) × List ε
  | [], xs => ([], xs)
  | st :: rest, xs =>
    let (st', ys) := feed1 st xs
    let (rest', zs) := feed rest ys
    (st' :: rest', zs)

/-- Engine.run loop: process() per input event -/
def stream (p : List (RS ε)) : List ε → List (RS ε) × List ε
  | [] => (p, [])
  | x :: xs =>
    let (p', out) := feed p [x]
    let (p'', outs) := stream p' xs
    (p'', out ++ outs)

theorem feed1_fst (st : RS ε) (xs : List ε) : True := trivial

theorem feed_length (p : List (RS ε)) (xs : List ε) : (feed p xs).1.length = p.length := by
  induction p generalizing xs with
  | nil => simp [feed]
  | cons st rest ih => simp [feed, ih]

theorem stream_length (p : List (RS ε)) (xs : List ε) : (stream p xs).1.length = p.length := by
  induction xs generalizing p with
  | nil => simp [stream]
  | cons x xs ih => simp [stream, ih, feed_length]

/-- EventProcessor.drain: pop first stage, drain its context, process each pending event with the rest -/
def drainAll : List (RS ε) → List ε
  | [] => []
  | st :: rest =>
    have : (stream rest (st.drain st.s)).1.length < (st :: rest).length := by
      simp [stream_length]
    (stream rest (st.drain st.s)).2 ++ drainAll (stream rest (st.drain st.s)).1
termination_by p => p.length

def run (p : List (RS ε)) (input : List ε) : List ε :=
  let (p', out) := stream p input
  out ++ drainAll p'

/-- batch semantics of one stage -/
def batch (st : RS ε) (xs : List ε) : List ε :=
  let (st', ys) := feed1 st xs
  ys ++ st'.drain st'.s

def runSpec (p : List (RS ε)) (input : List ε) : List ε :=
  p.foldl (fun xs st => batch st xs) input

theorem feed1_append (st : RS ε) (xs ys : List ε) :
    feed1 st (xs ++ ys) =
      ((feed1 (feed1 st xs).1 ys).1, (feed1 st xs).2 ++ (feed1 (feed1 st xs).1 ys).2) := by
  induction xs generalizing st with
  | nil => simp [feed1]
  | cons x xs ih =>
    simp only [List.cons_append, feed1]
    rw [ih]
    simp [List.append_assoc]

theorem feed_append (p : List (RS ε)) (xs ys : List ε) :
    feed p (xs ++ ys) =
      ((feed (feed p xs).1 ys).1, (feed p xs).2 ++ (feed (feed p xs).1 ys).2) := by
  induction p generalizing xs ys with
  | nil => simp [feed]
  | cons st rest ih =>
    simp only [feed]
    rw [feed1_append]
    simp only []
    rw [ih]

theorem stream_eq_feed (p : List (RS ε)) (xs : List ε) : stream p xs = feed p xs := by
  induction xs generalizing p with
  | nil =>
    simp only [stream]
    induction p with
    | nil => simp [feed]
    | cons st rest ih => simp [feed, feed1, ← ih]
  | cons x xs ih =>
    simp only [stream]
    rw [ih]
    have := feed_append p [x] xs
    simp only [List.singleton_append] at this
    rw [this]

theorem run_eq_runSpec (p : List (RS ε)) (input : List ε) : run p input = runSpec p input := by
  induction p generalizing input with
  | nil => simp [run, runSpec, stream_eq_feed, feed, drainAll]
  | cons st rest ih =>
    have h := ih (batch st input)
    simp only [run, runSpec, List.foldl_cons, stream_eq_feed, feed, drainAll, batch] at *
    rw [← h, feed_append]
    simp [List.append_assoc]
end RS
#print axioms RS.run_eq_runSpec
