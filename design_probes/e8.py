import json, subprocess, sys, glob, collections
def uids_in(d):
    u=collections.Counter()
    for f in sorted(glob.glob(d+'/trace_rank_*.json')):
        for e in json.load(open(f)):
            if e['ph']=='B':
                a=e.get('attr') or e.get('args'); u[a['uid']]+=1
    return u
def run(d, opts):
    r=subprocess.run(['/venv/bin/acelyzer','-i',d+'/trace_rank_*.json','--freq','512','-o',d+'/o.json','-D','0']+opts,capture_output=True,text=True)
    if r.returncode!=0:
        return 'RC%d %s'%(r.returncode,(r.stderr.strip().splitlines() or ['?'])[-1][:150])
    ev=json.load(open(d+'/o.json'))['traceEvents']
    u=collections.Counter(e['args'].get('uid') for e in ev if e['ph']=='X')
    return u
d=sys.argv[1]
inp=uids_in(d)
for opts in ([],['--keep_prep'],['--flow'],['--flow','-R'],['-M'],['--disable_tb'],['-O','drop'],['--comm_summarize_seq'],['--drop_globals'],['-C','power_ts4'],['-t'],['--power-stats'],['-I'],['--flow','--comm_summarize_seq','--keep_prep']):
    out=run(d,opts)
    if isinstance(out,str): print(opts,out); continue
    miss=sorted(set(inp)-set(out)); dup=[k for k,v in out.items() if v>1]; extra=[k for k in out if k not in inp]
    print(opts,'in',sum(inp.values()),'out',sum(out.values()),'missing',len(miss),miss[:6],'dup',dup[:4],'extra',extra[:4])
