import ast, json
src=open('/repo/src/aiu_trace_analyzer/core/acelyzer.py').read()
tree=ast.parse(src)
fn=[n for n in ast.walk(tree) if isinstance(n,ast.FunctionDef) and n.name=='register_processing_functions'][0]
sites=[]
def walk(stmts, depth):
    for s in stmts:
        if isinstance(s, ast.If):
            walk(s.body, depth+1); walk(s.orelse, depth+1)
        elif isinstance(s, ast.Expr) and isinstance(s.value, ast.Call) and getattr(s.value.func,'attr','')=='register_stage':
            cb=[k.value for k in s.value.keywords if k.arg=='callback'][0]
            sites.append((cb.attr, depth>0, s.lineno))
        else:
            for c in ast.iter_child_nodes(s):
                pass
walk(fn.body,0)
prof=[list(d.keys())[0] for d in json.load(open('/repo/src/aiu_trace_analyzer/profiles/everything.json'))['stages']]
print(len(sites),len(prof),[s[0] for s in sites]==prof)
# static condition
ok=True
for j,(n,c,_) in enumerate(sites):
    u=max([i for i in range(j) if not sites[i][1]],default=-1)
    for m in range(u+1,j):
        if sites[m][0]==n: ok=False; print('violates',j,n,m)
print('static condition',ok)
print([ (i,n) for i,(n,c,_) in enumerate(sites) if c])
