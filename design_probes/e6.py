import sys, json, subprocess
sys.path.insert(0,'/tmp/exp'); import gen
def run(tag, de, R=3):
    d='/tmp/exp/c7_'+tag
    gen.scenario(d, R=R, groups=2, dev_epochs=de, seed=3)
    r=subprocess.run(['/venv/bin/acelyzer','-i',d+'/trace_rank_*.json','--freq','512','-o',d+'/o.json','-D','0'],capture_output=True,text=True)
    assert r.returncode==0, r.stderr[-300:]
    ev=json.load(open(d+'/o.json'))['traceEvents']
    return {e['args']['uid']:(e['ts'],e['dur'],e['pid'],e['tid']) for e in ev if e['ph']=='X'}
a=run('a',[512*1000, 512*5000, 512*9000])
b=run('b',[512*1000, 512*777777, 512*9000])
c=run('c',[512*123456, 512*5000, 512*9000])
w=run('w',[512*1000, (1<<32)-512*400, 512*9000])   # wrap inside rank 1's trace
for name,x in (('b',b),('c',c),('w',w)):
    diff=[(k,a[k],x[k]) for k in a if a[k]!=x[k]]
    print(name,'differences',len(diff),diff[:3])
