import Mathlib.Tactic.Linarith
import Mathlib.Algebra.Order.Field.Rat
import Mathlib.Order.Lattice
import Mathlib.Tactic.Ring

def splitGo (ps pe : Rat) (v : Rat) : List (Rat × Rat) → Rat → List (Rat × Rat × Bool) → List (Rat × Rat × Bool) × Rat
  | [], cur, acc => (acc, cur)
  | (ks, ke) :: rest, cur, acc =>
    if ke ≤ ps ∨ ks ≥ pe then splitGo ps pe v rest cur acc
    else
      let os := max ps ks
      let oe := min pe ke
      let acc1 := if cur < os then acc ++ [(os - cur, v, false)] else acc
      splitGo ps pe v rest oe (acc1 ++ [(oe - os, v, true)])

def split (ps pe v : Rat) (tl : List (Rat × Rat)) : List (Rat × Rat × Bool) :=
  let r := splitGo ps pe v tl ps []
  if r.2 < pe then r.1 ++ [(pe - r.2, v, false)] else r.1

def total (l : List (Rat × Rat × Bool)) : Rat := (l.map (·.1)).sum

def Merged (tl : List (Rat × Rat)) : Prop :=
  (∀ p ∈ tl, p.1 < p.2) ∧ tl.Pairwise (fun a b => a.2 < b.1)

@[simp] theorem total_append (a b : List (Rat × Rat × Bool)) : total (a ++ b) = total a + total b := by
  simp [total, List.map_append, List.sum_append]
@[simp] theorem total_single (d v : Rat) (b : Bool) : total [(d, v, b)] = d := by simp [total]
@[simp] theorem total_cons (x : Rat × Rat × Bool) (l : List (Rat × Rat × Bool)) : total (x :: l) = x.1 + total l := by simp [total]
@[simp] theorem total_nil : total [] = 0 := by simp [total]

theorem splitGo_inv (ps pe v : Rat) (hpe : ps < pe) (tl : List (Rat × Rat)) (cur : Rat)
    (acc : List (Rat × Rat × Bool)) (hm : Merged tl)
    (hacc : total acc = cur - ps) (h1 : ps ≤ cur) (h2 : cur ≤ pe)
    (hfirst : ∀ p ∈ tl, cur ≤ max ps p.1) :
    total (splitGo ps pe v tl cur acc).1 = (splitGo ps pe v tl cur acc).2 - ps ∧
    ps ≤ (splitGo ps pe v tl cur acc).2 ∧ (splitGo ps pe v tl cur acc).2 ≤ pe := by
  induction tl generalizing cur acc with
  | nil => simp [splitGo, hacc, h1, h2]
  | cons k rest ih =>
    obtain ⟨ks, ke⟩ := k
    obtain ⟨hpos, hpw⟩ := hm
    rw [List.pairwise_cons] at hpw
    have hmr : Merged rest := ⟨fun p hp => hpos p (List.mem_cons_of_mem _ hp), hpw.2⟩
    have hk : ks < ke := hpos (ks, ke) (List.mem_cons_self ..)
    unfold splitGo
    split
    · exact ih cur acc hmr hacc h1 h2 (fun p hp => hfirst p (List.mem_cons_of_mem _ hp))
    · rename_i hns
      push Not at hns
      have hcos : cur ≤ max ps ks := hfirst (ks, ke) (List.mem_cons_self ..)
      have hos : max ps ks < min pe ke := by
        rw [max_lt_iff, lt_min_iff, lt_min_iff]; exact ⟨⟨hpe, hns.1⟩, ⟨hns.2, hk⟩⟩
      apply ih
      · exact hmr
      · by_cases hlt : cur < max ps ks
        · simp [hlt, hacc]
        · have : cur = max ps ks := le_antisymm hcos (not_lt.mp hlt)
          simp [hlt, hacc]; rw [this]; ring
      · exact le_trans (le_max_left _ _) (le_of_lt hos)
      · exact min_le_left _ _
      · intro p hp
        have : ke < p.1 := hpw.1 p hp
        exact le_trans (min_le_right _ _) (le_trans (le_of_lt this) (le_max_right _ _))

theorem split_total (ps pe v : Rat) (hpe : ps < pe) (tl : List (Rat × Rat)) (hm : Merged tl) :
    total (split ps pe v tl) = pe - ps := by
  have h := splitGo_inv ps pe v hpe tl ps [] hm (by simp) le_rfl (le_of_lt hpe) (fun p _ => le_max_left _ _)
  unfold split
  simp only []
  split
  · simp [h.1]
  · rename_i hn
    have : (splitGo ps pe v tl ps []).2 = pe := le_antisymm h.2.2 (not_lt.mp hn)
    rw [h.1, this]

#print axioms split_total
