import json,sys,collections
d=json.load(open(sys.argv[1]))
ev=d['traceEvents']
print(len(ev), collections.Counter((e['ph'], e['name'] if e['ph'] not in 'X' else 'X') for e in ev))
for e in ev:
    a=e.get('args',{})
    print(e['ph'], e.get('pid'), e.get('tid'), round(e['ts'],4), round(e.get('dur',0),4), e['name'][:60], a.get('uid'), {k:a[k] for k in a if k in ('TS1','TS5','OVC','Concurrency','Watts','Peers')}, e.get('id',''))
