import itertools, subprocess, json, sys
d=sys.argv[1]
opts=[[],['--flow'],['--keep_prep'],['-M'],['--disable_tb'],['--tb'],['-c','/tmp/exp/log1.txt'],['--power-stats'],['--comm_summarize_seq'],['--time_unit','ms'],['-t'],['-O','drop'],['-I'],['--drop_globals'],['-C','power_ts4','coll_bw','rcu_util'],['--event_limit','{"count": 20}'],['--event_filter','name:mm_1']]
fails={}
n=0
for a,b in itertools.combinations(range(len(opts)),2):
    o=opts[a]+opts[b]
    out=d+'/sw.json' if '--tb' not in o else d+'/sw.pt.trace.json'
    r=subprocess.run(['/venv/bin/acelyzer','-i',d+'/trace_rank_*.json','--freq','512:1100','-o',out,'-D','0']+o,capture_output=True,text=True)
    n+=1
    if r.returncode!=0:
        msg=(r.stderr.strip().splitlines() or ['?'])[-1][:110]
        fails.setdefault(msg,[]).append(' '.join(o))
        continue
    try:
        def bad(x): raise ValueError(x)
        j=json.load(open(out),parse_constant=bad)
        ks=[(e['ts'],-e.get('dur',0.0)) for e in j['traceEvents']]
        if ks!=sorted(ks): fails.setdefault('UNSORTED',[]).append(' '.join(o))
        for e in j['traceEvents']:
            if e['ph']=='F' or any(k in e.get('args',{}) for k in ('ts_all','ts_dev','jobhash','TS_cycles')) or (e['ph']=='C' and 'dur' in e) or (e['ph']=='X' and not e['dur']>0):
                fails.setdefault('SCHEMA',[]).append(' '.join(o)+' :: '+e['name']); break
    except Exception as ex:
        fails.setdefault('JSON '+repr(ex)[:60],[]).append(' '.join(o))
print('runs',n)
for k,v in fails.items(): print(len(v),k,'|',v[:6])
