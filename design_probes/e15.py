import json, random, os, itertools, collections
from aiu_trace_analyzer.ingest.ingestion import MultifileIngest
import aiu_trace_analyzer.logger as aiulog
aiulog.loglevel=-1
rnd=random.Random(5)
d='/tmp/exp/ing'; os.makedirs(d,exist_ok=True)
bad=0
for it in range(300):
    k=rnd.randint(1,4); files=[]; expect=collections.Counter(); skipped=0
    for f in range(k):
        n=rnd.randint(0,5); t=rnd.randint(0,3); evs=[]
        for i in range(n):
            t+=rnd.randint(0,2)
            kind=rnd.choice('XXBM')
            uid=f'f{f}e{i}'
            if kind=='X':
                dur=rnd.choice([0,1,2,-1]); evs.append({'ph':'X','name':'n','pid':f+3,'tid':1,'ts':t,'dur':dur,'args':{'uid':uid}})
                if dur>0: expect[uid]+=1
            elif kind=='B':
                dur=rnd.choice([0,1,2,-1])
                evs.append({'ph':'B','name':'n','pid':f+3,'tid':1,'ts':t,'args':{'uid':uid}}); evs.append({'ph':'E','name':'n','pid':f+3,'tid':1,'ts':t+dur})
                if dur>0: expect[uid]+=1
            else:
                evs.append({'ph':'M','name':'process_name','pid':f+3,'args':{'name':'x','uid':uid}}); expect[uid]+=1
        p=f'{d}/t{it}_{f}.json'; json.dump(evs,open(p,'w')); files.append(p)
    try:
        ing=MultifileIngest(','.join(files))
        out=list(ing)
    except Exception as e:
        print('EXC',it,repr(e)[:120],[json.load(open(f)) for f in files]); bad+=1; break
    got=collections.Counter(e['args']['uid'] for e in out)
    ts=[e['ts'] for e in out if 'ts' in e]
    ok = got==expect and ts==sorted(ts)
    # rank attribution
    for e in out:
        f=int(e['args']['uid'][1]); first=json.load(open(files[f]))[0]['pid']
        if e['ph']=='X' and (e['pid']!=first or e['args']['rank']!=first): ok=False
    if not ok:
        bad+=1; print('BAD',it,got-expect,expect-got,ts); 
        if bad>3: break
    for f in files: os.remove(f)
print('bad',bad)
