import sys, json, subprocess, collections
sys.path.insert(0,'/tmp/exp'); import gen
from gen import *
def chain_late(ranks, gid, t, seq0, nbytes=524288, xfer=50, pause=0):
    """like chain_allreduce but receives are posted just-in-time; optional pause before the multicast"""
    R=len(ranks); cg=f"AllReduce_all_reduce_{gid}"; cur=t
    for r in range(R-1):
        sync=f"{cg}_s{r}_r{r+1}_{2*r}"; s_start,s_end=cur,cur+xfer
        ranks[r].dev_event(f"SenRdmaSend_{seq0+r} [sync={sync}] DmaO", TID_SEND,[s_start-1,s_start-1,s_start,s_start,s_end],
            {"Bytes":str(nbytes),"CollGroup":cg,"Peer":str(r+1),"Type":"SingleCast"})
        ranks[r+1].dev_event(f"SenRdmaReceive_{seq0+10+r} [{nbytes}B] [sync={sync}] DmaI", TID_RECV,[s_start,s_end,s_end+1,s_end+1,s_end+2],
            {"Bytes":str(nbytes),"CollGroup":cg,"Peer":str(r),"Type":"WDone Barrier"})
        cur=s_end+5
    cur+=pause
    last=R-1; sync=f"{cg}_s{last}_r0x7_{2*last}"; peers=",".join(str(p) for p in range(R-1)); sq=seq0+30
    ranks[last].dev_event(f"SenRdmaSend_{sq} - Set BcList [sync={sync}] DmaO", TID_SEND,[cur-1,cur-1,cur,cur,cur+10],{"CollGroup":cg,"Peers":peers,"Type":"Set BCList"})
    for p in range(R-1):
        ranks[last].dev_event(f"SenRdmaSend_{sq} - Xseg to rank {p} [sync={sync}] DmaO", TID_SEND,[cur-1,cur-1,cur+1+p,cur+1+p,cur+11+p],{"CollGroup":cg,"Peer":str(p),"Type":"MultiCast XSEG"})
    d_end=cur+xfer+20
    ranks[last].dev_event(f"SenRdmaSend_{sq} Data [sync={sync}] DmaO", TID_SEND,[cur-1,cur-1,cur+R,cur+R,d_end],{"Bytes":str(nbytes),"CollGroup":cg,"Type":"MultiCast"})
    for p in range(R-1):
        ranks[p].dev_event(f"SenRdmaReceive_{seq0+40+p} [{nbytes}B] [sync={sync}] DmaI", TID_RECV,[cur,d_end,d_end+1,d_end+1,d_end+2],{"Bytes":str(nbytes),"CollGroup":cg,"Peer":str(last),"Type":"WDone Barrier"})
    return d_end+2
def build(d, interleave):
    import os; os.makedirs(d,exist_ok=True)
    R=3; ranks=[Rank(r,512.0,1_000_000_000.0,512*1000*(r+1)) for r in range(R)]
    for r in range(R): kernel(ranks[r],"mm_0",100.0)
    if interleave:
        # group 1 with a pause of 400us before its multicast; group 2 runs entirely inside the pause
        end1=chain_late(ranks,1,300.0,1000,pause=400)
        chain_late(ranks,2,300.0+2*55+20,2000)
    else:
        end1=chain_late(ranks,1,300.0,1000); chain_late(ranks,2,end1+50,2000)
    for r in range(R): kernel(ranks[r],"final_9",2000.0)
    for r in range(R): ranks[r].dump(f"{d}/trace_rank_{r}.json")
for tag,il in (('seq',False),('inter',True)):
    d='/tmp/exp/c9_'+tag; build(d,il)
    r=subprocess.run(['/venv/bin/acelyzer','-i',d+'/trace_rank_*.json','--freq','512','--flow','-M','-o',d+'/o.json','-D','0'],capture_output=True,text=True)
    if r.returncode: print(tag,'RC',r.stderr[-300:]); continue
    ev=json.load(open(d+'/o.json'))['traceEvents']
    sends=[e for e in ev if e['ph']=='X' and e['args'].get('Type') in ('SingleCast','MultiCast XSEG')]
    flows=collections.Counter(e['name'] for e in ev if e['ph']=='s')
    print(tag,'sends',len(sends),'s-events',sum(flows.values()),dict(flows))
