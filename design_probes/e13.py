import itertools, sys, io, contextlib
import aiu_trace_analyzer.pipeline as ep
import aiu_trace_analyzer.core.processing as processing
from aiu_trace_analyzer.core.stage_profile import StageProfile
import aiu_trace_analyzer.logger as aiulog
aiulog.loglevel=-1
prof_path='/repo/src/aiu_trace_analyzer/profiles/everything.json'
def run(events, mode):
    p=processing.EventProcessor(profile=StageProfile.from_json(prof_path))
    p.register_stage(ep.sort_events, ep.EventSortingContext(event_types=None, sortkey="ts,dur:r"))
    octx=ep.OverlapDetectionContext(overlap_resolve=mode, ts_shift_threshold=0.005)
    if mode==ep.OverlapDetectionContext.OVERLAP_RESOLVE_TID:
        p.register_stage(ep.detect_partial_overlap_tids, octx)
        p.register_stage(ep.pipeline_barrier, ep._main_barrier_context)
    p.register_stage(ep.detect_partial_overlap_events, octx)
    out=[]
    for e in events: out+=p.pre_process(dict(e))
    # drain manually mimicking EventProcessor.drain but without conversion
    res=[]
    while p.stages:
        _,ctx,_=p.stages.pop(0)
        pend=ctx.drain() if ctx else []
        for e in pend: res+=p.pre_process(e)
    return out+res
def laminar(evs):
    lanes={}
    for e in evs: lanes.setdefault((e['pid'],e['tid']),[]).append((e['ts'],e['ts']+e['dur']))
    for l in lanes.values():
        for (a,b),(c,d) in itertools.combinations(l,2):
            if not (b<=c or d<=a or (a<=c and d<=b) or (c<=a and b<=d)): return False
    return True
pts=range(0,5)
ivs=[(s,e) for s in pts for e in pts if s<e]
tot=bad=crash=0; first=None
for n in (2,3,4):
    for combo in itertools.product(ivs, repeat=n):
        evs=[{'ph':'X','pid':0,'tid':7,'ts':float(s),'dur':float(e-s),'name':f'e{i}','uid':i,'args':{'jobname':'j'}} for i,(s,e) in enumerate(combo)]
        tot+=1
        try:
            out=run(evs, ep.OverlapDetectionContext.OVERLAP_RESOLVE_TID)
        except Exception as ex:
            crash+=1
            if first is None: first=('crash',combo,repr(ex)[:100])
            continue
        ok = laminar(out) and sorted(e['uid'] for e in out)==list(range(n))
        for e in out:
            o=evs[e['uid']]
            ok &= all(e[k]==o[k] for k in ('ts','dur','pid','name'))
        if not ok:
            bad+=1
            if first is None: first=(combo,[(e['uid'],e['tid']) for e in out])
print(tot,bad,crash,first)
