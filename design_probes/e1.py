import json, sys, subprocess, os
sys.path.insert(0,'/tmp/exp')
import gen
M32=1<<32
def run(de, tag):
    d=f'/tmp/exp/w_{tag}'
    os.makedirs(d, exist_ok=True)
    rk=gen.Rank(0, 512.0, 1_000_000_000.0, de)
    t=100.0
    for k in range(6):
        t=gen.kernel(rk, f"mm_{k}", t+3)
    rk.dump(d+'/trace_rank_0.json')
    r=subprocess.run(['/venv/bin/acelyzer','-i',d+'/trace_rank_0.json','--freq','512','-o',d+'/out.json','-D','0','--keep_prep'],capture_output=True,text=True)
    if r.returncode!=0:
        print(tag,'RC',r.returncode, r.stderr.strip().splitlines()[-1][:200]); return
    ev=json.load(open(d+'/out.json'))['traceEvents']
    ks=set()
    for e in ev:
        if e['ph']=='X' and 'TS1' in e['args']:
            a=e['args']
            diffs=[int(a[f'TS{i+1}'])-a['true_TS'][i] for i in range(5)]
            ks.add(tuple(d//M32 if d%M32==0 else ('bad',d) for d in diffs))
            print(tag, e['name'], a['uid'], [d/M32 for d in diffs], a.get('OVC'), a.get('TSxOF'), 'ts',e['ts'],'dur',e['dur'])
    print(tag,'distinct offsets',ks)
# kernel k at device time t: TS = [t,t,t+40,t+100,t+102]; first kernel t=103 => cycles 103*512=52736
f=512
# wrap between kernel 2 and 3 (between events)
k3=103+2*105   # start of third kernel
run(M32 - int((k3-1)*f), 'between')
# wrap inside Exec phase of third kernel (TS3<wrap<TS4): ref for Exec is TS3 -> before wrap; for Prep ref TS2 before wrap
run(M32 - int((k3+50)*f), 'inExec')
# wrap inside Prep phase (TS2<wrap<TS3): for the Exec event, wrap lies between TS1 and its ref TS3
run(M32 - int((k3+20)*f), 'inPrep')
