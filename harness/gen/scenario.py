"""Synthetic multi-rank FLEX scenario generator on the exact-arithmetic grid.

Times are integer microseconds relative to a per-rank host epoch, --freq is a power of two
(default 512 MHz), counters are `epoch + t*freq mod 2^32`, so every double operation the
analyzer performs on these inputs is exact.  Each input slice carries `uid` (identity for the
conservation oracles) and `true_TS` (the unwrapped counters, ground truth for C05/C07).
Modelled on tests/test_data/allreduce_tp4.json (chain all-reduce: SingleCast sends, WDone
Barrier receives, Set BCList, MultiCast XSEG, MultiCast, receives).
`scenario_events()` returns {filename: [events]} without touching the file system.
"""
import json, random, os

M32 = 1 << 32


class Rank:
    def __init__(self, r, freq, host_epoch, dev_epoch_cycles, wrap=True):
        self.r = r
        self.freq = freq            # MHz => cycles per us
        self.host_epoch = host_epoch      # host us at device true-cycle 0
        self.dev_epoch = dev_epoch_cycles  # counter value offset (true counter = dev_epoch + t*f)
        self.events = []
        self.uid = 0
        self.wrap = wrap
        self.charge = 1000

    def cyc(self, t_us):
        """true (unwrapped) counter at device-time t_us"""
        return self.dev_epoch + int(round(t_us * self.freq))

    def host(self, t_us):
        return self.host_epoch + t_us

    def dev_event(self, name, tid, ts5, extra=None, power=None):
        """ts5: list of 5 device times in us (non decreasing)."""
        phase = None
        for k, (a, b) in {" DmaI": (0, 1), " Cmpt Prep": (1, 2), " Cmpt Exec": (2, 3), " DmaO": (3, 4)}.items():
            if k in name:
                phase = (a, b)
                break
        if phase is None:
            phase = (0, 4)
        a, b = phase
        cyc = [self.cyc(t) for t in ts5]
        attr = {}
        for i, c in enumerate(cyc):
            v = c % M32 if self.wrap else c
            attr[f"TS{i+1}"] = str(v)
        if power is None:
            self.charge += 5000
            power = self.charge
        attr["Power"] = str(power % M32)
        if extra:
            attr.update(extra)
        self.uid += 1
        attr["uid"] = f"r{self.r}u{self.uid}"
        attr["true_TS"] = cyc
        b_ev = {"attr": attr, "name": name, "ph": "B", "pid": self.r, "tid": tid, "ts": self.host(ts5[a])}
        e_ev = {"attr": attr, "name": name, "ph": "E", "pid": self.r, "tid": tid, "ts": self.host(ts5[b])}
        self.events.append((b_ev, e_ev))

    def host_event(self, name, tid, t0, t1, extra=None):
        self.uid += 1
        args = {"uid": f"r{self.r}h{self.uid}"}
        if extra:
            args.update(extra)
        b_ev = {"args": args, "name": name, "ph": "B", "pid": self.r, "tid": tid, "ts": self.host(t0)}
        e_ev = {"args": args, "name": name, "ph": "E", "pid": self.r, "tid": tid, "ts": self.host(t1)}
        self.events.append((b_ev, e_ev))

    def event_list(self):
        evs = sorted(self.events, key=lambda p: p[0]["ts"])
        out = []
        for b, e in evs:
            out += [b, e]
        return out

    def dump(self, path):
        with open(path, "w") as f:
            json.dump(self.event_list(), f)


TID_PREP = 15514734831341844875
TID_EXEC = 2009867741857745393
TID_SEND = 3789868786995959152
TID_RECV = 14212308887215440790


def kernel(rk: Rank, name, t, prep=40, execd=60, gap=2):
    """emit Prep+Exec pair starting at device-time t; returns end time"""
    ts5 = [t, t, t + prep, t + prep + execd, t + prep + execd + gap]
    rk.dev_event(f"{name} Cmpt Prep", TID_PREP, ts5)
    rk.dev_event(f"{name} Cmpt Exec", TID_EXEC, ts5)
    return ts5[4]


def chain_allreduce(ranks, gid, t, seq0, nbytes=524288, xfer=50, skew=None, xseg_step=1):
    """chain allreduce group gid starting at common device time t (per-rank true time = same global time).
    `xseg_step`: start distance of the per-peer Xseg sends of the multicast (default 1: they overlap, which
    exhausts the 5-level tid budget of the overlap stage from 6 ranks on; >= 11 keeps them disjoint).
    Returns end time."""
    R = len(ranks)
    cg = f"AllReduce_all_reduce_{gid}"
    cur = t
    post = t  # all recvs posted at t
    for r in range(R - 1):
        sync = f"{cg}_s{r}_r{r+1}_{2*r}"
        s_start, s_end = cur, cur + xfer
        # sender r -> r+1
        ranks[r].dev_event(
            f"SenRdmaSend_{seq0+r} [sync={sync}] DmaO", TID_SEND,
            [post, post, s_start, s_start, s_end],
            {"Bytes": str(nbytes), "CollGroup": cg, "Peer": str(r + 1), "Type": "SingleCast"})
        # receiver r+1
        ranks[r + 1].dev_event(
            f"SenRdmaReceive_{seq0+10+r} [{nbytes}B] [sync={sync}] DmaI", TID_RECV,
            [post, s_end, s_end + 1, s_end + 1, s_end + 2],
            {"Bytes": str(nbytes), "CollGroup": cg, "Peer": str(r), "Type": "WDone Barrier"})
        # reduce compute on r+1
        kt = s_end + 2
        ts5 = [post, post, kt, kt + 20, kt + 21]
        ranks[r + 1].dev_event(f"{cg}_Add_{2*r+1} Cmpt Prep", TID_PREP, ts5, {"CollGroup": cg})
        ranks[r + 1].dev_event(f"{cg}_Add_{2*r+1} Cmpt Exec", TID_EXEC, ts5, {"CollGroup": cg})
        cur = kt + 21
    # multicast from last rank
    last = R - 1
    sync = f"{cg}_s{last}_r0x7_{2*last}"
    peers = ",".join(str(p) for p in range(R - 1))
    sq = seq0 + 30
    ranks[last].dev_event(f"SenRdmaSend_{sq} - Set BcList [sync={sync}] DmaO", TID_SEND,
                          [post, post, cur, cur, cur + 10], {"CollGroup": cg, "Peers": peers, "Type": "Set BCList"})
    for p in range(R - 1):
        ranks[last].dev_event(f"SenRdmaSend_{sq} - Xseg to rank {p} [sync={sync}] DmaO", TID_SEND,
                              [post, post, cur + 1 + p * xseg_step, cur + 1 + p * xseg_step, cur + 11 + p * xseg_step],
                              {"CollGroup": cg, "Peer": str(p), "Type": "MultiCast XSEG"})
    d_start = cur + 1 + (R - 1) * xseg_step     # == cur + R for the default step
    d_end = max(cur + xfer + 20, d_start + 12)
    ranks[last].dev_event(f"SenRdmaSend_{sq} Data [sync={sync}] DmaO", TID_SEND,
                          [post, post, d_start, d_start, d_end],
                          {"Bytes": str(nbytes), "CollGroup": cg, "Type": "MultiCast"})
    for p in range(R - 1):
        ranks[p].dev_event(
            f"SenRdmaReceive_{seq0+40+p} [{nbytes}B] [sync={sync}] DmaI", TID_RECV,
            [post, d_end, d_end + 1, d_end + 1, d_end + 2],
            {"Bytes": str(nbytes), "CollGroup": cg, "Peer": str(last), "Type": "WDone Barrier"})
    return d_end + 2


def build_ranks(R=2, groups=2, freq=512.0, seed=0, dev_epochs=None, host_epochs=None, kernels=3, xseg_step=1):
    rnd = random.Random(seed)
    ranks = []
    for r in range(R):
        de = dev_epochs[r] if dev_epochs else rnd.randrange(0, M32, 512)
        he = host_epochs[r] if host_epochs else 1_000_000_000.0
        ranks.append(Rank(r, freq, he, de))
    t = 100.0
    for g in range(groups):
        for r in range(R):
            tt = t
            for k in range(kernels):
                tt = kernel(ranks[r], f"mm_{k}", tt + 3)
            ranks[r].host_event("AIU Roundtrip", 77, t, tt + 1)
        t = tt + 10
        t = chain_allreduce(ranks, g + 1, t, 1000 * (g + 1), xseg_step=xseg_step) + 10
    for r in range(R):
        kernel(ranks[r], "final_9", t + 5)
    return ranks


def scenario_events(**kw):
    """{file name: event list} for `lib.stage.e2e`"""
    ranks = build_ranks(**kw)
    return {f"trace_rank_{rk.r}.json": rk.event_list() for rk in ranks}


def scenario(outdir, **kw):
    os.makedirs(outdir, exist_ok=True)
    ranks = build_ranks(**kw)
    R = len(ranks)
    files = []
    for r in range(R):
        p = os.path.join(outdir, f"trace_rank_{r}.json")
        ranks[r].dump(p)
        files.append(p)
    return files


if __name__ == "__main__":
    import sys
    print(scenario(sys.argv[1], R=int(sys.argv[2]), groups=int(sys.argv[3])))
