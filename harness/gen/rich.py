"""Rich well-formed multi-rank FLEX scenarios for the whole-pipeline properties (C01, C02, C08).

Built on gen/scenario.py (exact grid: --freq 512, integer / dyadic microsecond times) and extended
with what the statements quantify over: host slices as X and as adjacent B/E pairs, ties, nesting,
partial overlaps up to the five-extra-lane budget, back-to-back chains (start == previous end), zero and negative durations (documented
removal), very short device slices (1/16 us), sub-nanosecond host slices (2^-12 us), names hit by --drop_globals, metadata events,
user-supplied argument keys (in attr/args and as an unknown top-level key), counter epochs near the
2^32 wrap.  Every input slice carries a unique `uid`.

`build(spec)` -> (files: {name: [events]}, slices: [dict describing every input slice])
"""
from __future__ import annotations

import random

from gen import scenario as sc

HOST_EPOCH = 1_000_000_000.0
GLOBAL_NAMES = ["Execute graph 7", "HostPrep step", "Update CBs 3"]


def random_spec(rng, big=False):
    return {
        "R": rng.randint(1, 4 if not big else 6),
        "groups": rng.randint(0, 2),
        "kernels": rng.randint(0, 3),      # 0: with collectives, rank 0 then has device events but no compute kernel
        # per-rank sub-directories with ONE base name (run/rank0/flex_trace.json, run/rank1/flex_trace.json, ...)
        "layout": rng.choice(["flat", "flat", "subdirs"]),
        # the last rank's file holds device events (transfers, collectives) but not a single compute kernel
        "dma_only": rng.random() < 0.25,
        "seed": rng.randint(0, 10 ** 6),
        "host": rng.randint(2, 8),
        "overlap_depth": rng.choice([0, 1, 2, 3, 5]),
        "short": rng.random() < 0.7,
        "bad_dur": rng.random() < 0.7,
        # positive durations far below a nanosecond (2^-12, 2^-11 us), as B/E pair and as X: still slices
        "sub_ns": rng.random() < 0.6,
        "near_wrap": rng.random() < 0.4,
        "meta": rng.random() < 0.5,
        "x_form": rng.random() < 0.5,
        # a lone send/receive pair early (a group that can never be judged complete) and a complete group more
        # than 20 s of trace time later: flow detection drops the stale group in-stream (crosses 2^32 wraps)
        "stale": rng.random() < 0.3,
        # every device event of a rank reports the same accumulated charge: all derived power samples are exactly 0 W
        "flat_power": rng.random() < 0.2,
        # the trace also holds host slices at the very origin of the time axis (ts == 0 as int and as float)
        "origin": rng.random() < 0.3,
        # collective-free jobs only: the rank ids (pids) start at 1 or 2 instead of 0 (one rank of a larger job, or
        # ranks 2.. analysed alone)
        "pid_base": rng.choice([0, 0, 0, 1, 2]),
    }


def build(spec):
    rng = random.Random(spec["seed"])
    R = spec["R"]
    dev_epochs = None
    if spec.get("near_wrap"):
        # the 2^32 wrap falls inside the trace (t in [100, ~2000] us at 512 cycles/us)
        dev_epochs = [sc.M32 - 512 * rng.randint(150, 900) for _ in range(R)]
    if spec["groups"] > 0 and R >= 2:
        ranks = sc.build_ranks(R=R, groups=spec["groups"], seed=spec["seed"], kernels=spec["kernels"],
                               dev_epochs=dev_epochs)
    else:
        ranks = []
        for r in range(R):
            de = dev_epochs[r] if dev_epochs else rng.randrange(0, sc.M32 // 2, 512)
            rk = sc.Rank(r + int(spec.get("pid_base", 0)), 512.0, HOST_EPOCH, de)
            t = 100.0
            for k in range(spec["kernels"] + 1):
                t = sc.kernel(rk, f"mm_{k}", t + 3)
            # one transfer name used twice: once as a plain device-to-host copy, once as part of a collective
            rk.dev_event("stage_out_1 DmaO", sc.TID_SEND, [t + 5, t + 5, t + 5, t + 6, t + 9])
            rk.dev_event("stage_out_1 DmaO", sc.TID_SEND, [t + 12, t + 12, t + 12, t + 13, t + 16],
                         {"CollGroup": "AllReduce_all_reduce_70", "Peer": str(rk.r), "Type": "SingleCast", "Bytes": "64"})
            ranks.append(rk)
    if spec.get("stale") and len(ranks) == 2:      # with more ranks mp_sync demands every rank in every group
        cg = "AllReduce_all_reduce_90"
        sync = f"{cg}_s0_r1_0"
        ranks[0].dev_event(f"SenRdmaSend_900 [sync={sync}] DmaO", sc.TID_SEND, [40, 40, 50, 50, 60],
                           {"Bytes": "64", "CollGroup": cg, "Peer": "1", "Type": "SingleCast"})
        ranks[1].dev_event(f"SenRdmaReceive_910 [64B] [sync={sync}] DmaI", sc.TID_RECV, [40, 60, 61, 61, 62],
                           {"Bytes": "64", "CollGroup": cg, "Peer": "0", "Type": "WDone Barrier"})
        t_late = max(e[1]["ts"] for rk in ranks for e in rk.events) - HOST_EPOCH + 25_000_000.0
        sc.chain_allreduce(ranks, 91, t_late, 91000)
    slices = []
    files = {}
    for rk in ranks:
        r = rk.r
        t_end = max([e[1]["ts"] for e in rk.events] + [HOST_EPOCH + 200.0]) - HOST_EPOCH
        # very short device slices: Exec phase of 1/16 us (32 cycles) and of exactly 0.1 us is not on the grid -> 1/16, 1/8
        dma_only = bool(spec.get("dma_only")) and r == len(ranks) - 1
        if dma_only:
            rk.events = [p for p in rk.events if not p[0]["name"].endswith(("Cmpt Exec", "Cmpt Prep"))]
            if not any("attr" in p[0] for p in rk.events):
                rk.dev_event("stage_in DmaI", sc.TID_RECV, [150, 151, 160, 160, 161])
                rk.dev_event("stage_out DmaO", sc.TID_SEND, [170, 170, 171, 180, 181])
        if spec.get("short") and not dma_only:
            t0 = t_end + 5
            for j, d in enumerate([1 / 16, 1 / 8, 1 / 4]):
                ts5 = [t0, t0, t0 + 2, t0 + 2 + d, t0 + 3 + d]
                rk.dev_event(f"tiny_{j} Cmpt Prep", sc.TID_PREP, ts5)
                rk.dev_event(f"tiny_{j} Cmpt Exec", sc.TID_EXEC, ts5)
                t0 += 8
            t_end = t0
        if spec.get("plain_dev", True):
            # a device event (TS1..TS5, TS1 == TS2 as FLEX writes it) whose name carries none of the four
            # instruction-type keywords
            t0 = t_end + 4
            rk.dev_event("DLM Wait", sc.TID_SEND + 11, [t0, t0, t0 + 1, t0 + 2, t0 + 3])
            t_end = t0 + 3
        pairs = list(rk.events)
        if spec.get("flat_power"):
            for (b, e) in pairs:
                if "attr" in b and "Power" in b["attr"]:
                    b["attr"]["Power"] = "123456"         # b and e share the attr dict
        for (b, e) in pairs:
            a = b.get("attr") or b.get("args")
            a["usr_note"] = f"n{r}"
            # user keys whose VALUE is JSON null (directly and inside a nested user dictionary): still user keys
            a["usr_null"] = None
            a["usr_nest"] = {"n": None, "k": r}
            b["custom_top"] = 7
            if "attr" in b and "args" not in b and spec.get("both_dicts", True):
                # a device event that carries BOTH the runtime's `attr` dict and user-supplied `args` keys
                b["args"] = {"usr_args": f"a{r}"}
        hu = [0]

        def host(name, tid, t0, t1, x_form=False, extra=None):
            hu[0] += 1
            args = {"uid": f"r{r}x{hu[0]}", "usr_note": f"h{r}", "usr_null": None, "usr_nest": {"n": None, "k": r}}
            if extra:
                args.update(extra)
            if x_form:
                ev = {"ph": "X", "name": name, "pid": r, "tid": tid, "ts": HOST_EPOCH + t0, "dur": t1 - t0,
                      "args": args, "custom_top": 7}
                pairs.append((ev, None))
            else:
                pairs.append(({"ph": "B", "name": name, "pid": r, "tid": tid, "ts": HOST_EPOCH + t0, "args": args,
                               "custom_top": 7},
                              {"ph": "E", "name": name, "pid": r, "tid": tid, "ts": HOST_EPOCH + t1, "args": args}))
        # independent host slices with ties and nesting on lane 501
        for k in range(spec["host"]):
            t0 = rng.choice([10.0, 20.0, 20.0, 35.5, 50.0 + k])
            d = rng.choice([1.0, 4.0, 4.0, 9.5])
            host(rng.choice(["hostop_a", "hostop_b", GLOBAL_NAMES[k % 3]]), 501, t0 + 0.0, t0 + d,
                 x_form=spec.get("x_form") and k % 2 == 0)
        # staggered partial overlaps on lane 502: depth+1 slices mutually overlapping (needs `depth` extra lanes)
        depth = spec.get("overlap_depth", 0)
        for k in range(depth + 1 if depth else 0):
            host(f"stagger_{k}", 502, 300.0 + 2 * k, 330.0 + 2 * k)
        # host slices whose names carry a classifier keyword in the middle or at the start
        if spec.get("tag_names"):
            for k, nm in enumerate(["Rdma Sync Barrier: iteration end", "Barrier: phase 2", "Wait Barrier: 17"]):
                host(nm, 509, 520.0 + 3 * k, 522.0 + 3 * k, x_form=(k % 2 == 0))
        # a process with many threads: more distinct thread ids than any pre-computed table of the tool holds
        for k in range(spec.get("many_tids", 0)):
            host(f"thread_{k}", 20000 + 7 * k, 500.0 + k, 500.5 + k, x_form=(k % 3 == 0))
        # zero / negative durations: documented removal at ingestion
        if spec.get("bad_dur"):
            host("zero_dur", 503, 400.0, 400.0)
            host("neg_dur", 503, 410.0, 409.0)
            host("zero_dur_x", 503, 420.0, 420.0, x_form=True)
        if spec.get("origin"):
            host("origin_x", 506, 0.0 - HOST_EPOCH, 0.5 - HOST_EPOCH, x_form=True)           # ts == 0, dur 0.5
            pairs[-1][0]["ts"] = 0                                                            # an integer zero
            host("origin_be", 507, 0.0 - HOST_EPOCH, 0.25 - HOST_EPOCH)                       # B at 0.0, E at 0.25
        # a few nanoseconds of overlap: a short slice that starts 2 ns before its predecessor ends and ends 1 ns after it
        if spec.get("tiny_overlap", True):
            host("tiny_a", 508, 480.0, 482.0)
            host("tiny_b", 508, 481.998, 482.001, x_form=True)
        # back-to-back chain on one lane: each slice starts exactly where the previous one ends (no overlap at all)
        if spec.get("chain", True):
            t0 = 460.0
            for k, d in enumerate([2.0, 3.0, 0.5, 4.0]):
                host(f"chain_{k}", 505, t0, t0 + d, x_form=(k == 2))
                t0 += d
        if spec.get("sub_ns"):
            host("tick_be_quarter_ns", 504, 440.0, 440.0 + 2.0 ** -12)
            host("tick_be_half_ns", 504, 445.0, 445.0 + 2.0 ** -11)
            host("tick_x_quarter_ns", 504, 450.0, 450.0 + 2.0 ** -12, x_form=True)
            host("tick_be_ns", 504, 455.0, 455.0 + 2.0 ** -10)
        evs = []
        pairs.sort(key=lambda p: p[0]["ts"])
        for b, e in pairs:
            evs.append(b)
            if e is not None:
                evs.append(e)
        if spec.get("ctr_collide", True):
            # user counter samples in the input: two samples of ONE track at the same instant (end of one interval,
            # start of the next) and a third one half a nanosecond later, next to a slice that starts in between
            host("ctr_neighbour", 509, 470.00025, 470.5, x_form=True)
            nb = pairs.pop()
            cs = [{"ph": "C", "name": "usr_counter", "pid": r, "ts": HOST_EPOCH + t, "args": {"v": v}}
                  for t, v in ((470.0, 3), (470.0, 0), (470.0005, 2))]
            # (never between a B and its E: the two halves of a slice are adjacent in the file)
            k = next((i for i, e in enumerate(evs) if e["ts"] > HOST_EPOCH + 470.0 and (i == 0 or evs[i - 1]["ph"] != "B")),
                     len(evs))
            evs[k:k] = cs[:2] + [nb[0]] + cs[2:]
            pairs.append(nb)
        if spec.get("meta"):
            evs.insert(0, {"ph": "M", "name": "process_name", "pid": r, "ts": 0, "args": {"name": f"rank{r}"}})
        fname = f"rank{r}/flex_trace.json" if spec.get("layout") == "subdirs" else f"trace_rank_{r}.json"
        files[fname] = evs
        for b, e in pairs:
            a = b.get("attr") or b.get("args")
            dur = (e["ts"] - b["ts"]) if e is not None else b["dur"]
            slices.append({"uid": a["uid"], "rank": r, "name": b["name"], "tid": b["tid"], "ts": b["ts"], "dur": dur,
                           "device": "attr" in b, "file": fname,
                           "user_keys": {"usr_note": a["usr_note"], "custom_top": 7, "usr_null": None,
                                         "usr_nest": {"n": None, "k": r},
                                         **({"usr_args": b["args"]["usr_args"]}
                                            if "attr" in b and "usr_args" in b.get("args", {}) else {})}})
    return files, slices
