#!/venv/bin/python
"""Translator: regenerate Lean *data* from the current /repo working tree (DESIGN.md 2.3a).

Writes (only when the content changed, so lake does not rebuild needlessly):

  lean/AiuVerif/Gen/Sites.lean     ordered `register_stage` call sites of
                                   Acelyzer.register_processing_functions: callback name,
                                   "nested under an if" flag, context expression, guard text, line
  lean/AiuVerif/Gen/Profiles.lean  everything.json / torch_minimal.json / default.json as lists

Trusted base of the translator: Python's `ast` and `json`.  It assumes registrations are direct
statements `process.register_stage(callback=event_pipe.X, ...)` at function level, possibly nested
in `if`/`else`.  Anything else that could register a stage (a loop, a `with`/`try`, a helper that
receives `process`, a computed callback, `register_stage` used as an expression) raises
ShapeNotRecognised, which the checks treat as a broken proof obligation — never skipped silently.
"""
from __future__ import annotations

import ast
import json
import os
import sys
from pathlib import Path

ROOT = Path(__file__).resolve().parents[1]
GEN = ROOT / "lean" / "AiuVerif" / "Gen"


class ShapeNotRecognised(Exception):
    pass


def repo_src() -> Path:
    return Path(os.environ.get("AIU_REPO", "/repo")) / "src" / "aiu_trace_analyzer"


def lean_str(s: str) -> str:
    return '"' + s.replace("\\", "\\\\").replace('"', '\\"').replace("\n", "\\n") + '"'


def extract_sites(acelyzer_py: Path, profile_order=None):
    """Registration sites of `register_processing_functions`, in source order, by a small symbolic walk over the
    AST: `if`/`else` nest guards; a callback / context held in a local variable that is assigned under
    different conditions yields one site per alternative (mutually exclusive sites of ONE call are listed in
    the order in which the all-stages profile names them, `profile_order`); a call `self.<helper>(process, ...)`
    of a method of the same class is inlined at the call; a local that is assigned exactly once is replaced by
    its defining expression inside guard texts (hoisted conditions read like the inline ones); negations are
    canonical (`not not x` is `x`).  Anything else that could register a stage raises ShapeNotRecognised."""
    src = acelyzer_py.read_text()
    tree = ast.parse(src)
    fns = [n for n in ast.walk(tree) if isinstance(n, ast.FunctionDef) and n.name == "register_processing_functions"]
    if len(fns) != 1:
        raise ShapeNotRecognised(f"expected exactly one register_processing_functions, found {len(fns)}")
    fn = fns[0]
    argnames = [a.arg for a in fn.args.args]
    if len(argnames) < 2:
        raise ShapeNotRecognised("register_processing_functions signature changed")
    proc = argnames[1]          # `process`
    cls = next((c for c in ast.walk(tree) if isinstance(c, ast.ClassDef) and fn in c.body), None)
    methods = {m.name: m for m in (cls.body if cls else []) if isinstance(m, ast.FunctionDef)}
    sites = []
    if profile_order is None:
        try:
            import json as _json
            ev = _json.loads((acelyzer_py.parent.parent / "profiles" / "everything.json").read_text())
            profile_order = [next(iter(e)) for e in ev.get("stages", []) if isinstance(e, dict) and e]
        except Exception:
            profile_order = []
    order = {}
    for i, n in enumerate(profile_order):
        order.setdefault(n, i)

    def is_reg_call(node) -> bool:
        return (isinstance(node, ast.Call) and isinstance(node.func, ast.Attribute)
                and node.func.attr == "register_stage")

    def helper_call(node):
        """`self.<method of this class>(..., process, ...)`"""
        if not (isinstance(node, ast.Call) and isinstance(node.func, ast.Attribute)
                and isinstance(node.func.value, ast.Name) and node.func.value.id == "self"
                and node.func.attr in methods):
            return None
        args = list(node.args) + [k.value for k in node.keywords]
        if any(isinstance(a, ast.Name) and a.id == proc for a in args):
            return methods[node.func.attr]
        return None

    def check_no_hidden_registration(node, where):
        """inside an expression / non-registration statement: no register_stage, no passing of `process`"""
        for sub in ast.walk(node):
            if is_reg_call(sub):
                raise ShapeNotRecognised(f"line {sub.lineno}: register_stage used outside a plain statement ({where})")
            if isinstance(sub, ast.Call):
                for a in list(sub.args) + [k.value for k in sub.keywords]:
                    if isinstance(a, ast.Name) and a.id == proc:
                        raise ShapeNotRecognised(f"line {sub.lineno}: `{proc}` is handed to another call ({where})")
            if isinstance(sub, (ast.Lambda, ast.FunctionDef)):
                raise ShapeNotRecognised(f"line {sub.lineno}: nested function in register_processing_functions")

    # locals assigned exactly once (over the method and the helpers it calls): usable inside guard texts
    def assigned_names(f, seen):
        out = []
        for n in ast.walk(f):
            if isinstance(n, ast.Assign) and len(n.targets) == 1 and isinstance(n.targets[0], ast.Name):
                out.append((n.targets[0].id, n.value))
            elif isinstance(n, (ast.Assign, ast.AugAssign, ast.AnnAssign, ast.For, ast.With, ast.NamedExpr)):
                for t in ast.walk(n):
                    if isinstance(t, ast.Name) and isinstance(t.ctx, ast.Store):
                        out.append((t.id, None))
            h = helper_call(n) if isinstance(n, ast.Call) else None
            if h is not None and h.name not in seen:
                seen.add(h.name)
                out += assigned_names(h, seen)
        return out
    counts = {}
    for n, v in assigned_names(fn, {fn.name}):
        counts.setdefault(n, []).append(v)
    once = {n: vs[0] for n, vs in counts.items() if len(vs) == 1 and vs[0] is not None}

    class Subst(ast.NodeTransformer):
        def __init__(self):
            self.depth = 0

        def visit_Name(self, node):
            if isinstance(node.ctx, ast.Load) and node.id in once and self.depth < 8:
                self.depth += 1
                r = self.visit(ast.parse(ast.unparse(once[node.id]), mode="eval").body)
                self.depth -= 1
                return r
            return node

    def canon(test):
        t = Subst().visit(ast.parse(ast.unparse(test), mode="eval").body)
        while isinstance(t, ast.Call) and isinstance(t.func, ast.Name) and t.func.id == "bool" \
                and len(t.args) == 1 and not t.keywords:
            t = t.args[0]           # `bool(x)` as an if-test is `x`
        return t

    def neg(node):
        if isinstance(node, ast.UnaryOp) and isinstance(node.op, ast.Not):
            return node.operand
        return ast.UnaryOp(op=ast.Not(), operand=node)

    def gtext(node):
        return ast.unparse(node)

    def join(g_use, g_alt):
        return g_use + [g for g in g_alt if g not in g_use]

    def walk(stmts, guards, env, pname):
        """env: local name -> [(value expression, guards under which it was assigned)]"""
        for s in stmts:
            if isinstance(s, ast.If):
                check_no_hidden_registration(s.test, "if-test")
                c = canon(s.test)
                g, ng = gtext(c), gtext(neg(c))
                e1 = {k: list(v) for k, v in env.items()}
                e2 = {k: list(v) for k, v in env.items()}
                walk(s.body, guards + [g], e1, pname)
                walk(s.orelse, guards + [ng], e2, pname)
                for k in set(e1) | set(e2):
                    a1, a2 = e1.get(k, []), e2.get(k, [])
                    old = env.get(k, [])
                    ch1, ch2 = a1 != old, a2 != old
                    if ch1 and ch2:
                        env[k] = a1 + a2
                    elif ch1:
                        env[k] = a1 + [(e, gg + [ng]) for e, gg in old]
                    elif ch2:
                        env[k] = [(e, gg + [g]) for e, gg in old] + a2
            elif isinstance(s, ast.Assign) and len(s.targets) == 1 and \
                    (isinstance(s.targets[0], ast.Name) or
                     (isinstance(s.targets[0], ast.Tuple) and isinstance(s.value, ast.Tuple)
                      and len(s.targets[0].elts) == len(s.value.elts)
                      and all(isinstance(t, ast.Name) for t in s.targets[0].elts))):
                check_no_hidden_registration(s.value, "Assign")
                pairs = [(s.targets[0], s.value)] if isinstance(s.targets[0], ast.Name) else \
                    list(zip(s.targets[0].elts, s.value.elts))
                for t, v in pairs:
                    env[t.id] = [(v, list(guards))]
            elif isinstance(s, ast.Expr) and is_reg_call(s.value):
                call = s.value
                if not (isinstance(call.func.value, ast.Name) and call.func.value.id == pname):
                    raise ShapeNotRecognised(f"line {s.lineno}: register_stage on something other than `{pname}`")
                kw = {k.arg: k.value for k in call.keywords}
                cb = kw.get("callback", call.args[0] if call.args else None)
                ctx = kw.get("context", call.args[1] if len(call.args) > 1 else None)
                for v in list(call.args) + list(kw.values()):
                    check_no_hidden_registration(v, "argument of register_stage") if not isinstance(v, ast.Name) else None
                if isinstance(cb, ast.Attribute) and isinstance(cb.value, ast.Name):
                    alts = [(cb, [])]
                elif isinstance(cb, ast.Name) and cb.id in env and all(
                        isinstance(e, ast.Attribute) and isinstance(e.value, ast.Name) for e, _ in env[cb.id]):
                    alts = list(env[cb.id])
                else:
                    raise ShapeNotRecognised(f"line {s.lineno}: computed callback {ast.unparse(cb) if cb else None}")
                if len(alts) > 1:
                    alts.sort(key=lambda a: order.get(a[0].attr, len(order)))
                for e, ag in alts:
                    gs = join(guards, ag)
                    ctext = ast.unparse(ctx) if ctx is not None else "None"
                    if isinstance(ctx, ast.Name) and len(env.get(ctx.id, [])) > 1:
                        # a context variable assigned under different conditions: the object built under this one
                        same = [ce for ce, cg in env[ctx.id] if join(guards, cg) == gs]
                        if len(same) == 1:
                            ctext = ast.unparse(same[0])
                    sites.append({
                        "name": e.attr,
                        "cond": len(gs) > 0,
                        "ctx": ctext,
                        "guard": " and ".join(f"({g})" for g in gs),
                        "line": s.lineno,
                        "kwargs": sorted(k for k in kw if k not in ("callback", "context")),
                    })
            elif isinstance(s, ast.Expr) and helper_call(s.value) is not None:
                h = helper_call(s.value)
                call = s.value
                params = [a.arg for a in h.args.args][1:]       # without self
                actual = list(call.args) + [None] * (len(params) - len(call.args))
                for k in call.keywords:
                    if k.arg in params:
                        actual[params.index(k.arg)] = k.value
                hp = None
                for pn, av in zip(params, actual):
                    if isinstance(av, ast.Name) and av.id == pname:
                        hp = pn
                    elif av is not None and not (isinstance(av, ast.Name) and av.id == pn):
                        # a parameter under another name / bound to an expression: readable through `once`
                        if pn not in once:
                            once[pn] = av
                    if av is not None and not isinstance(av, ast.Name):
                        check_no_hidden_registration(av, "argument of a helper call")
                if hp is None or h is fn:
                    raise ShapeNotRecognised(f"line {s.lineno}: helper call {ast.unparse(call.func)} not understood")
                walk(h.body, guards, {k: list(v) for k, v in env.items()}, hp)
            elif isinstance(s, (ast.For, ast.While, ast.With, ast.Try, ast.FunctionDef, ast.ClassDef, ast.Match,
                                ast.AsyncFor, ast.AsyncWith, ast.Return)):
                for sub in ast.walk(s):
                    if is_reg_call(sub):
                        raise ShapeNotRecognised(f"line {s.lineno}: register_stage inside {type(s).__name__}")
                check_no_hidden_registration(s, type(s).__name__)
            else:
                check_no_hidden_registration(s, type(s).__name__)
    walk(fn.body, [], {}, proc)
    if not sites:
        raise ShapeNotRecognised("no register_stage call sites found")
    return sites


def load_profile(p: Path):
    d = json.loads(p.read_text())
    if len(d) == 0:
        return None            # empty profile: StageProfile.from_json substitutes the all-stages profile
    out = []
    for ent in d["stages"]:
        if len(ent) != 1:
            raise ShapeNotRecognised(f"profile entry with {len(ent)} keys in {p.name}")
        (k, v), = ent.items()
        out.append((k, bool(v)))
    return out


def write_if_changed(path: Path, text: str) -> bool:
    path.parent.mkdir(parents=True, exist_ok=True)
    if path.exists() and path.read_text() == text:
        return False
    tmp = path.with_suffix(".tmp%d" % os.getpid())
    tmp.write_text(text)
    os.replace(tmp, path)
    return True


def generate() -> dict:
    src = repo_src()
    sites = extract_sites(src / "core" / "acelyzer.py")
    lines = ["/- GENERATED by harness/translate.py from core/acelyzer.py of the current /repo tree. Do not edit. -/",
             "namespace AiuVerif.Gen", "",
             "/-- one `process.register_stage(callback=event_pipe.<name>, context=<ctx>)` statement -/",
             "structure Site where",
             "  name : String",
             "  cond : Bool      -- nested under at least one `if`",
             "  ctx : String     -- source text of the context argument",
             "  guard : String   -- source text of the enclosing if-conditions",
             "  line : Nat",
             "deriving Repr, DecidableEq", "",
             "def sites : List Site := ["]
    for i, s in enumerate(sites):
        sep = "," if i + 1 < len(sites) else ""
        lines.append(f"  ⟨{lean_str(s['name'])}, {'true' if s['cond'] else 'false'}, {lean_str(s['ctx'])}, "
                     f"{lean_str(s['guard'])}, {s['line']}⟩{sep}")
    lines += ["]", "", "end AiuVerif.Gen", ""]
    ch1 = write_if_changed(GEN / "Sites.lean", "\n".join(lines))

    profs = {}
    for nm in ["everything", "torch_minimal", "default"]:
        profs[nm] = load_profile(src / "profiles" / f"{nm}.json")
    if profs["everything"] is None:
        raise ShapeNotRecognised("everything.json is empty")
    pl = ["/- GENERATED by harness/translate.py from profiles/*.json of the current /repo tree. Do not edit. -/",
          "namespace AiuVerif.Gen", ""]
    for nm, lean_nm in [("everything", "everything"), ("torch_minimal", "torchMinimal"), ("default", "defaultProfile")]:
        p = profs[nm]
        pl.append(f"/-- profiles/{nm}.json; `none` = empty JSON object (from_json then uses the all-stages profile) -/")
        if p is None:
            pl.append(f"def {lean_nm} : Option (List (String × Bool)) := none")
        else:
            body = ", ".join(f"({lean_str(k)}, {'true' if v else 'false'})" for k, v in p)
            pl.append(f"def {lean_nm} : Option (List (String × Bool)) := some [{body}]")
        pl.append("")
    pl += ["end AiuVerif.Gen", ""]
    ch2 = write_if_changed(GEN / "Profiles.lean", "\n".join(pl))
    ch3 = generate_tables(sites)
    ch4 = generate_returns(sites)
    ch5 = generate_globals()
    return {"tables_changed": ch3, "returns_changed": ch4, "globals_changed": ch5, "sites": len(sites), "conditional_sites": sum(1 for s in sites if s["cond"]),
            "profiles": {k: (None if v is None else len(v)) for k, v in profs.items()},
            "changed": [n for n, c in [("Sites.lean", ch1), ("Profiles.lean", ch2)] if c],
            "site_list": sites}


def live_registration(argv):
    """(name, line, context) of every accepted register_stage call of the real registration for `argv`"""
    import tempfile
    import shutil
    sys.path.insert(0, str(repo_src().parent))
    import aiu_trace_analyzer.logger as aiulog
    from aiu_trace_analyzer.core.acelyzer import Acelyzer
    from aiu_trace_analyzer.core.processing import EventProcessor
    from aiu_trace_analyzer.core.stage_profile import StageProfile
    import aiu_trace_analyzer.export.exporter as output
    tmp = tempfile.mkdtemp(prefix="aiuverif_")
    saved = sys.argv
    sys.argv = ["acelyzer"]
    try:
        ace = Acelyzer(["-i", "dummy.json", "-o", os.path.join(tmp, "out.json"), "-D", "0", *argv])
        aiulog.loglevel = -1
        rec = []

        class Rec(EventProcessor):
            def register_stage(self, callback, context=None, **kwargs):
                before = len(self.stages)
                super().register_stage(callback, context, **kwargs)
                if len(self.stages) > before:
                    rec.append((callback.__name__, sys._getframe(1).f_lineno, context, kwargs))
        proc = Rec(profile=StageProfile.from_json(ace.args.profile))
        exporter = output.JsonFileTraceExporter(target_uri=os.path.join(tmp, "out.json"),
                                                timescale=ace.args.time_unit, settings=vars(ace.args))
        ace.register_processing_functions(proc, ace.args, exporter)
        return rec
    finally:
        sys.argv = saved
        shutil.rmtree(tmp, ignore_errors=True)


def return_shapes(sites):
    """For every registered callback: the syntactic shapes of its `return` statements
    ('event' = `[<first parameter>]`, 'empty' = `[]`, 'var', 'call', 'other') and whether the first
    parameter is ever re-assigned.  A callback whose only shape is 'event' and that never re-assigns
    its parameter hands every event it receives to the next stage, by construction."""
    import inspect
    import textwrap
    sys.path.insert(0, str(repo_src().parent))
    import aiu_trace_analyzer.pipeline as ep
    out = []
    seen = set()
    for s in sites:
        n = s["name"]
        if n in seen:
            continue
        seen.add(n)
        fn = getattr(ep, n, None)
        if fn is None:
            raise ShapeNotRecognised(f"callback {n} is not exported by aiu_trace_analyzer.pipeline")
        f = ast.parse(textwrap.dedent(inspect.getsource(fn))).body[0]
        if not isinstance(f, ast.FunctionDef) or not f.args.args:
            raise ShapeNotRecognised(f"callback {n} is not a plain function with parameters")
        param = f.args.args[0].arg
        kinds = []

        def shape(v):
            if isinstance(v, ast.List) and len(v.elts) == 1 and isinstance(v.elts[0], ast.Name) and v.elts[0].id == param:
                return "event"
            if isinstance(v, ast.List) and len(v.elts) == 0:
                return "empty"
            if isinstance(v, ast.Name):
                return "var"
            if isinstance(v, ast.Call):
                return "call"
            return "other"

        # a local that only ever holds list literals and is never mutated or aliased stands for those literals
        # (single-exit style: `revents = [event] ... return revents`)
        assigned, tainted = {}, set()
        for x in ast.walk(f):
            if isinstance(x, ast.Assign):
                for t in x.targets:
                    if isinstance(t, ast.Name):
                        assigned.setdefault(t.id, []).append(x.value)
                    else:
                        for nn in ast.walk(t):
                            if isinstance(nn, ast.Name):
                                tainted.add(nn.id)
            elif isinstance(x, (ast.AugAssign, ast.AnnAssign)) and isinstance(x.target, ast.Name):
                tainted.add(x.target.id)
            elif isinstance(x, (ast.For, ast.With, ast.NamedExpr, ast.comprehension)):
                tg = getattr(x, "target", None)
                for nn in ast.walk(tg) if tg is not None else []:
                    if isinstance(nn, ast.Name):
                        tainted.add(nn.id)
        for x in ast.walk(f):
            if isinstance(x, ast.Name) and isinstance(x.ctx, ast.Load) and x.id in assigned:
                pass
        uses = {}
        for x in ast.walk(f):
            for ch in ast.iter_child_nodes(x):
                if isinstance(ch, ast.Name) and isinstance(ch.ctx, ast.Load) and ch.id in assigned \
                        and not isinstance(x, ast.Return):
                    uses.setdefault(ch.id, []).append(x)      # read anywhere but in `return <name>`: may be mutated / aliased
        literal_locals = {n: vs for n, vs in assigned.items()
                          if n not in tainted and n not in uses and n != param
                          and all(shape(v) in ("event", "empty") for v in vs)}

        class V(ast.NodeVisitor):
            def visit_FunctionDef(self, node):
                if node is f:
                    self.generic_visit(node)

            def visit_Lambda(self, node):
                pass

            def visit_Return(self, node):
                v = node.value
                if isinstance(v, ast.Name) and v.id in literal_locals:
                    kinds.extend(shape(x) for x in literal_locals[v.id])
                else:
                    kinds.append(shape(v))
        V().visit(f)
        reassigned = any(
            (isinstance(x, (ast.Assign,)) and any(isinstance(t, ast.Name) and t.id == param for t in x.targets)) or
            (isinstance(x, (ast.AugAssign, ast.AnnAssign)) and isinstance(x.target, ast.Name) and x.target.id == param)
            for x in ast.walk(f))
        out.append((n, sorted(set(kinds)), reassigned))
    return out


def generate_returns(sites) -> bool:
    rows = return_shapes(sites)
    tl = ["/- GENERATED by harness/translate.py from the source of every registered stage callback",
          "   (shapes of its return statements) of the current /repo tree. Do not edit. -/",
          "namespace AiuVerif.Gen", "",
          "/-- callback name, sorted set of return shapes, first parameter re-assigned? -/",
          "def returns : List (String × List String × Bool) := ["]
    tl.append(",\n".join(f"  ({lean_str(n)}, [{', '.join(lean_str(k) for k in ks)}], {'true' if r else 'false'})"
                          for n, ks, r in rows))
    tl += ["]", "", "end AiuVerif.Gen", ""]
    return write_if_changed(GEN / "Returns.lean", "\n".join(tl))


_MUTABLE_CTORS = ("dict", "list", "set", "defaultdict", "OrderedDict", "Counter", "deque")
_HARMLESS_CALLS = ("compile", "getLogger", "frozenset", "tuple", "int", "float", "str", "bool", "range", "auto", "TypeVar",
                   "namedtuple", "join", "dirname", "Path",
                   "object")      # `object()`: a stateless identity sentinel


def process_level_state():
    """Inventory of process-level mutable state of the package: module-level and class-body-level names bound
    to a dict / list / set (literal, comprehension or constructor call) or to an instance of some class, and
    class attributes assigned through `cls.<name> = ...` inside methods.  Anything here outlives an
    Acelyzer.run() and is therefore a potential hidden input (C14)."""
    root = repo_src()
    out = []

    def kind(v):
        if isinstance(v, (ast.Dict, ast.DictComp)):
            return "dict"
        if isinstance(v, (ast.List, ast.ListComp)):
            return "list"
        if isinstance(v, (ast.Set, ast.SetComp)):
            return "set"
        if isinstance(v, ast.Call):
            f = v.func
            n = f.id if isinstance(f, ast.Name) else (f.attr if isinstance(f, ast.Attribute) else "?")
            if n in _MUTABLE_CTORS:
                return n
            if n in _HARMLESS_CALLS:
                return None
            return "instance:" + n
        return None

    _RO_FUNCS = {"dict", "list", "set", "tuple", "frozenset", "sorted", "len", "deepcopy", "copy", "enumerate", "any", "all",
                 "min", "max", "sum", "iter", "reversed", "zip", "str", "repr"}
    _RO_METHODS = {"copy", "get", "items", "keys", "values", "index", "count"}
    all_sources = {q: q.read_text() for q in root.rglob("*.py")}

    def flat_constant(v):
        """a dict / list / set LITERAL whose members are constants (or tuples of constants)"""
        def const(x):
            return isinstance(x, ast.Constant) or (isinstance(x, ast.Tuple) and all(const(e) for e in x.elts))
        if isinstance(v, ast.Dict):
            return all(k is not None and const(k) for k in v.keys) and all(const(x) for x in v.values)
        if isinstance(v, (ast.List, ast.Set)):
            return all(const(x) for x in v.elts)
        return False

    def only_read(tree, name, here):
        """a module-level constant table that is never mutated, never aliased and not visible to other modules: every
        occurrence of its name is a read (copied through dict()/list()/.copy(), looked up, iterated, tested with `in`).
        Such a table is not state (its value after any run is its literal)."""
        import re as _re
        for q, text in all_sources.items():
            if q != here and _re.search(r"\b" + _re.escape(name) + r"\b", text):
                return False
        parents = {}
        for n in ast.walk(tree):
            for c in ast.iter_child_nodes(n):
                parents[c] = n
        seen_def = 0
        for n in ast.walk(tree):
            if not (isinstance(n, ast.Name) and n.id == name):
                continue
            par = parents.get(n)
            if isinstance(n.ctx, ast.Store):
                seen_def += 1
                if seen_def > 1 or not isinstance(par, (ast.Assign, ast.AnnAssign)) or parents.get(par) is not tree:
                    return False
                continue
            if not isinstance(n.ctx, ast.Load):
                return False
            if isinstance(par, ast.Call) and n in par.args:
                f = par.func
                fn = f.id if isinstance(f, ast.Name) else (f.attr if isinstance(f, ast.Attribute) else "")
                if fn in _RO_FUNCS and len(par.args) == 1:
                    continue
                return False
            if isinstance(par, ast.Attribute) and par.value is n:
                g = parents.get(par)
                if par.attr in _RO_METHODS and isinstance(g, ast.Call) and g.func is par:
                    continue
                return False
            if isinstance(par, ast.Subscript) and par.value is n and isinstance(par.ctx, ast.Load):
                continue
            if isinstance(par, ast.Compare) and n in par.comparators and all(isinstance(o, (ast.In, ast.NotIn)) for o in par.ops):
                continue
            if isinstance(par, (ast.For, ast.comprehension)) and par.iter is n:
                continue
            return False
        return seen_def == 1

    for p in sorted(root.rglob("*.py")):
        mod = str(p.relative_to(root))[:-3].replace("/", ".")
        tree = ast.parse(p.read_text())

        def scan(body, prefix):
            for st in body:
                tg = None
                if isinstance(st, ast.Assign) and len(st.targets) == 1 and isinstance(st.targets[0], ast.Name):
                    tg, v = st.targets[0].id, st.value
                elif isinstance(st, ast.AnnAssign) and isinstance(st.target, ast.Name) and st.value is not None:
                    tg, v = st.target.id, st.value
                if tg:
                    k = kind(v)
                    if k and prefix == "" and flat_constant(v) and only_read(tree, tg, p):
                        k = None        # a module-level table of constants that is only ever read
                    if k:
                        out.append((mod, prefix + tg, k))
                if isinstance(st, ast.ClassDef):
                    scan(st.body, prefix + st.name + ".")
                    for sub in ast.walk(st):
                        if isinstance(sub, (ast.Assign, ast.AugAssign)):
                            tgs = sub.targets if isinstance(sub, ast.Assign) else [sub.target]
                            for t in tgs:
                                if isinstance(t, ast.Attribute) and isinstance(t.value, ast.Name) and t.value.id == "cls":
                                    out.append((mod, prefix + st.name + "." + t.attr, "cls-attr"))
        scan(tree.body, "")
        # memoising decorators keep results for the life of the process (lru_cache / cache on a function or method;
        # cached_property lives in the instance and is not process-level)
        for node in ast.walk(tree):
            if isinstance(node, (ast.FunctionDef, ast.AsyncFunctionDef)):
                for dec in node.decorator_list:
                    d = dec.func if isinstance(dec, ast.Call) else dec
                    dn = d.id if isinstance(d, ast.Name) else (d.attr if isinstance(d, ast.Attribute) else "")
                    if dn in ("lru_cache", "cache"):
                        out.append((mod, node.name, "memo:" + dn))
            if isinstance(node, ast.Call):
                f = node.func
                fn = f.id if isinstance(f, ast.Name) else (f.attr if isinstance(f, ast.Attribute) else "")
                if fn in ("lru_cache", "cache") and node.args and not isinstance(node.args[0], ast.Constant):
                    out.append((mod, ast.unparse(node.args[0])[:40], "memo:" + fn))      # lru_cache(f) used as a call
    return sorted(set(out))


def generate_globals() -> bool:
    rows = process_level_state()
    tl = ["/- GENERATED by harness/translate.py: inventory of process-level mutable state of the package",
          "   (module-level / class-level dict, list, set, instances; attributes assigned through `cls.`)",
          "   of the current /repo tree. Do not edit. -/",
          "namespace AiuVerif.Gen", "",
          "/-- module, qualified name, kind -/",
          "def globals : List (String × String × String) := ["]
    tl.append(",\n".join(f"  ({lean_str(m)}, {lean_str(n)}, {lean_str(k)})" for m, n, k in rows))
    tl += ["]", "",
           "/-- functions with a MUTABLE default argument value (one object per process, shared by every call that omits the",
           "    argument): module, qualified function name, parameter -/",
           "def mutableDefaults : List (String × String × String) := ["]
    tl.append(",\n".join(f"  ({lean_str(m)}, {lean_str(n)}, {lean_str(k)})" for m, n, k in mutable_defaults()))
    tl += ["]", "", "end AiuVerif.Gen", ""]
    return write_if_changed(GEN / "Globals.lean", "\n".join(tl))


def mutable_defaults():
    """every function / method of the package one of whose parameters defaults to a list / dict / set display, a
    comprehension or a call of a mutable constructor"""
    import ast
    root = repo_src()
    ctors = {"list", "dict", "set", "defaultdict", "deque", "OrderedDict", "Counter", "bytearray"}
    rows = []
    for q in sorted(root.rglob("*.py")):
        mod = ".".join(q.relative_to(root).with_suffix("").parts)
        tree = ast.parse(q.read_text())

        def visit(node, prefix):
            for c in ast.iter_child_nodes(node):
                if isinstance(c, ast.ClassDef):
                    visit(c, prefix + c.name + ".")
                elif isinstance(c, (ast.FunctionDef, ast.AsyncFunctionDef)):
                    a = c.args
                    pos = a.posonlyargs + a.args
                    pairs = list(zip(pos[len(pos) - len(a.defaults):], a.defaults)) + \
                        [(k, d) for k, d in zip(a.kwonlyargs, a.kw_defaults) if d is not None]
                    for arg, d in pairs:
                        mut = isinstance(d, (ast.List, ast.Dict, ast.Set, ast.ListComp, ast.DictComp, ast.SetComp)) or \
                            (isinstance(d, ast.Call) and isinstance(d.func, ast.Name) and d.func.id in ctors)
                        if mut:
                            rows.append((mod, prefix + c.name, arg.arg))
                    visit(c, prefix + c.name + ".")
                else:
                    visit(c, prefix)
        visit(tree, "")
    return rows


def generate_tables(sites) -> bool:
    """Gen/Tables.lean: parameters of the contexts the CLI really registers, read off the live objects
    after executing the real registration (default switches) on a recording processor."""
    line2idx = {}
    for i, s in enumerate(sites):
        line2idx.setdefault((s["name"], s["line"]), i)
    rec = live_registration([])
    sort_ctxs = []
    for name, line, ctx, _kw in rec:
        if name == "sort_events":
            idx = line2idx.get((name, line))
            if idx is None:
                raise ShapeNotRecognised(f"sort_events registered from line {line} which is not a translated site")
            keys = ", ".join(f"({lean_str(k)}, {int(r)})" for k, r in ctx.sortkey)
            et = "none" if ctx.event_types is None else "some [" + ", ".join(lean_str(t) for t in ctx.event_types) + "]"
            sort_ctxs.append(f"  ⟨{idx}, [{keys}], {'true' if ctx.global_sort else 'false'}, {et}⟩")
    # the TID mapping context as registered (table of pre-computed slots and the step that continues it)
    tid_ctx = [ctx for name, _l, ctx, _kw in rec if name == "map_tid_to_range"]
    # DATA for the model (compared with the real callback + this very context object by C01's correspondence): read off the
    # live object where it shows its table; a context that keeps it differently gets the table the CLI defaults describe
    try:
        tid_table, tid_step = list(tid_ctx[0].tid_remap), tid_ctx[0].remap_step
        if not all(isinstance(v, int) for v in tid_table) or not isinstance(tid_step, int):
            raise AttributeError
    except (AttributeError, IndexError, TypeError):
        from aiu_trace_analyzer.core.acelyzer import Acelyzer as _A
        d = getattr(_A, "defaults", {})
        n, st, tid_step = int(d.get("remap_size", 30)), int(d.get("remap_start", 1000)), int(d.get("remap_step", 100))
        tid_table = [st + k * tid_step for k in range(n)]
    # the name parts of drop_global_events (a list literal assigned to `glb_names` in the callback)
    import ast as _ast
    gsrc = (repo_src() / "pipeline" / "drop_global_event.py").read_text()
    # the table is DATA for the model, not an obligation by itself: whatever is extracted here is compared with the real
    # callback on generated names by C01's correspondence, and `glb_names_documented` pins it to the documented names.
    # So any literal sequence of strings of that file qualifies (a refactoring may rename or move it); when none is
    # found the documented names are used and the correspondence alone decides.
    documented = ["Execute graph", "SenFusedDeviceNode", "AIU Roundtrip", "Flex RoundTrip", "PostKeys", "FetchKeys",
                  "Callback", "HostPrep", "AllocateFrame of", "Update CBs"]
    cands = [n for n in _ast.walk(_ast.parse(gsrc)) if isinstance(n, (_ast.List, _ast.Tuple)) and len(n.elts) >= 2
             and all(isinstance(e, _ast.Constant) and isinstance(e.value, str) for e in n.elts)
             and any(e.value in documented for e in n.elts)]
    glb = [e.value for e in cands[0].elts] if len(cands) == 1 else documented
    tl = ["/- GENERATED by harness/translate.py from the live context objects of the real registration",
          "   (default switches) of the current /repo tree. Do not edit. -/",
          "namespace AiuVerif.Gen", "",
          "/-- an EventSortingContext as registered: site index, parsed sort key (name, 1 or -1), global_sort, event_types -/",
          "structure SortCtx where",
          "  site : Nat",
          "  sortkey : List (String × Int)",
          "  globalSort : Bool",
          "  eventTypes : Option (List String)",
          "deriving Repr, DecidableEq", "",
          "def sortCtxs : List SortCtx := [", ",\n".join(sort_ctxs), "]", "",
          "/-- `tid_remap` and `remap_step` of the TIDMappingContext the CLI registers -/",
          "def tidRemap : List Int := [" + ", ".join(str(v) for v in tid_table) + "]",
          f"def tidStep : Int := {tid_step}", "",
          "/-- `glb_names` of drop_global_events (list literal in the source) -/",
          "def glbNames : List String := [" + ", ".join(lean_str(g) for g in glb) + "]", "",
          "end AiuVerif.Gen", ""]
    return write_if_changed(GEN / "Tables.lean", "\n".join(tl))


if __name__ == "__main__":
    r = generate()
    r.pop("site_list")
    print(json.dumps(r))
