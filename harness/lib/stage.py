"""Drive real stages of /repo in-process: through a real EventProcessor + Engine.run.

* `cli_stages(argv)`: the (name, callback, context, kwargs) tuples that the real
  `Acelyzer.register_processing_functions` registers for a command line (recorded from a real
  EventProcessor under the profile the CLI would pick, so constructor arguments, thresholds and
  shared context objects are the real ones).
* `run_stages(stages, events)`: run a list of (callback, context, kwargs) on a stream of event
  dicts inside a real EventProcessor driven by the real Engine.run; returns the raw event dicts
  that leave the last stage (captured by an extra recording stage, deep-copied).
* `e2e(argv_tail, files)`: run the real Acelyzer API in-process on generated input files.
"""
from __future__ import annotations

import contextlib
import copy
import io
import json
import os
import shutil
import sys
import tempfile


def accepting_profile(names):
    from aiu_trace_analyzer.core.stage_profile import StageProfile
    if not names:
        class _P:
            profile = []
        return _P()
    data = {"stages": [{n: True} for n in names]}
    return StageProfile(copy.deepcopy(data), copy.deepcopy(data))


class NullExporter:
    def __init__(self):
        self.events = []

    def export(self, evs):
        self.events.extend(evs)

    def flush(self):
        pass


def cli_stages(argv, input_name="dummy.json"):
    """stages the CLI registers for `argv` (a list without -i/-o); returns list of dicts"""
    import aiu_trace_analyzer.logger as aiulog
    from aiu_trace_analyzer.core.acelyzer import Acelyzer
    from aiu_trace_analyzer.core.processing import EventProcessor
    from aiu_trace_analyzer.core.stage_profile import StageProfile
    import aiu_trace_analyzer.export.exporter as output

    tmp = tempfile.mkdtemp(prefix="aiuverif_")
    try:
        saved_argv = sys.argv
        sys.argv = ["acelyzer"]
        with contextlib.redirect_stdout(io.StringIO()):
            ace = Acelyzer(["-i", input_name, "-o", os.path.join(tmp, "out.json"), "-D", "0", *argv])
        aiulog.loglevel = -1
        sys.argv = saved_argv
        rec = []

        class Rec(EventProcessor):
            def register_stage(self, callback, context=None, **kwargs):
                before = len(self.stages)
                super().register_stage(callback, context, **kwargs)
                rec.append({"name": callback.__name__, "callback": callback, "context": context,
                            "kwargs": kwargs, "registered": len(self.stages) > before})
        proc = Rec(profile=StageProfile.from_json(ace.args.profile))
        exporter = output.JsonFileTraceExporter(target_uri=os.path.join(tmp, "out.json"),
                                                timescale=ace.args.time_unit, settings=vars(ace.args))
        ace.register_processing_functions(proc, ace.args, exporter)
        return rec
    finally:
        shutil.rmtree(tmp, ignore_errors=True)


def run_stages(stages, events, deepcopy_input=True):
    """stages: list of (callback, context, kwargs|None). Returns (captured raw dicts, error-or-None).
    An exception raised by a stage is returned as its class name (e.g. 'AssertionError')."""
    import aiu_trace_analyzer.pipeline.barrier as barrier_mod
    from aiu_trace_analyzer.core.processing import EventProcessor
    from aiu_trace_analyzer.core.engine import Engine

    captured = []

    def _capture(event, _ctx):
        captured.append(copy.deepcopy(event))
        return []
    names = [s[0].__name__ for s in stages] + ["_capture"]
    proc = EventProcessor(profile=accepting_profile(names))
    barrier_mod._main_barrier_context.hold = []
    for cb, ctx, kw in stages:
        proc.register_stage(cb, ctx, **(kw or {}))
    proc.register_stage(_capture, None)
    assert len(proc.stages) == len(stages) + 2
    evs = copy.deepcopy(list(events)) if deepcopy_input else list(events)
    err = None
    try:
        Engine(evs, proc, NullExporter()).run()
    except Exception as e:  # noqa: BLE001 - the error class is part of the observable behaviour
        err = type(e).__name__
    finally:
        barrier_mod._main_barrier_context.hold = []
    return captured, err


def write_trace(path, events, extra=None):
    # a dict is a complete trace document (e.g. a torch-profiler file with deviceProperties): written as it is
    d = dict(events) if isinstance(events, dict) else {"traceEvents": events}
    if extra:
        d.update(extra)
    with open(path, "w") as fh:
        json.dump(d, fh)


def _scratch_dir_with_distinct_job_ids(names):
    """The analyzer derives a 4-digit job id from crc32(path) % 10000; two input files of ONE run whose
    ids collide share one registry slot (observation recorded in DESIGN.md; hypothesis KeysInjective
    of C20).  Generated scenarios stay inside that assumption: pick a scratch directory in which the
    ids of the input files are pairwise distinct, differ from the 'top_level_multifile' pseudo job and from 0."""
    import zlib
    top = zlib.crc32(b"top_level_multifile") % 10000
    for _ in range(50):
        tmp = tempfile.mkdtemp(prefix="aiuverif_")
        ids = [zlib.crc32(os.path.join(tmp, n).encode()) % 10000 for n in names]
        # id 0 is the key the harnesses give to events they synthesize themselves (never a registered job)
        if len(set(ids)) == len(ids) and top not in ids and 0 not in ids:
            return tmp
        shutil.rmtree(tmp, ignore_errors=True)
    return tempfile.mkdtemp(prefix="aiuverif_")


def e2e(argv_tail, files: dict[str, list[dict]], want_files=(), keep_dir=False, post=None, out_name="out.json",
        in_dir=None, capture_log=False, input_glob=None):
    """Run the real Acelyzer API in-process.  `files`: name -> list of input events (written as
    {"traceEvents": [...]}).  Returns dict(rc, error, events, other, outdir-files requested).
    `post(ace)`: optional callback evaluated after a run that did not raise (e.g.
    `lambda ace: ace.get_output_data()`); its value is returned as res["post"].
    `out_name`: basename given to `-o`.  `in_dir`: run in this existing directory (never removed here)
    instead of a fresh temporary one, so that two runs see identical input paths.
    `input_glob`: name the input files by this ONE wildcard pattern (relative to the scratch directory) instead
    of a comma-separated list."""
    import aiu_trace_analyzer.logger as aiulog
    from aiu_trace_analyzer.core.acelyzer import Acelyzer

    tmp = in_dir if in_dir is not None else _scratch_dir_with_distinct_job_ids(list(files))
    if in_dir is not None:
        keep_dir = True
    res = {"rc": None, "error": None, "events": None, "files": {}}
    try:
        paths = []
        for name, evs in files.items():
            p = os.path.join(tmp, name)
            os.makedirs(os.path.dirname(p), exist_ok=True)     # names may place files in per-rank sub-directories
            write_trace(p, evs)
            paths.append(p)
        out = os.path.join(tmp, out_name)
        saved_argv = sys.argv
        sys.argv = ["acelyzer"]
        try:
            logbuf = io.StringIO()
            saved_level = aiulog.loglevel
            try:
                with contextlib.redirect_stdout(logbuf):
                    inp = os.path.join(tmp, input_glob) if input_glob else ",".join(paths)
                    ace = Acelyzer(["-i", inp, "-o", out, "-D", "0", *argv_tail])
                    # capture_log: the INFO lines of the run (statistics printed at drain) are returned as res["log"]
                    aiulog.loglevel = aiulog.INFO if capture_log else -1
                    res["rc"] = ace.run()
                    if post is not None:
                        res["post"] = post(ace)
            finally:
                if capture_log:
                    res["log"] = logbuf.getvalue()
                    aiulog.loglevel = saved_level
        except SystemExit as e:
            res["rc"] = e.code
            res["error"] = "SystemExit"
        except Exception as e:  # noqa: BLE001
            res["error"] = type(e).__name__ + ": " + str(e)[:200]
        finally:
            sys.argv = saved_argv
        if os.path.exists(out):
            with open(out) as fh:
                res["raw"] = fh.read()
            try:
                res["events"] = json.loads(res["raw"])["traceEvents"]
            except Exception as e:  # noqa: BLE001
                res["error"] = (res["error"] or "") + f" output-json: {e}"
        for w in want_files:
            p = os.path.join(tmp, w)
            if os.path.exists(p):
                with open(p) as fh:
                    res["files"][w] = fh.read()
        res["listing"] = sorted(os.listdir(tmp))
        if keep_dir:
            res["dir"] = tmp
        return res
    finally:
        if not keep_dir:
            shutil.rmtree(tmp, ignore_errors=True)
