"""Shared machinery of the checks: Lean build + axiom audit, model driver, verdict, evidence.

Verdict logic (DESIGN.md 2.6), identical for every property:

  translate -> lake build Props.Cxx (+ driver) -> axiom / sorry audit -> correspondence -> oracle

* everything green                                   -> exit 0
* oracle violation on the real code, listed `open`   -> KNOWN-FINDING line, exit 0
* any other oracle violation                         -> VIOLATION ... replay=<case>, exit 1
* proof obligation / audit / correspondence broken   -> failing-input search on the real code;
     found     -> VIOLATION ... replay=<case>
     not found -> VIOLATION ... replay=<file naming what no longer checks> no-failing-input-found
* infrastructure errors / timeouts                   -> exit 2, never a VIOLATION line
"""
from __future__ import annotations

import fcntl
import json
import os
import random
import re
import subprocess
import sys
import time
from contextlib import contextmanager
from fractions import Fraction
from pathlib import Path

ROOT = Path(__file__).resolve().parents[2]          # /verif (checkout relative)
LEAN = ROOT / "lean"
HARNESS = ROOT / "harness"
EVIDENCE = ROOT / "evidence"
REPLAYS = ROOT / "replays"
REPO = Path(os.environ.get("AIU_REPO", "/repo"))
KNOWN = ROOT / "known_findings.json"
ALLOWED_AXIOMS = {"propext", "Classical.choice", "Quot.sound"}
FORBIDDEN = re.compile(
    r"\b(sorry|admit|native_decide|bv_decide|implemented_by|unsafe)\b|^\s*axiom\s|maxHeartbeats\s+0\b",
    re.M)

os.environ.setdefault("AIU_TRACE_ANALYZER_VERIF", "1")


ENOUGH = 60
EARLY_STOP = [True]     # switched off while a verdict is being formed (shrinking, replay)


class Enough(BaseException):
    """raised by Ctx.violation once the number of violations observed on the real code makes further exploration pointless"""


class Infra(Exception):
    """infrastructure failure: exit 2, never a violation"""


# --------------------------------------------------------------------------------------------
# Lean side
# --------------------------------------------------------------------------------------------

@contextmanager
def lean_lock():
    LEAN.mkdir(exist_ok=True)
    with open(LEAN / ".verif.lock", "w") as fh:
        fcntl.flock(fh, fcntl.LOCK_EX)
        try:
            yield
        finally:
            fcntl.flock(fh, fcntl.LOCK_UN)


def _run(cmd, cwd=None, timeout=3600, input=None):
    env = dict(os.environ)
    p = subprocess.run(cmd, cwd=cwd, capture_output=True, text=True, timeout=timeout, input=input, env=env)
    out = "\n".join(l for l in (p.stdout + p.stderr).splitlines() if "conda" not in l.lower() or "error" in l.lower())
    return p.returncode, out


def lake_build(targets: list[str]) -> tuple[bool, str]:
    """build the given lake targets; returns (ok, filtered output)"""
    with lean_lock():
        rc, out = _run(["lake", "build", *targets], cwd=LEAN)
    return rc == 0, out


def strip_comments(src: str) -> str:
    # nested block comments /- ... -/ and line comments --
    out, i, depth = [], 0, 0
    while i < len(src):
        if src.startswith("/-", i):
            depth += 1
            i += 2
        elif depth and src.startswith("-/", i):
            depth -= 1
            i += 2
        elif depth:
            if src[i] == "\n":
                out.append("\n")
            i += 1
        elif src.startswith("--", i):
            while i < len(src) and src[i] != "\n":
                i += 1
        else:
            out.append(src[i])
            i += 1
    return "".join(out)


def forbidden_tokens() -> list[str]:
    """grep every Lean source of the library for sorry/admit/axiom/native_decide/... (comments discarded)"""
    hits = []
    for f in sorted(LEAN.glob("AiuVerif/**/*.lean")) + [LEAN / "Driver.lean"]:
        txt = strip_comments(f.read_text())
        # string literals may mention the words (none do today); keep it strict
        for m in FORBIDDEN.finditer(txt):
            line = txt.count("\n", 0, m.start()) + 1
            hits.append(f"{f.relative_to(LEAN)}:{line}: {m.group(0).strip()}")
    return hits


def audit_axioms(prop_id: str, module: str, theorems: list[str]) -> dict[str, list[str] | None]:
    """`#print axioms` on every theorem; returns name -> sorted axiom list (None: theorem missing)."""
    adir = LEAN / ".audit"
    adir.mkdir(exist_ok=True)
    f = adir / f"{prop_id}_{os.getpid()}.lean"
    body = [f"import {m}" for m in ([module] if isinstance(module, str) else module)]
    for t in theorems:
        body.append(f'#print axioms {t}')
    f.write_text("\n".join(body) + "\n")
    try:
        with lean_lock():
            rc, out = _run(["lake", "env", "lean", str(f)], cwd=LEAN, timeout=1800)
    finally:
        f.unlink(missing_ok=True)
    res: dict[str, list[str] | None] = {t: None for t in theorems}
    # outputs: "'X' depends on axioms: [a, b]" or "'X' does not depend on any axioms"
    for m in re.finditer(r"'([^']+)' depends on axioms: \[([^\]]*)\]", out, re.S):
        res[m.group(1)] = sorted(a.strip() for a in m.group(2).replace("\n", " ").split(",") if a.strip())
    for m in re.finditer(r"'([^']+)' does not depend on any axioms", out):
        res[m.group(1)] = []
    return res, out


class Driver:
    """the executable Lean models behind a line protocol (compiled `aiudrv`, fallback `lean --run`)."""

    def __init__(self):
        self.exe = LEAN / ".lake" / "build" / "bin" / "aiudrv"
        self.ok = self.exe.exists()

    def ask(self, lines: list[str]) -> list[str]:
        if not lines:
            return []
        for l in lines:
            assert "\n" not in l
        data = "\n".join(lines) + "\n"
        if self.exe.exists():
            cmd = [str(self.exe)]
            p = subprocess.run(cmd, input=data, capture_output=True, text=True, cwd=LEAN, timeout=3600)
        else:
            with lean_lock():
                p = subprocess.run(["lake", "env", "lean", "--run", "Driver.lean"], input=data,
                                   capture_output=True, text=True, cwd=LEAN, timeout=3600)
        outs = p.stdout.splitlines()
        if p.returncode != 0 or len(outs) != len(lines):
            raise Infra(f"model driver failed rc={p.returncode} answers={len(outs)}/{len(lines)}: {p.stderr[-400:]}")
        return outs


# --------------------------------------------------------------------------------------------
# protocol helpers
# --------------------------------------------------------------------------------------------

def frac(x) -> Fraction:
    """exact rational value of an int / float / Fraction (floats are dyadic rationals)"""
    if isinstance(x, Fraction):
        return x
    if isinstance(x, bool):
        return Fraction(int(x))
    if isinstance(x, int):
        return Fraction(x)
    if isinstance(x, float):
        return Fraction(x)
    if isinstance(x, str):
        return Fraction(x)
    raise TypeError(type(x))


def rat(x) -> str:
    q = frac(x)
    return str(q.numerator) if q.denominator == 1 else f"{q.numerator}/{q.denominator}"


def parse_rat(s: str) -> Fraction:
    return Fraction(s)


def enc(s: str) -> str:
    """percent-encode a string so that it contains no protocol separators"""
    out = []
    for ch in s:
        if ch.isalnum() or ch in "_-.:()[]=+<>":
            out.append(ch)
        else:
            out.append("%" + "%02X" % ord(ch) if ord(ch) < 256 else "%u" + "%04X" % ord(ch))
    return "".join(out) or "%00"


# --------------------------------------------------------------------------------------------
# check context
# --------------------------------------------------------------------------------------------

def load_known():
    if KNOWN.exists():
        return json.loads(KNOWN.read_text()).get("findings", [])
    return []


class Ctx:
    def __init__(self, prop_id: str, tier: str, seed: int):
        self.id = prop_id
        self.tier = tier
        self.seed = seed
        self.rng = random.Random(f"{prop_id}-{seed}")
        self.t0 = time.time()
        self.driver: Driver | None = None
        self.search_mode = False
        # results
        self.broken: list[dict] = []          # proof obligations / audit / correspondence that no longer check
        self.violations: list[dict] = []      # oracle violations on the real code
        self.known_hits: dict[str, dict] = {}
        self.evaluations = 0
        self.nontrivial: set = set()
        self.samples: list = []
        self.branches: dict[str, int] = {}
        self.disagreements = 0
        self.compared = 0
        self.obligations: dict[str, list[str] | None] = {}
        self.notes: list[str] = []
        self.extra: dict = {}
        self.known = [k for k in load_known() if k.get("property") == prop_id]

    # -- bookkeeping used by property modules ------------------------------------------------
    def quick(self) -> bool:
        return self.tier == "quick"

    def n(self, quick: int, thorough: int) -> int:
        n = quick if self.tier == "quick" else thorough
        return n * 4 if self.search_mode else n

    def count(self, branch: str, k: int = 1):
        self.branches[branch] = self.branches.get(branch, 0) + k

    def case_done(self, case, key=None, nontrivial: bool = True):
        self.evaluations += 1
        if nontrivial:
            self.nontrivial.add(key if key is not None else json.dumps(case, sort_keys=True, default=str))
        if len(self.samples) < 3 or (len(self.samples) < 6 and nontrivial and self.rng.random() < 0.01):
            self.samples.append(case)

    def disagree(self, what: str, case, model, real):
        self.disagreements += 1
        if sum(1 for b in self.broken if b["kind"] == "correspondence") < 5:
            self.broken.append({"kind": "correspondence", "what": what, "case": case,
                                "model": model, "real": real})

    def compare(self, what: str, case, model, real) -> bool:
        self.compared += 1
        if model != real:
            self.disagree(what, case, model, real)
            return False
        return True

    def violation(self, classifier: str, desc: str, case):
        """an oracle violation observed on the REAL code"""
        for k in self.known:
            if k.get("status") == "open" and k.get("classifier") == classifier:
                self.known_hits.setdefault(classifier, {"finding": k, "count": 0, "case": case})
                self.known_hits[classifier]["count"] += 1
                return
        if len(self.violations) < 20:
            self.violations.append({"classifier": classifier, "desc": desc, "case": case})
        self.n_violations = getattr(self, "n_violations", 0) + 1
        if self.n_violations >= ENOUGH and EARLY_STOP[0] and not getattr(self, "no_early_stop", False):
            # the verdict cannot change any more; a grossly changed implementation can make the remaining cases
            # arbitrarily expensive (state accumulating across runs), so stop exploring here
            raise Enough(f"{self.n_violations} oracle violations on the real code: exploration stopped early")

    def obligation_broken(self, what: str, detail: str):
        self.broken.append({"kind": "obligation", "what": what, "detail": detail[-4000:]})


def jdefault(o):
    if isinstance(o, Fraction):
        return rat(o)
    if isinstance(o, (set, frozenset)):
        return sorted(o, key=str)
    if isinstance(o, Path):
        return str(o)
    if isinstance(o, bytes):
        return o.decode("latin1")
    return str(o)


def write_replay(ctx: Ctx, payload: dict) -> Path:
    d = REPLAYS / ctx.id
    d.mkdir(parents=True, exist_ok=True)
    n = len(list(d.glob(f"{ctx.seed}-*.json")))
    f = d / f"{ctx.seed}-{n}.json"
    payload = dict(payload)
    payload["property"] = ctx.id
    payload["seed"] = ctx.seed
    payload["tier"] = ctx.tier
    payload["replay_cmd"] = f"/venv/bin/python harness/check.py {ctx.id} --replay {f.relative_to(ROOT)}"
    f.write_text(json.dumps(payload, indent=1, default=jdefault))
    return f.relative_to(ROOT)


def write_evidence(ctx: Ctx, mod, violations: int, checker_cmd: str):
    EVIDENCE.mkdir(exist_ok=True)
    obligations = len(ctx.obligations)
    discharged = sum(1 for v in ctx.obligations.values() if v is not None and set(v) <= ALLOWED_AXIOMS)
    axioms_used = sorted({a for v in ctx.obligations.values() if v for a in v})
    cov = {
        "obligations": obligations,
        "discharged": discharged,
        "checker_cmd": checker_cmd,
        "trusted_base": [
            "Lean 4.33.0 kernel",
            "axioms used by the audited theorems: " + (", ".join(axioms_used) if axioms_used else "none"),
            "hand-written Lean model tied to /repo by the correspondence run of this check (differential testing)",
            "harness/translate.py (AST + JSON) for generated Lean data, where used",
            "line protocol encoder/decoder between Python and the Lean driver",
        ] + list(getattr(mod, "TRUSTED", [])),
        "theorems": {k: v for k, v in ctx.obligations.items()},
        "evaluations": ctx.evaluations,
        "distinct_nontrivial": len(ctx.nontrivial),
        "rule": getattr(mod, "RULE", ""),
        "samples": ctx.samples[:6] if ctx.samples else ["(no correspondence case was run)"],
        "traces_validated_against_impl": ctx.compared,
        "disagreements": ctx.disagreements,
        "branches": ctx.branches,
        "exhaustive": bool(ctx.extra.get("exhaustive", False)),
        "known_findings_hit": {k: v["count"] for k, v in ctx.known_hits.items()},
        "broken": [{"kind": b["kind"], "what": b["what"]} for b in ctx.broken],
        "statement_clauses_not_yet_proved": list(getattr(mod, "NOT_YET_PROVED", [])),
    }
    cov.update({k: v for k, v in ctx.extra.items() if k != "exhaustive"})
    ev = {
        "property_id": ctx.id,
        "tier": ctx.tier,
        "seed": ctx.seed,
        "level": "proof",
        "coverage": cov,
        "assumptions": list(getattr(mod, "ASSUMPTIONS", [])) + ctx.notes,
        "wall_s": round(time.time() - ctx.t0, 2),
        "violations": violations,
    }
    (EVIDENCE / f"{ctx.id}.json").write_text(json.dumps(ev, indent=1, default=jdefault))
