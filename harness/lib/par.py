"""Process-parallel map for end-to-end runs of the real analyzer (fork; one task per child so that
module-level state of the analyzer never leaks from one case into the next)."""
from __future__ import annotations

import multiprocessing as mp
import os


def pmap(fn, items, procs=None):
    items = list(items)
    if not items:
        return []
    procs = procs or min(int(os.environ.get("VERIF_PROCS", "16")), max(1, len(items)))
    if procs <= 1 or len(items) == 1:
        return [fn(x) for x in items]
    ctx = mp.get_context("fork")
    with ctx.Pool(processes=procs, maxtasksperchild=1) as pool:
        return pool.map(fn, items, chunksize=1)
