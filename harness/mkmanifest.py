#!/venv/bin/python
"""Regenerate MANIFEST.json from the property modules present under harness/props."""
import importlib
import json
import sys
from pathlib import Path

ROOT = Path(__file__).resolve().parents[1]
sys.path.insert(0, str(ROOT / "harness"))
import os
sys.path.insert(0, os.path.join(os.environ.get("AIU_REPO", "/repo"), "src"))

props = [json.loads(l) for l in (ROOT / "properties.jsonl").read_text().splitlines() if l.strip()]
checks, na = [], []
for p in props:
    pid = p["id"]
    f = ROOT / "harness" / "props" / f"{pid.lower()}.py"
    if not f.exists():
        na.append({"property_id": pid, "reason": "check not built yet (see DESIGN.md 9.3 build order); the property is expressible over an executable model and is not claimed until its theorems and correspondence exist"})
        continue
    mod = importlib.import_module(f"props.{pid.lower()}")
    if getattr(mod, "NOT_APPLICABLE", None):
        na.append({"property_id": pid, "reason": mod.NOT_APPLICABLE})
        continue
    checks.append({
        "property_id": pid,
        "quick_cmd": f"/venv/bin/python harness/check.py {pid} --tier quick",
        "thorough_cmd": f"/venv/bin/python harness/check.py {pid} --tier thorough",
        "evidence_file": f"evidence/{pid}.json",
        "replay_cmd_template": f"/venv/bin/python harness/check.py {pid} --replay {{path}}",
        "engine": "lean-model+proofs",
        "level_claimed": {
            "category": "proof",
            "text": mod.LEVEL_TEXT,
            "design_ref": f"DESIGN.md section 6, {pid}",
        },
        "level_note": mod.LEVEL_NOTE,
        "technique": mod.TECHNIQUE,
    })
man = {
    "version": 1,
    "setup_cmd": "cd lean && lake build",
    "hooks": {
        "guard": "AIU_TRACE_ANALYZER_VERIF",
        "enable": "no source hooks are needed: every check drives public APIs of /repo/src in-process (editable install, /venv/bin/python); the variable is exported by the harness but no code in /repo reads it",
        "baseline_off_cmd": "cd /repo && /venv/bin/python -m pytest -ra -q -p no:cacheprovider --timeout=900 --continue-on-collection-errors",
        "source_commits": [],
        "add_only": True,
    },
    "engines": [
        {"name": "lean-model+proofs", "path": "lean/", "serves_properties": [c["property_id"] for c in checks],
         "kind_free_text": "Lean 4 executable models (AiuVerif/Model), helper lemmas (AiuVerif/Lemmas), property theorems (AiuVerif/Props), kernel-checked; #print axioms audit on every run"},
        {"name": "translator", "path": "harness/translate.py", "serves_properties": [],
         "kind_free_text": "regenerates AiuVerif/Gen/*.lean (registration sites, profiles, tables) from /repo's working tree on every run"},
        {"name": "correspondence", "path": "harness/props/", "serves_properties": [c["property_id"] for c in checks],
         "kind_free_text": "differential runs: real Python code in-process vs the compiled Lean driver (lean/Driver.lean) over a line protocol; property oracles on the real output; failing-input search + shrinking"},
    ],
    "checks": checks,
    "not_applicable": na,
    "notes": "All checks: /venv/bin/python harness/check.py <id> --tier quick|thorough. Verdict logic in harness/lib/core.py and DESIGN.md 2.6. known_findings.json is never written at run time.",
}
(ROOT / "MANIFEST.json").write_text(json.dumps(man, indent=1) + "\n")
print("checks:", [c["property_id"] for c in checks], "not_applicable:", [n["property_id"] for n in na])
