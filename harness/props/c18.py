"""C18 — TensorBoard per-rank files and DataFrame export are lossless views of the trace.

Correspondence (three levels, all against the compiled Lean model `Model/TbExport.lean`):

* stage level, TensorBoard: generated pid lists (exhaustive short lists over
  {-1,0,1,2,1000,1001,non-int,absent} + random multi-rank lists with host pids 1000+r, the pseudo
  process -1, gaps, stray pids, bools) and device-id lists are fed to the real
  `TensorBoardFileTraceExporter` (`export_raw` / `add_device` / `flush`); the worker files and the
  combined file are read back from disk and compared with `Tb.flush` (rank count, which event
  index sits in which worker file in which order, device entries per worker, KeyError branch).
* stage level, DataFrame: generated event objects (`AbstractEventType.from_dict`, some with a
  mutated `ph`/class mismatch, args missing / not a dict / nested) through the real
  `DataframeExporter` (built-in and custom column maps) and `JsonFileTraceExporter`; the DataFrame
  of `get_data()` is compared cell by cell with `Df.dfExport`, the slice count with `Df.jsonExport`.
* end to end: 2..8-rank scenarios (gen/scenario.py) through the real `Acelyzer` API with `--tb`
  (torch_minimal), `--tb -P everything.json`, `--tb --disable_file` (`get_tb_data`), each with and
  without collective-bandwidth counters on pid -1, and `-f pddf --disable_file`
  (`Acelyzer.get_output_data()`) against the `-f json` export of the same inputs; the files are
  fed back into the model (pids of the combined file -> expected worker contents; JSON slices ->
  expected rows).

Oracle (from the statement, never through the model): on a trace whose pids are
{r, 1000+r | r < R} u {-1} with every rank present and R >= 2: exactly R worker files, worker r
holds exactly the events with pid r or 1000+r (each once, export order), nothing of a rank is
outside the worker files, the combined file holds everything; DataFrame: one row per exported
slice (ph X) with the JSON export's rank / ts / dur / name.

All compared values are exact (ints, strings, doubles rendered as rationals); nothing is tolerant.
Deviation from DESIGN.md: the real pipeline cannot produce pid -1 counters on these scenarios
(`mp_calc_bw` looks for args["Bytes"], which normalize_phase1 has renamed to "bytes"; `-R`
(`mp_calc_bw_v2`) raises ValueError in build_flows on them), so the pid -1 pseudo process is
injected as an extra input file holding "BW allreduce" counter events, which the pipeline passes
through to the exporter (tb_refinement then adds the pid -1 metadata events, as for real ones).
"""
from __future__ import annotations

import contextlib
import io
import itertools
import json
import math
import os
import re
import shutil
import tempfile
from fractions import Fraction

from lib.core import Ctx, rat, REPO

ID = "C18"
LEAN_TARGETS = ["AiuVerif.Props.C18"]
THEOREMS = [
    "AiuVerif.C18.workers_partition",
    "AiuVerif.C18.rank_count",
    "AiuVerif.C18.worker_spec",
    "AiuVerif.C18.flush_error_iff",
    "AiuVerif.C18.single_rank",
    "AiuVerif.C18.df_rows",
    "AiuVerif.C18.df_row_count",
    "AiuVerif.C18.df_row_fields",
    "AiuVerif.C18.df_rank_default",
]
RULE = ("TensorBoard: pid/device-id lists (exhaustive up to a length bound over {-1,0,1,2,1000,1001,non-int,absent}, "
        "random lists for 1..12 ranks with host pids, pid -1, gaps, stray pids) through the real exporter class, and "
        "2..8-rank scenarios end to end x {--tb, --tb -P everything, --tb --disable_file} x {with, without pid -1}; "
        "DataFrame: generated event-object lists x column maps through the real classes, and -f pddf --disable_file vs "
        "-f json end to end. A case is non-trivial when it is multi-rank in the statement's domain (>= 2 ranks present, "
        "so worker files are written), hits the KeyError branch, or (DataFrame) contains at least one slice and one "
        "non-slice event; distinct = distinct canonical case")
TRUSTED = ["file naming (<base>_worker_<r>.pt.trace.json, .json -> .pt.trace.json) is checked by the oracle on every run but not modelled",
           "json.dump / json.load round trip and pandas.DataFrame construction from a list of tuples behave as documented",
           "CompleteEvents <=> ph == 'X' for objects built by AbstractEventType.from_dict (hypothesis WellFormed of df_rows; "
           "the correspondence also feeds objects violating it)",
           "pid -1 counters are injected as an input file (the pipeline cannot produce them on these scenarios, see module docstring)"]
ASSUMPTIONS = ["rank count R <= 1000 (above it the pid families r and 1000+r of the statement overlap)",
               "every rank below R exports at least one event (otherwise len(dict) undercounts: witness in Props/C18.lean)"]
NOT_YET_PROVED = []
TECHNIQUE = "Lean 4 proof (induction over the event list, counting argument on the key set) + model/implementation correspondence run"
LEVEL_TEXT = ("Lean theorems over a model of TensorBoardFileTraceExporter / DataframeExporter, generic in the event type: "
              "for every event list with pids in {r,1000+r | r<R} u {-1}, 2 <= R <= 1000, every rank present, flush writes exactly R "
              "worker lists, worker r = the events with pid r or 1000+r in export order, workers pairwise disjoint, their "
              "concatenation a permutation of all non-(-1) events, combined = everything (workers_partition, rank_count); for "
              "arbitrary pids worker r = events with folded key r (worker_spec) and the only error is an absent key "
              "(flush_error_iff); DataFrame rows = rows of the ph-X events of the JSON export, in order, one each (df_rows, "
              "df_row_count) with Rank/Timestamp/Duration/Event Name equal to args.rank/ts/dur/name (df_row_fields). Tied to the "
              "code by running the real exporter classes and the real Acelyzer end to end and diffing against the compiled model.")
LEVEL_NOTE = ("Trusted: Lean kernel; axioms propext, Classical.choice, Quot.sound; the hand-written exporter model is validated "
              "against the real classes by differential runs only; output file naming, JSON serialisation and pandas are outside "
              "the model; the pipeline stages that decide which pid an event gets (tb_refinement: host events -> 1000+pid) are "
              "not part of this property's model, their output is what the e2e runs feed to it.")

EVERYTHING = str(REPO / "src" / "aiu_trace_analyzer" / "profiles" / "everything.json")
WORKER_RE = re.compile(r"^(.*)_worker_(\d+)\.pt\.trace\.json$")


# ---------------------------------------------------------------------------------------------
# pid tokens: JSON-able description of the Python value stored under event["pid"]
#   int | "m" (key absent) | "o:none" | "o:float" | "o:str" | "b0" | "b1"
# ---------------------------------------------------------------------------------------------

def pid_value(tok):
    if isinstance(tok, int):
        return tok
    return {"o:none": None, "o:float": 1.5, "o:str": "1", "b0": False, "b1": True}[tok]


def pid_model(tok):
    if isinstance(tok, int):
        return str(tok)
    if tok == "m":
        return "m"
    if tok.startswith("b"):
        return tok[1]
    return "o"


def tb_line(pids, devs):
    return "c18 tb " + (",".join(pid_model(p) for p in pids) or ",") + " " + (",".join(pid_model(d) for d in devs) or ",")


# ---------------------------------------------------------------------------------------------
# real code, TensorBoard exporter class
# ---------------------------------------------------------------------------------------------

def read_tb_dir(d, base_names=("out",)):
    """-> (workers: {r: json}, combined json or None, stray worker-like files)"""
    workers, combined = {}, None
    for f in sorted(os.listdir(d)):
        m = WORKER_RE.match(f)
        if m and m.group(1) in base_names:
            with open(os.path.join(d, f)) as fh:
                workers[int(m.group(2))] = json.load(fh)
        elif f.endswith(".pt.trace.json") and f[:-len(".pt.trace.json")] in base_names:
            with open(os.path.join(d, f)) as fh:
                combined = json.load(fh)
    return workers, combined


def run_tb_real(pids, devs, uri="out.json"):
    """drive the real class; returns dict(err | rc, workers=[[idx..]..]|None, devs=[[idx..]..]|None, all=[idx..], files_ok)"""
    import aiu_trace_analyzer.export.exporter as output
    tmp = tempfile.mkdtemp(prefix="aiuverif_")
    try:
        target = os.path.join(tmp, uri)
        exp = output.TensorBoardFileTraceExporter(target_uri=target, timescale="ns",
                                                  settings={"output": target, "save_to_file": True})
        for i, p in enumerate(pids):
            ev = {"ph": "X", "name": "e", "ts": float(i), "dur": 1.0, "tid": 0, "args": {"idx": i}}
            if p != "m":
                ev["pid"] = pid_value(p)
            exp.export_raw(ev)
        for i, dv in enumerate(devs):
            if dv == "m":
                exp.device_data.append({"idx": i})
            else:
                exp.add_device(pid_value(dv), {"idx": i})
        try:
            exp.flush()
        except KeyError:
            return {"err": "keyerror"}
        base = uri[:-len(".pt.trace.json")] if uri.endswith(".pt.trace.json") else os.path.splitext(uri)[0]
        workers, combined = read_tb_dir(tmp, (base,))
        idxs = sorted(workers)
        res = {"rc": exp.rank_cnt, "contiguous": idxs == list(range(len(idxs))),
               "workers": [[e["args"]["idx"] for e in workers[r]["traceEvents"]] for r in idxs] if idxs else None,
               "devs": [[dd["idx"] for dd in workers[r]["deviceProperties"]] for r in idxs] if idxs else None,
               "all": [e["args"]["idx"] for e in combined["traceEvents"]] if combined is not None else None,
               "listing": sorted(f for f in os.listdir(tmp))}
        return res
    finally:
        shutil.rmtree(tmp, ignore_errors=True)


def canon_tb(res):
    if "err" in res:
        return "err:" + res["err"]

    def ws(w):
        return "none" if not w else "|".join(",".join(map(str, x)) for x in w)
    return f"rc={res['rc']} w={ws(res['workers'])} d={ws(res['devs'])} all={','.join(map(str, res['all'] or []))}"


# ---------------------------------------------------------------------------------------------
# oracle, TensorBoard clause (from the statement)
# ---------------------------------------------------------------------------------------------

def statement_domain(pid_vals):
    """R if the pid values are {r, 1000+r | r < R} u {-1} with every rank present, else None"""
    ranks = set()
    for p in pid_vals:
        if isinstance(p, bool) or not isinstance(p, int):
            return None
        if p == -1:
            continue
        if p < 0:
            return None
        ranks.add(p - 1000 if p >= 1000 else p)
    R = len(ranks)
    if ranks != set(range(R)) or R > 1000:
        return None
    if any(p >= 1000 + R for p in pid_vals):
        return None
    return R


def tb_oracle(pid_vals, workers, all_idx, n_events, expect_R=None):
    """workers: list of index lists (None: no worker files); returns (classifier, text) or None"""
    if all_idx is not None and all_idx != list(range(n_events)):
        return ("tb-combined", f"combined file holds events {all_idx[:20]}... instead of all {n_events} exported events in order")
    R = statement_domain(pid_vals)
    if expect_R is not None and R != expect_R:
        return ("tb-ranks", f"the export of a {expect_R}-rank scenario has pids {sorted(set(map(str, pid_vals)))} (not ranks 0..{expect_R - 1} / 1000+r / -1)")
    if R is None or R < 2:
        return None
    if workers is None or len(workers) != R:
        return ("tb-partition", f"{R} ranks in the trace but {0 if workers is None else len(workers)} worker files")
    seen = {}
    for r, w in enumerate(workers):
        want = [i for i, p in enumerate(pid_vals) if p in (r, 1000 + r)]
        if w != want:
            return ("tb-partition", f"worker {r} holds events {w[:20]} but the events with pid {r} or {1000 + r} are {want[:20]}")
        for i in w:
            if i in seen:
                return ("tb-partition", f"event {i} is in worker {seen[i]} and worker {r}")
            seen[i] = r
    missing = [i for i, p in enumerate(pid_vals) if p != -1 and i not in seen]
    if missing:
        return ("tb-partition", f"events {missing[:20]} of some rank are in no worker file")
    return None


# ---------------------------------------------------------------------------------------------
# real code, DataFrame exporter class
# ---------------------------------------------------------------------------------------------

def enc(s: str) -> str:
    """percent-encode everything but [A-Za-z0-9_-] (the df protocol uses . = : ; , ~ as separators)"""
    return "".join(ch if (ch.isascii() and ch.isalnum()) or ch in "_-" else "%%%04X" % ord(ch) for ch in s) or "%00"


DEFAULT_PATHS = ["args.rank", "ts", "dur", "cat", "name", "args.class", "args.jobname", "args.bytes", "args.pt_active"]


def atom(v):
    if v is None:
        return "n"
    if isinstance(v, (dict, list, tuple)):
        return "d"
    if isinstance(v, str):
        return "s" + enc(v)
    if isinstance(v, bool):
        return "i" + str(int(v))
    if isinstance(v, int):
        return "i" + str(v)
    if isinstance(v, float):
        return "q" + rat(v)
    raise TypeError(type(v))


def cell(x):
    import numpy as np
    if x is None:
        return "n"
    if isinstance(x, (dict, list, tuple)):
        return "D"
    if isinstance(x, str):
        return "s" + enc(x)
    if isinstance(x, (bool, np.bool_)):
        return "#" + str(int(x))
    if isinstance(x, (int, np.integer)):
        return "#" + rat(int(x))
    if isinstance(x, (float, np.floating)):
        return "n" if math.isnan(x) else "#" + rat(float(x))
    raise TypeError(type(x))


def model_cell(s):
    """normalise the model's cell: `#n/d` stays, strings stay"""
    return s


def flatten(prefix, v, out):
    """leaves of a nested dict as (path, atom); an empty dict / a list is an opaque leaf `d`"""
    if isinstance(v, dict) and v:
        for k, x in v.items():
            flatten(prefix + [enc(str(k))], x, out)
    else:
        out.append((".".join(prefix), atom(v)))


def ev_line(complete, j, paths):
    """encode the part of `event.json()` the column map can reach (top-level keys of the paths + ph;
    below `args` only the sub-keys the paths name, each expanded completely)"""
    toks = ["c" if complete else "o"]
    tops = {"ph"} | {p.split(".")[0] for p in paths}
    subs = {p.split(".")[1] for p in paths if p.startswith("args.")}
    whole_args = "args" in paths
    leaves = []
    for k, v in j.items():
        if k not in tops:
            continue
        if k == "args" and isinstance(v, dict) and not whole_args:
            inner = {a: b for a, b in v.items() if a in subs}
            flatten(["args"], inner, leaves)
        else:
            flatten([enc(str(k))], v, leaves)
    return "~".join(toks + [f"{p}={a}" for p, a in leaves])


def df_line(map_spec, evs_enc):
    m = "default" if map_spec is None else ";".join(f"{'.'.join(enc(x) for x in p.split('.'))}:{atom(d)}" for p, d in map_spec)
    return "c18 df " + m + " " + (";".join(evs_enc) or ";")


def build_objects(evs):
    """evs: list of dict(d=<event dict for from_dict>, ph=<override or None>)"""
    import aiu_trace_analyzer.trace_view as tv
    import copy
    objs = []
    for e in evs:
        o = tv.AbstractEventType.from_dict(copy.deepcopy(e["d"]))
        if e.get("ph") is not None:
            o.ph = e["ph"]
        objs.append(o)
    return objs


def run_df_real(map_spec, evs):
    """-> dict(rows=[[cell..]..], slices=[json dict..], complete=[bool..], jsons=[dict..])"""
    import aiu_trace_analyzer.export.exporter as output
    import aiu_trace_analyzer.trace_view as tv
    objs = build_objects(evs)
    dm = None if map_spec is None else {p: (p, d) for p, d in map_spec}
    settings = {"output": "unused.df", "save_to_file": False}
    exp = output.DataframeExporter(target_uri="unused.df", settings=settings, data_map=dm)
    exp.export(objs)
    exp.flush()
    df = exp.get_data()
    rows = [[cell(x) for x in row] for row in df.itertuples(index=False, name=None)]
    jexp = output.JsonFileTraceExporter(target_uri="unused.json", settings=dict(settings))
    jexp.export(objs)
    exported = json.loads(jexp.get_data())["traceEvents"]
    return {"rows": rows, "exported": exported, "columns": list(df.columns),
            "complete": [isinstance(o, tv.CompleteEvents) for o in objs], "jsons": [o.json() for o in objs]}


def df_oracle(rows, columns, exported):
    """one row per exported slice with the same rank / ts / dur / name (statement, built-in columns)"""
    slices = [e for e in exported if e.get("ph") == "X"]
    if len(rows) != len(slices):
        return ("df-rows", f"{len(rows)} DataFrame rows for {len(slices)} exported slices")
    col = {c: i for i, c in enumerate(columns)}
    for k, (row, s) in enumerate(zip(rows, slices)):
        checks = [("Timestamp", s.get("ts")), ("Duration", s.get("dur")), ("Event Name", s.get("name"))]
        a = s.get("args")
        if isinstance(a, dict) and "rank" in a:
            checks.append(("Rank", a["rank"]))
        for c, want in checks:
            if c in col and want is not None and not isinstance(want, (dict, list)):
                w = cell(want)
                if row[col[c]] != w:
                    return ("df-rows", f"row {k} column {c!r} is {row[col[c]]} but the exported slice has {w}")
    return None


# ---------------------------------------------------------------------------------------------
# end to end
# ---------------------------------------------------------------------------------------------

def scenario_files(case):
    from gen import scenario
    files = scenario.scenario_events(R=case["R"], groups=case["groups"], kernels=case["kernels"],
                                     seed=case["seed"], xseg_step=12 if case["R"] > 5 else 1)
    if case.get("bw"):
        t0 = min(e["ts"] for evs in files.values() for e in evs)
        bw = []
        for k in range(case["bw"]):
            for nm, v in (("BW allreduce", 2.5), ("BW all-pcie", 5.0)):
                bw.append({"ph": "C", "pid": -1, "name": nm, "ts": t0 + 20.0 + 40.0 * k, "cat": "", "args": {"Unit GBps": v}})
                bw.append({"ph": "C", "pid": -1, "name": nm, "ts": t0 + 30.0 + 40.0 * k, "cat": "", "args": {"Unit GBps": 0}})
        bw.sort(key=lambda e: e["ts"])
        files = dict(files)
        files["zz_coll_bw.json"] = bw
    return files


def match_indices(sub, full_keys, what):
    """map the events of a worker file to positions in the combined file (equal JSON, each position once)"""
    used, out = set(), []
    pos = {}
    for i, k in enumerate(full_keys):
        pos.setdefault(k, []).append(i)
    for e in sub:
        k = json.dumps(e, sort_keys=True)
        cand = [i for i in pos.get(k, []) if i not in used]
        if not cand:
            out.append(-1)      # an event that is not in the combined file (or more often than there)
            continue
        used.add(cand[0])
        out.append(cand[0])
    return out


def run_e2e_tb(case):
    from lib import stage
    files = scenario_files(case)
    nofile = "--disable_file" in case["opts"]

    def post(ace):
        if not nofile:
            return None
        exp = ace.exporter
        return {"combined": json.loads(ace.get_output_data()),
                "workers": {r: json.loads(exp.get_tb_data(r)) for r in sorted(exp.traceview_by_rank)} if exp.rank_cnt != 1 else {},
                "rank_cnt": exp.rank_cnt}
    with contextlib.redirect_stdout(io.StringIO()):
        # glob: the rank files are named by ONE wildcard pattern instead of a comma-separated list
        r = stage.e2e([*case["opts"], "--freq", "512:512"], files, keep_dir=True, post=post,
                      input_glob="*_*.json" if case.get("glob") else None)
    try:
        if r["error"] or r["rc"] != 0:
            return {"err": r["error"] or f"rc={r['rc']}"}
        if nofile:
            workers, combined = r["post"]["workers"], r["post"]["combined"]
            # a worker "file" exists for get_tb_data(r), r < rank_cnt
            workers = {k: v for k, v in workers.items() if k < r["post"]["rank_cnt"]}
        else:
            workers, combined = read_tb_dir(r["dir"])
        if combined is None:
            return {"err": "no combined file " + ",".join(r["listing"])}
        evs = combined["traceEvents"]
        keys = [json.dumps(e, sort_keys=True) for e in evs]
        idxs = sorted(workers)
        return {"pids": [e.get("pid", "m") for e in evs], "n": len(evs),
                "contiguous": idxs == list(range(len(idxs))),
                "workers": [match_indices(workers[i]["traceEvents"], keys, i) for i in idxs] if idxs else None,
                "devs": [[d.get("id") for d in workers[i]["deviceProperties"]] for i in idxs] if idxs else None,
                "phs": [e.get("ph") for e in evs]}
    finally:
        shutil.rmtree(r.get("dir", ""), ignore_errors=True)


def pid_token_of_value(p):
    if p == "m":
        return "m"
    if isinstance(p, bool):
        return "b1" if p else "b0"
    if isinstance(p, int):
        return p
    if p is None:
        return "o:none"
    if isinstance(p, float):
        return "o:float"
    return "o:str"


def run_e2e_df(case):
    from lib import stage
    files = scenario_files(case)
    tmp = tempfile.mkdtemp(prefix="aiuverif_")      # both runs in one directory: identical input paths
    try:
        with contextlib.redirect_stdout(io.StringIO()):
            rj = stage.e2e([*case["opts"], "--freq", "512:512"], files, in_dir=tmp)
        if rj["error"] or rj["rc"] != 0 or rj["events"] is None:
            return {"err": "json run: " + str(rj["error"] or rj["rc"])}

        def post(ace):
            df = ace.get_output_data()
            return {"columns": list(df.columns), "rows": [[cell(x) for x in row] for row in df.itertuples(index=False, name=None)]}
        with contextlib.redirect_stdout(io.StringIO()):
            rd = stage.e2e([*case["opts"], "-f", "pddf", "--disable_file", "--freq", "512:512"], files, post=post,
                           out_name="out.df", in_dir=tmp)
        if rd["error"] or rd["rc"] != 0:
            return {"err": "pddf run: " + str(rd["error"] or rd["rc"])}
        return {"exported": rj["events"], "rows": rd["post"]["rows"], "columns": rd["post"]["columns"],
                "listing": rd["listing"]}
    finally:
        shutil.rmtree(tmp, ignore_errors=True)


# ---------------------------------------------------------------------------------------------
# generators
# ---------------------------------------------------------------------------------------------

GRID = [-1, 0, 1, 2, 1000, 1001, "o:none", "m"]


def gen_tb_cases(ctx: Ctx):
    L = 4 if ctx.quick() else 5
    for n in range(0, L + 1):
        for pids in itertools.product(GRID, repeat=n):
            yield {"kind": "tb", "pids": list(pids), "devs": [p for p in pids if isinstance(p, int) and 0 <= p < 1000][:2], "uri": "out.json"}
    ctx.extra["tb_exhaustive_upto_len"] = L
    rng = ctx.rng
    for _ in range(ctx.n(1500, 12000)):
        R = rng.choice([1, 2, 2, 3, 3, 4, 5, 6, 7, 8, 8, 12])
        n = rng.randint(0, 60)
        mode = rng.random()
        pool = []
        for r in range(R):
            pool += [r, r, 1000 + r]
        if rng.random() < 0.5:
            pool += [-1] * max(1, R // 2)
        if mode < 0.25:       # a rank without events (gap)
            gone = rng.randrange(R)
            pool = [p for p in pool if p not in (gone, 1000 + gone)]
        elif mode < 0.45:     # stray pids
            pool += rng.sample([999, 1999, 2000, -2, 1000 + R, R + 3, "o:none", "o:float", "o:str", "b0", "b1", 10000 + R], 3)
        elif mode < 0.5:
            pool += ["m"]
        pids = [rng.choice(pool) for _ in range(n)] if pool else []
        if mode >= 0.5 and n >= 3 * R:      # make sure every rank is present: the statement's domain
            for r in range(R):
                pids[rng.randrange(n)] = rng.choice([r, 1000 + r])
            for r in range(R):
                if r not in pids and 1000 + r not in pids:
                    pids.append(r)
        devs = [rng.choice([r, r, 1000 + r]) for r in range(R) if rng.random() < 0.8]
        if rng.random() < 0.05:
            devs.append(rng.choice(["m", "o:none", -1]))
        rng.shuffle(devs)
        yield {"kind": "tb", "pids": pids, "devs": devs, "uri": rng.choice(["out.json", "out.pt.trace.json", "trace.v2.json"])}


NAMES = ["mm Cmpt Exec", "SenRdmaSend DmaO", "AIU Roundtrip", "x", ""]


def gen_df_event(rng):
    ph = rng.choice(["X", "X", "X", "C", "M", "i", "B", "s", "b"])
    d = {"ph": ph, "ts": rng.choice([0, 1, 5.5, 1000000416.0, 3.0625]), "pid": rng.choice([0, 1, 1001, -1]),
         "name": rng.choice(NAMES), "tid": rng.choice([0, 7, 1000])}
    if ph == "X":
        d["dur"] = rng.choice([0, 1, 2.25, 60.0])
    if rng.random() < 0.7:
        d["cat"] = rng.choice(["kernel", "gpu_memcpy", "cpu_op", ""])
    elif ph == "s":
        d["cat"] = "flow"
    if ph in ("s", "b"):
        d["id"] = rng.randint(1, 9)
    if ph == "i":
        d["s"] = "g"
    args = {}
    if rng.random() < 0.75:
        args["rank"] = rng.choice([0, 1, 7, None, "3", {"x": 1}])
    if rng.random() < 0.4:
        args["jobname"] = rng.choice(["job_1234", ""])
    if rng.random() < 0.3:
        args["bytes"] = rng.choice([524288, "524288", 0.5])
    if rng.random() < 0.3:
        args["class"] = rng.choice(["acc_compute", "other"])
    if rng.random() < 0.2:
        args["pt_active"] = rng.choice([0.25, 1])
    if rng.random() < 0.2:
        args["other"] = {"deep": {"er": 1}}
    r = rng.random()
    if ph in ("C", "M") or r < 0.8:
        d["args"] = args
    elif r < 0.9 and ph in ("X", "B", "b"):
        d["args"] = rng.choice([5, "str", None])     # args that is not a dict
    ev = {"d": d, "ph": None}
    if rng.random() < 0.08:                            # class / ph mismatch: both guards of export()
        ev["ph"] = "X" if ph != "X" else rng.choice(["Y", "C", "x"])
    return ev


def gen_df_cases(ctx: Ctx):
    rng = ctx.rng
    # small exhaustive part: every phase x {args with rank, args without rank, no args} on the built-in map
    for phs in itertools.product(["X", "C", "M"], repeat=2):
        for av in ({"rank": 1}, {}, None):
            evs = []
            for k, ph in enumerate(phs):
                d = {"ph": ph, "ts": float(k), "pid": k, "name": f"n{k}", "tid": 0}
                if ph == "X":
                    d["dur"] = 2.0
                if av is not None or ph in ("C", "M"):
                    d["args"] = dict(av or {})
                evs.append({"d": d, "ph": None})
            yield {"kind": "df", "map": None, "events": evs}
    for _ in range(ctx.n(1500, 12000)):
        n = rng.randint(0, 12)
        evs = [gen_df_event(rng) for _ in range(n)]
        if evs and rng.random() < 0.3:       # the same slice twice (two identical kernels): still two rows
            evs.insert(rng.randrange(len(evs) + 1), json.loads(json.dumps(rng.choice(evs))))
        if rng.random() < 0.6:
            m = None
        else:
            paths = rng.sample(["args.rank", "ts", "dur", "name", "cat", "args.jobname", "args.rank.x", "name.y", "args",
                                "args.other.deep", "pid", "nokey", "args.nokey"], rng.randint(1, 5))
            m = [[p, rng.choice([0, "dflt", None, 0.5])] for p in paths]
        yield {"kind": "df", "map": m, "events": evs}


def gen_e2e_cases(ctx: Ctx):
    rng = ctx.rng
    ranks = [2, 3, 4, 5, 6, 7, 8]
    k = 0
    for R in ranks:
        for opts in (["--tb"], ["--tb", "-P", "everything"], ["--tb", "--disable_file"]):
            for bw in (0, 1 + k % 2):
                if ctx.quick() and opts[-1] == "--disable_file" and R not in (2, 5, 8):
                    continue
                k += 1
                extra = rng.choice([[], [], ["-C", "coll_bw"], ["-C", "power_ts4", "coll_bw"], ["--keep_names"], ["-t"], ["--flow"]])
                yield {"kind": "e2e-tb", "R": R, "groups": rng.randint(1, 2), "kernels": rng.randint(1, 3),
                       "seed": rng.randint(0, 10 ** 6), "opts": opts + extra, "bw": bw}
    for _ in range(ctx.n(40, 400)):
        yield {"kind": "e2e-tb", "R": rng.choice(ranks), "groups": rng.randint(0, 3), "kernels": rng.randint(1, 3),
               "seed": rng.randint(0, 10 ** 6), "bw": rng.choice([0, 0, 1, 3]),
               "opts": rng.choice([["--tb"], ["--tb", "-P", "everything"], ["--tb", "--disable_file"]]) +
               rng.choice([[], ["-C", "coll_bw"], ["-C", "power_ts4"], ["-M"], ["--keep_names"], ["--flow"]]),
               "glob": rng.random() < 0.3}
    for R in ranks if not ctx.quick() else [2, 3, 5, 8]:
        for bw in (0, 1):
            yield {"kind": "e2e-df", "R": R, "groups": rng.randint(1, 2), "kernels": rng.randint(1, 3),
                   "seed": rng.randint(0, 10 ** 6), "bw": bw,
                   "opts": rng.choice([[], ["--flow"], ["--keep_prep"], ["-C", "power_ts4", "coll_bw"], ["--disable_tb"],
                                       ["--time_unit", "ms"], ["--time_unit", "ms", "--keep_prep"]])}


def real_opts(opts):
    return [EVERYTHING if o == "everything" else o for o in opts]


# ---------------------------------------------------------------------------------------------
# evaluation of one case on the real code (+ oracle); returns what the model comparison needs
# ---------------------------------------------------------------------------------------------

def oracle_on_case(ctx: Ctx, case, verbose=False):
    if case.get("kind") == "df-big":
        v = big_df_case(case["n"])
        if v:
            ctx.violation(v[0], v[1], case)
        return {"res": {}}
    kind = case["kind"]
    if kind == "tb":
        res = run_tb_real(case["pids"], case["devs"], case.get("uri", "out.json"))
        if verbose:
            print("real:", res)
        if "err" not in res:
            if not res["contiguous"]:
                ctx.violation("tb-partition", f"worker file indices are not 0..n-1: {res['listing']}", case)
            v = tb_oracle([pid_value(p) for p in case["pids"]], res["workers"], res["all"], len(case["pids"]))
            if v:
                ctx.violation(v[0], v[1], case)
        elif all(isinstance(pid_value(p), int) if p != "m" else False for p in case["pids"]) and "m" not in case["devs"]:
            ctx.violation("tb-crash", "flush raised KeyError although every event has an int pid", case)
        return {"line": tb_line(case["pids"], case["devs"]), "real": canon_tb(res), "res": res}
    if kind == "df":
        res = run_df_real(case["map"], case["events"])
        if verbose:
            print("real:", {k: res[k] for k in ("rows", "columns", "complete")})
        wellformed = all(c == (j.get("ph") == "X") for c, j in zip(res["complete"], res["jsons"]))
        if wellformed:      # row count for every column map; cell values for the built-in columns
            v = df_oracle(res["rows"], res["columns"] if case["map"] is None else [], res["exported"])
            if v:
                ctx.violation(v[0], v[1], case)
        paths = DEFAULT_PATHS if case["map"] is None else [p for p, _ in case["map"]]
        line = df_line(case["map"], [ev_line(c, j, paths) for c, j in zip(res["complete"], res["jsons"])])
        nslices = sum(1 for e in res["exported"] if e.get("ph") == "X")
        real = "rows=" + ";".join(",".join(r) for r in res["rows"]) + f" slices={nslices}"
        return {"line": line, "real": real, "res": res, "wellformed": wellformed}
    if kind == "e2e-tb":
        c2 = dict(case, opts=real_opts(case["opts"]))
        res = run_e2e_tb(c2)
        if verbose:
            print("real:", {k: (v if k != "pids" else sorted(set(map(str, v)))) for k, v in res.items()})
        if "err" in res:
            ctx.violation("tb-crash", f"{case['R']}-rank scenario with {case['opts']}: {res['err']}", case)
            return {"line": None, "real": None, "res": res}
        if not res["contiguous"]:
            ctx.violation("tb-partition", "worker file indices are not 0..n-1", case)
        ws = res["workers"]
        if ws is not None and any(-1 in w for w in ws):
            ctx.violation("tb-partition", "a worker file holds an event that is not in the combined file (or holds it more often)", case)
        else:
            v = tb_oracle(res["pids"], ws, None, res["n"], expect_R=case["R"])
            if v:
                ctx.violation(v[0], v[1], case)
            elif case.get("bw") and -1 not in res["pids"]:
                ctx.notes.append("pid -1 counters were injected but did not reach the export")
        toks = [pid_token_of_value(p) for p in res["pids"]]
        # device ids per worker file: worker r must describe device r (observable: deviceProperties[].id)
        if ws is not None:
            for r, dv in enumerate(res["devs"]):
                if any(d not in (r, 1000 + r) for d in dv):
                    ctx.violation("tb-partition", f"worker {r} carries deviceProperties of {dv}", case)

        def wsx(w):
            return "none" if not w else "|".join(",".join(map(str, x)) for x in w)
        return {"line": tb_line(toks, []), "real": f"w={wsx(ws)}", "res": res, "project": "w"}
    if kind == "e2e-df":
        c2 = dict(case, opts=real_opts(case["opts"]))
        res = run_e2e_df(c2)
        if "err" in res:
            ctx.violation("df-crash", f"{case['R']}-rank scenario with {case['opts']}: {res['err']}", case)
            return {"line": None, "real": None, "res": res}
        if verbose:
            print("real:", len(res["rows"]), "rows;", sum(1 for e in res["exported"] if e.get("ph") == "X"), "slices; listing", res["listing"])
        v = df_oracle(res["rows"], res["columns"], res["exported"])
        if v:
            ctx.violation(v[0], v[1], case)
        line = df_line(None, [ev_line(e.get("ph") == "X", e, DEFAULT_PATHS) for e in res["exported"]])
        nslices = sum(1 for e in res["exported"] if e.get("ph") == "X")
        real = "rows=" + ";".join(",".join(r) for r in res["rows"]) + f" slices={nslices}"
        return {"line": line, "real": real, "res": res}
    raise ValueError(kind)


def case_key(case):
    return json.dumps(case, sort_keys=True, default=str)


def big_df_case(n):
    """n slices of three ranks handed to the real DataframeExporter in ONE export() call (the final drain delivers a
    trace like that): one row per slice, however many there are.  Returns (classifier, text) or None."""
    import aiu_trace_analyzer.export.exporter as output
    import aiu_trace_analyzer.trace_view as tv
    objs = [tv.AbstractEventType.from_dict({"ph": "X", "name": f"k{i % 7}", "pid": i % 3, "tid": 1, "ts": float(i), "dur": 1.0 + i % 3,
                                            "args": {"rank": i % 3}}) for i in range(n)]
    exp = output.DataframeExporter(target_uri="unused.df", settings={"output": "unused.df", "save_to_file": False})
    exp.export(objs)
    exp.flush()
    df = exp.get_data()
    if len(df) != n:
        return ("df-rows", f"{len(df)} DataFrame rows for {n} exported slices (one export() call)")
    ts = list(df["Timestamp"]) if "Timestamp" in df.columns else None
    if ts is not None and [float(x) for x in ts[:3] + ts[-3:]] != [0.0, 1.0, 2.0, float(n - 3), float(n - 2), float(n - 1)]:
        return ("df-rows", "rows of a large export are not those of the slices, in order")
    return None


def run(ctx: Ctx):
    pending = []
    for n in ([70001] if ctx.quick() else [70001, 140001]):
        v = big_df_case(n)
        case = {"kind": "df-big", "n": n}
        if v:
            ctx.violation(v[0], v[1], case)
        ctx.count("df_large_exports")
        ctx.case_done(case, key=("df-big", n), nontrivial=True)
    for gen in (gen_tb_cases, gen_df_cases, gen_e2e_cases):
        for case in gen(ctx):
            out = oracle_on_case(ctx, case)
            kind = case["kind"]
            res = out["res"]
            if kind == "tb":
                R = statement_domain([pid_value(p) for p in case["pids"] if p != "m"]) if "m" not in case["pids"] else None
                nt = ("err" in res) or (R is not None and R >= 2)
                ctx.count("tb_keyerror", int("err" in res))
                ctx.count("tb_in_domain_multirank", int(R is not None and R >= 2))
                ctx.count("tb_in_domain_with_pid_-1", int(R is not None and R >= 2 and -1 in case["pids"]))
                ctx.count("tb_single_rank_early_return", int("err" not in res and res["rc"] == 1))
                ctx.count("tb_outside_domain", int(R is None and "err" not in res))
            elif kind == "df":
                ns = sum(1 for e in res["exported"] if e.get("ph") == "X")
                nt = 0 < ns < len(res["exported"]) or (ns > 0 and case["map"] is not None)
                ctx.count("df_rows", len(res["rows"]))
                ctx.count("df_custom_map", int(case["map"] is not None))
                ctx.count("df_class_ph_mismatch", int(not out["wellformed"]))
            elif kind == "e2e-tb":
                nt = "err" not in res and res["workers"] is not None
                ctx.count("e2e_tb_runs", 1)
                ctx.count("e2e_tb_with_pid_-1", int("err" not in res and -1 in res["pids"]))
                ctx.count("e2e_tb_host_pids_1000+", int("err" not in res and any(isinstance(p, int) and p >= 1000 for p in res["pids"])))
                ctx.count("e2e_tb_events", 0 if "err" in res else res["n"])
            else:
                nt = "err" not in res and len(res["rows"]) > 0
                ctx.count("e2e_df_runs", 1)
                ctx.count("e2e_df_rows", 0 if "err" in res else len(res["rows"]))
            ctx.case_done(case, key=case_key(case), nontrivial=bool(nt))
            if out["line"] is not None:
                pending.append((case, out))
    if ctx.search_mode or not ctx.driver or not ctx.driver.ok:
        return
    answers = ctx.driver.ask([o["line"] for _, o in pending])
    for (case, o), ans in zip(pending, answers):
        model = ans
        if o.get("project") == "w":
            m = re.search(r" w=(\S+) ", ans + " ")
            model = "w=" + m.group(1) if m else ans
        what = {"tb": "Tb.flush vs TensorBoardFileTraceExporter (rank_cnt, worker files, devices, combined)",
                "df": "Df.dfExport vs DataframeExporter.get_data() (cells) and JSON slice count",
                "e2e-tb": "Tb.flush on the pids of the combined file vs the worker files of an end-to-end --tb run",
                "e2e-df": "Df.dfExport on the -f json export vs the DataFrame of -f pddf --disable_file"}[case["kind"]]
        ctx.compare(what, case, model, o["real"])


def shrink(ctx: Ctx, case, classifier):
    def bad(c):
        sub = Ctx(ctx.id, ctx.tier, ctx.seed)
        sub.known = []
        try:
            oracle_on_case(sub, c)
        except Exception:
            return False
        return any(v["classifier"] == classifier for v in sub.violations)
    case = json.loads(json.dumps(case))
    if case["kind"] in ("tb", "df"):
        key = "pids" if case["kind"] == "tb" else "events"
        changed = True
        while changed:
            changed = False
            for j in range(len(case[key])):
                c2 = dict(case, **{key: case[key][:j] + case[key][j + 1:]})
                if bad(c2):
                    case, changed = c2, True
                    break
            if case["kind"] == "tb" and case["devs"]:
                c2 = dict(case, devs=case["devs"][:-1])
                if bad(c2):
                    case, changed = c2, True
        return case
    for k, lo in (("groups", 0), ("kernels", 1), ("bw", 0), ("R", 2)):
        while case[k] > lo:
            c2 = dict(case, **{k: case[k] - 1})
            if bad(c2):
                case = c2
            else:
                break
    while len(case["opts"]) > 1:
        for j in range(1, len(case["opts"])):
            c2 = dict(case, opts=case["opts"][:j] + case["opts"][j + 1:])
            if bad(c2):
                case = c2
                break
        else:
            break
    return case
