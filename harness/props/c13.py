"""C13 — the ConcurrentPreps counter equals the number of in-flight Prep slices.

Stage level.  The `queueing_counter` registration the CLI really makes (callback, pristine
`QueueingCounterContext`, `keep_prep` kwarg; taken from `Acelyzer.register_processing_functions`
for `[]` and `[--keep_prep]`) is run inside a real EventProcessor / Engine.run on generated event
streams; events carry `args.jobhash` registered through `GlobalIngestData.add_job_info` exactly
like ingestion does.  The compiled Lean model (`Preps.runStage`) is run on the same stream and
the two canonical outputs (pass-through uids in order and, per pid, its `(ts, Concurrency)` samples
in order; or the error class) are compared for equality.  All times are on the exact grid (multiples of 1/16), so
the comparison is exact; there is no tolerant field.

End to end.  Synthetic FLEX traces (gen/scenario.py Rank, random Prep families per rank) are run
through the real Acelyzer API with and without `--keep_prep`; the oracle is evaluated on the final
JSON (`ConcurrentPreps` counters against the exported `Cmpt Prep` slices of the `--keep_prep`
run).

Oracle (from the statement, never from the model), per rank (pid), only when the Prep slices of
the rank arrive sorted by start with dur > 0 (the stage's documented assumption; at e2e level the
pipeline itself has to provide it): every sample value == #{Prep slices with ts <= t < ts+dur};
a sample exists at every instant where that number changes; sample times strictly increasing; last
sample 0; Prep slices removed unless keep_prep, in which case slices and counters are both there;
every other event leaves the stage exactly once and unchanged.

Streams whose meaning the statement leaves open are compared against the model but not judged by
the oracle: unsorted / non-positive-duration Prep input, `ph == ""` (the code's `ph in "X"`
substring test), names with a trailing newline (`$` of `re.search`), events that raise.
"""
from __future__ import annotations

import contextlib
import copy
import io
import itertools
from fractions import Fraction

from lib.core import Ctx, enc, rat
from lib import stage

ID = "C13"
NEEDS_GEN = True
LEAN_TARGETS = ["AiuVerif.Props.C13", "AiuVerif.Props.Order", "AiuVerif.Props.C13Link"]
THEOREMS = [
    "AiuVerif.C13.sweep_correct",
    "AiuVerif.C13.sweep_samples_every_change",
    "AiuVerif.C13.stage_counters_eq_sweep",
    "AiuVerif.C13.stage_pass_keep",
    "AiuVerif.C13.stage_pass_drop",
    "AiuVerif.C13.concurrent_preps_correct",
    "AiuVerif.C13.prepIvs_sorted_of_sorted_stream",
    "AiuVerif.C13.concurrent_preps_correct_of_sorted_stream",
    "AiuVerif.C13.inFlightBefore_is_left_limit",
    "AiuVerif.Order.preps_order",   # registration order / guards / shared context, re-decided on the generated sites,
    "AiuVerif.C13.concurrent_preps_behind_mp_sync",   # sortedness hypothesis discharged by C07.sorted_out
]
RULE = ("event streams for the queueing_counter stage: exhaustive start-sorted families of up to 4 (quick) / 5 "
        "(thorough) Prep intervals with endpoints in {0..5} x keep_prep on/off; random structured streams with "
        "1-3 ranks, endpoints drawn from a small pool on the 1/16 grid (ties, touching, nesting, chains frequent), "
        "mixed with non-Prep slices, other phases and events without dialect; unsorted and malformed streams "
        "(model comparison only); a case is non-trivial when some rank has two Prep slices that overlap, touch "
        "or share an endpoint; distinct = distinct protocol line")
TRUSTED = ["regular expression `Cmpt Prep$` is modelled as: name ends with 'Cmpt Prep' or 'Cmpt Prep\\n'",
           "CPython dict insertion order / popitem() LIFO as documented",
           "non-string event names and a dict-valued name (assert in is_category) are outside the model",
           "doubles: stage-level streams use the exact grid; no rounding is modelled"]
ASSUMPTIONS = ["Prep slices of one rank reach the stage sorted by start (provided by mp_sync_tight / the ingestion "
               "merge in the real pipeline; a hypothesis of the theorems; observed, not proved, in the e2e runs)",
               "Prep slices have dur > 0"]
NOT_YET_PROVED = ["with -M (no clock alignment) the Prep sweep receives the stream in ingestion order after the time conversions; "
                  "its sortedness is then not established (outside the property's quantifier; e2e runs do not use -M)"]
NOT_YET_PROVED_OLD = ["that MpSyncTightContext.drain hands the stage a ts-sorted stream (Python list.sort in the stage before) is not "
                  "modelled: observed by the e2e oracle only; the step from a ts-sorted stream to the per-rank hypothesis of "
                  "sweep_correct is proved (prepIvs_sorted_of_sorted_stream)"]

DIALS = ["na", "nj", "uj", "nd", "fx", "to"]
_jobs = {}


def _jobhashes():
    """register three synthetic jobs through the real GlobalIngestData, like AbstractTraceIngest does"""
    if _jobs:
        return _jobs
    from aiu_trace_analyzer.types import GlobalIngestData, InputDialectFLEX, InputDialectTORCH
    g = GlobalIngestData()
    want = {"fx": InputDialectFLEX(), "to": InputDialectTORCH(), "nd": None}
    for k, d in want.items():
        for i in range(1000):
            h = g.add_job_info(f"/aiuverif/c13/{k}_{i}.json", d)
            if GlobalIngestData.get_dialect(h) is d and GlobalIngestData.get_job(h) == f"{k}_{i}.json":
                _jobs[k] = h
                break
    _jobs["uj"] = 10000 + 4242          # crc32 % 10000 can never produce it
    assert len({_jobs[k] for k in _jobs}) == 4
    return _jobs


_stage_cache = {}


def _stage(keep: bool):
    """(callback, pristine context, kwargs) the CLI registers for queueing_counter"""
    if keep not in _stage_cache:
        rec = stage.cli_stages(["--keep_prep"] if keep else [])
        hit = [r for r in rec if r["name"] == "queueing_counter" and r["registered"]]
        assert len(hit) == 1, "queueing_counter is not registered exactly once by the default CLI"
        _stage_cache[keep] = hit[0]
    h = _stage_cache[keep]
    return h["callback"], copy.deepcopy(h["context"]), dict(h["kwargs"])


def to_real(ev):
    jobs = _jobhashes()
    d = {"ph": ev["ph"], "pid": ev["pid"], "tid": 7, "ts": float(ev["ts"]), "uid": ev["uid"]}
    d["name"] = ev["name"]
    if ev["dur"] is not None:
        d["dur"] = float(ev["dur"])
    if ev["dial"] == "na":
        pass
    elif ev["dial"] == "nj":
        d["args"] = {"foo": 1}
    else:
        d["args"] = {"jobhash": jobs[ev["dial"]], "foo": 1}
    return d


def is_counter(e):
    return e.get("ph") == "C" and e.get("name") == "ConcurrentPreps" and "uid" not in e


def run_real(case):
    cb, cctx, kw = _stage(case["keep"])
    inp = [to_real(ev) for ev in case["events"]]
    with contextlib.redirect_stdout(io.StringIO()):      # the repo prints on unknown / missing jobhash
        out, err = stage.run_stages([(cb, cctx, kw)], inp)
    return {"inp": inp, "out": out, "err": err}


def canon_real(r):
    if r["err"]:
        return {"KeyError": "err:keyerror", "AssertionError": "err:assert", "TypeError": "err:typeerror"}.get(r["err"], "err:other")
    toks = []
    for e in r["out"]:
        if is_counter(e):
            toks.append(f"c{e['pid']}:{rat(e['ts'])}:{e['args']['Concurrency']}")
        else:
            toks.append(f"p{e['uid']}")
    return project("ok " + ";".join(toks))


def project(answer):
    """the property-relevant projection of an output stream: pass-through uids in order, and per pid its
    samples in order (how the samples of different pids and the passed events interleave is not compared,
    so e.g. another drain order between pids is not a disagreement)"""
    if not answer.startswith("ok"):
        return answer
    passes, per = [], {}
    for tok in answer[3:].split(";"):
        if not tok:
            continue
        if tok[0] == "p":
            passes.append(tok[1:])
        else:
            pid, t, c = tok[1:].split(":")
            per.setdefault(int(pid), []).append(f"{t}:{c}")
    return "ok P=" + ",".join(passes) + " " + " ".join(f"C{pid}=" + ",".join(v) for pid, v in sorted(per.items()))


def line(case):
    evs = []
    for ev in case["events"]:
        evs.append(",".join([str(ev["uid"]), enc(ev["ph"]), enc(ev["name"]),
                             str(ev["pid"]), rat(ev["ts"]), "~" if ev["dur"] is None else rat(ev["dur"]), ev["dial"]]))
    return f"c13 {1 if case['keep'] else 0} " + (";".join(evs) or ";")


# ---------------------------------------------------------------------------------------------
# oracle (from the statement)
# ---------------------------------------------------------------------------------------------

def stmt_is_prep(ev):
    """a 'Cmpt Prep' slice of a FLEX/TORCH job, read off the case description"""
    return ev["ph"] == "X" and ev["dial"] in ("fx", "to") and ev["name"].endswith("Cmpt Prep")


def oracle_applicable(case):
    """None if the statement speaks about this stream, else why not"""
    last = {}
    for ev in case["events"]:
        if ev["ph"] == "" or ev["name"].endswith("\n"):
            return "off-grammar event"
        if ev["dial"] == "uj":
            return "unknown job"
        if stmt_is_prep(ev):
            if ev["dur"] is None or not ev["dur"] > 0:
                return "Prep slice without positive dur"
            if ev["pid"] in last and ev["ts"] < last[ev["pid"]]:
                return "Prep slices not sorted by start"
            last[ev["pid"]] = ev["ts"]
    return None


def series_oracle(ivs, samples):
    """ivs: [(s,e)] exact; samples [(t,c)] in output order -> None | (classifier, text)"""
    def inflight(t):
        return sum(1 for s, e in ivs if s <= t < e)

    def before(t):
        return sum(1 for s, e in ivs if s < t <= e)
    for t, c in samples:
        if c != inflight(t):
            return ("preps-value", f"sample at t={t} has Concurrency {c}, but {inflight(t)} Prep slice(s) are in flight; intervals {ivs}")
    times = [t for t, _ in samples]
    for a, b in zip(times, times[1:]):
        if not a < b:
            return ("preps-order", f"sample times not strictly increasing: {a} then {b}; intervals {ivs}")
    st = set(times)
    for t in sorted({x for iv in ivs for x in iv}):
        if inflight(t) != before(t) and t not in st:
            return ("preps-missing-sample", f"in-flight count changes {before(t)}->{inflight(t)} at t={t} but no sample there; intervals {ivs}")
    if ivs and (not samples or samples[-1][1] != 0):
        return ("preps-final", f"series does not end at 0: {samples[-1:]}; intervals {ivs}")
    return None


def oracle(case, r):
    if r["err"]:
        return ("preps-crash", f"stage raised {r['err']} on a well-formed stream")
    inp_by_uid = {e["uid"]: e for e in r["inp"]}
    passed = [e for e in r["out"] if not is_counter(e)]
    cnt = [e for e in r["out"] if is_counter(e)]
    want = [ev["uid"] for ev in case["events"] if case["keep"] or not stmt_is_prep(ev)]
    got = [e.get("uid") for e in passed]
    if sorted(got) != sorted(want):
        if not case["keep"] and any(stmt_is_prep(ev) and ev["uid"] in got for ev in case["events"]):
            return ("preps-not-removed", f"Prep slice(s) left in the output without keep_prep: uids {sorted(set(got) - set(want))}")
        return ("preps-passthrough", f"events leaving the stage {got} != expected {want}")
    for e in passed:
        if e != inp_by_uid[e["uid"]]:
            return ("preps-passthrough", f"event uid={e['uid']} was modified by the stage")
    for e in cnt:
        if e.get("cat") != "Pending Prep Events" or not isinstance(e["args"].get("Concurrency"), int):
            return ("preps-shape", f"malformed counter {e}")
    pids = sorted({ev["pid"] for ev in case["events"]} | {e["pid"] for e in cnt})
    for p in pids:
        ivs = [(Fraction(ev["ts"]), Fraction(ev["ts"]) + Fraction(ev["dur"])) for ev in case["events"]
               if stmt_is_prep(ev) and ev["pid"] == p]
        samples = [(Fraction(e["ts"]), e["args"]["Concurrency"]) for e in cnt if e["pid"] == p]
        v = series_oracle(ivs, samples)
        if v:
            return (v[0], f"pid {p}: " + v[1])
    return None


def oracle_on_case(ctx: Ctx, case, verbose=False):
    if case.get("kind") == "e2e":
        return e2e_case(ctx, case, verbose)
    case = norm_case(case)
    r = run_real(case)
    why = oracle_applicable(case)
    if verbose:
        print("real:", canon_real(r), "| oracle n/a: " + why if why else "")
    if why is None:
        v = oracle(case, r)
        if v:
            ctx.violation(v[0], v[1], case)
    return r


def norm_case(case):
    """cases come back from JSON replay files with ts/dur as strings"""
    c = {"keep": bool(case["keep"]), "events": []}
    for ev in case["events"]:
        ev = dict(ev)
        ev["ts"] = Fraction(ev["ts"])
        ev["dur"] = None if ev["dur"] is None else Fraction(ev["dur"])
        c["events"].append(ev)
    return c


# ---------------------------------------------------------------------------------------------
# generators
# ---------------------------------------------------------------------------------------------

def mk_ev(uid, pid, s, e, name="k Cmpt Prep", dial="fx", ph="X"):
    return {"uid": uid, "ph": ph, "name": name, "pid": pid, "ts": Fraction(s), "dur": None if e is None else Fraction(e) - Fraction(s), "dial": dial}


def grid_families(maxn, top=5):
    ivs = [(s, e) for s in range(top + 1) for e in range(s + 1, top + 1)]
    for n in range(0, maxn + 1):
        for fam in itertools.product(ivs, repeat=n):
            if all(fam[i][0] <= fam[i + 1][0] for i in range(n - 1)):
                yield list(fam)


PREP_NAMES = ["k Cmpt Prep", "Cmpt Prep", "mm_3 Cmpt Prep", "AllReduce_all_reduce_1_Add_1 Cmpt Prep"]
OTHER_NAMES = ["k Cmpt Exec", "Cmpt Prep x", "k Cmpt Prep ", "k cmpt prep", "SenRdmaSend_3 DmaO", "Cmpt Pre", "", "Prep", "Flex RoundTrip"]


def random_family(rng, n, pool):
    fam = []
    for _ in range(n):
        a, b = rng.sample(pool, 2)
        fam.append((min(a, b), max(a, b)))
    fam.sort(key=lambda iv: iv[0])
    # equal starts may come in any order of their ends
    i = 0
    while i < len(fam):
        j = i
        while j < len(fam) and fam[j][0] == fam[i][0]:
            j += 1
        seg = fam[i:j]
        rng.shuffle(seg)
        fam[i:j] = seg
        i = j
    return fam


def random_case(rng, flavour):
    keep = rng.random() < 0.5
    npid = rng.choice([1, 1, 2, 3])
    pids = rng.sample([0, 1, 2, 5, 17, -1], npid)
    base = Fraction(rng.choice([0, 0, 1000, 2 ** 30]))
    pool = sorted({base + Fraction(rng.randint(0, 16 * rng.choice([2, 6, 40])), 16) for _ in range(rng.randint(2, 9))})
    if len(pool) < 2:
        pool = [base, base + 1]
    streams = []
    for p in pids:
        fam = random_family(rng, rng.randint(0, 9), pool)
        streams.append([(p, s, e) for s, e in fam])
    # merge the per-rank streams: globally by start (like the real pipeline) or round-robin preserving per-rank order
    merged = []
    if rng.random() < 0.6:
        merged = sorted([x for st in streams for x in st], key=lambda x: x[1])
    else:
        idx = [0] * len(streams)
        while any(idx[i] < len(streams[i]) for i in range(len(streams))):
            i = rng.choice([i for i in range(len(streams)) if idx[i] < len(streams[i])])
            merged.append(streams[i][idx[i]])
            idx[i] += 1
    evs, uid = [], 0
    for p, s, e in merged:
        uid += 1
        evs.append(mk_ev(uid, p, s, e, name=rng.choice(PREP_NAMES), dial=rng.choice(["fx", "fx", "to"])))
        while rng.random() < 0.3:
            uid += 1
            k = rng.random()
            s2 = rng.choice(pool)
            if k < 0.4:
                evs.append(mk_ev(uid, p, s2, s2 + rng.randint(0, 3), name=rng.choice(OTHER_NAMES)))
            elif k < 0.6:
                evs.append(mk_ev(uid, p, s2, s2 + 1, name=rng.choice(PREP_NAMES), dial=rng.choice(["na", "nj", "nd"])))
            elif k < 0.8:
                evs.append(mk_ev(uid, p, s2, None if rng.random() < 0.5 else s2 + 1, name=rng.choice(PREP_NAMES + OTHER_NAMES),
                                 ph=rng.choice(["B", "E", "C", "M", "i", "b", "XX", "x"])))
            else:
                evs.append(mk_ev(uid, p, s2, s2 + 1, name=rng.choice(PREP_NAMES), ph="X", dial=rng.choice(["na", "nj", "nd"])))
    if flavour == "unsorted":
        rng.shuffle(evs)
        for ev in evs:
            if rng.random() < 0.15 and ev["dur"] is not None:
                ev["dur"] = Fraction(rng.choice([0, -1, -3]), rng.choice([1, 2, 16]))
    elif flavour == "malformed":
        for ev in evs:
            k = rng.random()
            if k < 0.08:
                ev["dial"] = "uj"
            elif k < 0.16:
                ev["dur"] = None
            elif k < 0.3:
                ev["ph"] = ""
            elif k < 0.45:
                ev["name"] = ev["name"] + rng.choice(["\n", "\n\n", " \n", "\r"])
    return {"keep": keep, "events": evs}


def relations(case):
    """which interval relations occur inside one rank (for the branch histogram)"""
    rel = set()
    by = {}
    for ev in case["events"]:
        if stmt_is_prep(ev) and ev["dur"] is not None:
            by.setdefault(ev["pid"], []).append((ev["ts"], ev["ts"] + ev["dur"]))
    for ivs in by.values():
        for (a, b), (c, d) in itertools.combinations(ivs, 2):
            if a == c and b == d:
                rel.add("identical")
            elif a == c:
                rel.add("equal_start")
            elif b == d:
                rel.add("equal_end")
            elif b == c or d == a:
                rel.add("touching")
            elif (a < c and d < b) or (c < a and b < d):
                rel.add("nested")
            elif (a < c < b < d) or (c < a < d < b):
                rel.add("chained")
            else:
                rel.add("disjoint")
    return rel


def gen_cases(ctx: Ctx):
    maxn = 4 if ctx.quick() else 5
    for fam in grid_families(maxn):
        for keep in (False, True):
            yield "grid", {"keep": keep, "events": [mk_ev(i + 1, 0, s, e) for i, (s, e) in enumerate(fam)]}
    ctx.extra["exhaustive_grid"] = f"all start-sorted families of <= {maxn} intervals on {{0..5}} x keep_prep"
    # two ranks: pairs of grid families interleaved
    fams = list(grid_families(3))
    for _ in range(ctx.n(1000, 10000)):
        f0, f1 = ctx.rng.choice(fams), ctx.rng.choice(fams)
        merged = sorted([(0, s, e) for s, e in f0] + [(1, s, e) for s, e in f1], key=lambda x: (x[1], ctx.rng.random()))
        yield "grid2", {"keep": ctx.rng.random() < 0.5, "events": [mk_ev(i + 1, p, s, e) for i, (p, s, e) in enumerate(merged)]}
    for _ in range(ctx.n(4000, 40000)):
        yield "random", random_case(ctx.rng, "sorted")
    for _ in range(ctx.n(1000, 10000)):
        yield "unsorted", random_case(ctx.rng, "unsorted")
    for _ in range(ctx.n(1000, 10000)):
        yield "malformed", random_case(ctx.rng, "malformed")


# ---------------------------------------------------------------------------------------------
# end to end
# ---------------------------------------------------------------------------------------------

def e2e_files(spec):
    """spec: {"ranks": [[(s,e),...], ...], "freq": 512} -> {file: events} (FLEX B/E pairs with TS counters):
    per interval one `Cmpt Prep` and one `Cmpt Exec` device event, plus one host slice per rank."""
    from gen.scenario import Rank, TID_PREP, TID_EXEC
    files = {}
    for r, fam in enumerate(spec["ranks"]):
        # t0: the host clock's origin; real traces carry epoch microseconds (about 2.1e12), where a float's spacing is 2^-12 us
        t0 = float(spec.get("t0", 1_000_000_000.0))
        rk = Rank(r, float(spec.get("freq", 512)), t0, 512 * (1000 + 77 * r))
        hosted = []
        for k, (s, e) in enumerate(fam):
            s, e = float(Fraction(s)), float(Fraction(e))
            mode = spec.get("host_prep")
            if mode == "all" or (mode == "mixed" and k % 2 == 0):
                # a Prep slice WITHOUT device time stamps (host-only trace): an X event with plain args
                hosted.append({"ph": "X", "name": f"h{k}_{r} Cmpt Prep", "pid": r, "tid": 9000 + k,
                               "ts": t0 + s, "dur": e - s, "args": {"uid": f"r{r}h{k}"}})
                continue
            # TS1..TS5: [issue, prep start, prep end = exec start, exec end, done]
            ts5 = [s, s, e, e + 3, e + 4]
            rk.dev_event(f"k{k}_{r} Cmpt Prep", TID_PREP + k, ts5)
            rk.dev_event(f"k{k}_{r} Cmpt Exec", TID_EXEC + k, ts5)
        rk.host_event("AIU Roundtrip", 77, 0.0, 400.0)
        # host-only slices are listed thread by thread (two threads taking turns), each thread in start order: the
        # file as a whole is not in start order
        hosted.sort(key=lambda e: e["ts"])
        files[f"trace_rank_{r}.json"] = rk.event_list() + hosted[0::2] + hosted[1::2]
    return files


def e2e_eval(spec, verbose=False):
    """run with and without --keep_prep; returns (violation|None, info)"""
    files = e2e_files(spec)
    # the statement holds whatever else is switched on: vary switches that change which OTHER stages are
    # registered around the prep sweep (derived from the scenario so that a case replays identically)
    nsel = sum(len(f) for f in spec["ranks"]) + len(spec["ranks"])
    extra = [[], [], ["--drop_globals"], ["-t"], ["--disable_tb"], ["--drop_globals", "-t"]][nsel % 6]
    base = ["--freq", str(spec.get("freq", 512))] + extra
    with contextlib.redirect_stdout(io.StringIO()):
        rk = stage.e2e(base + ["--keep_prep"], files)
        rd = stage.e2e(base, files)
    for tag, r in (("--keep_prep", rk), ("default", rd)):
        if r["rc"] != 0 or r["events"] is None:
            return ("preps-crash", f"acelyzer {tag} failed: rc={r['rc']} {r['error']}"), {}
    info = {}
    if nsel % 3 == 0:
        # without clock alignment (-M) the sweep is still registered: Prep slices are removed and every rank with Prep
        # slices gets its counter (the VALUES are not judged here: without the alignment stage nothing sorts the stream
        # in front of the sweep, the statement's series clauses are decided on the runs above)
        with contextlib.redirect_stdout(io.StringIO()):
            rm = stage.e2e(base + ["-M"], files)
        if rm["rc"] != 0 or rm["events"] is None:
            return ("preps-crash", f"acelyzer -M failed: rc={rm['rc']} {rm['error']}"), {}
        left = [e for e in rm["events"] if e.get("ph") == "X" and str(e.get("name", "")).endswith("Cmpt Prep")]
        if left:
            return ("preps-not-removed", f"-M: {len(left)} Prep slice(s) exported without --keep_prep"), info
        have = {e["pid"] for e in rm["events"] if e.get("ph") == "C" and e.get("name") == "ConcurrentPreps"}
        want = {r for r, f in enumerate(spec["ranks"]) if len(f) > 0}
        info["samples_-M"] = len(have)
        if not want <= have:
            return ("preps-no-counter", f"-M: no ConcurrentPreps counter for rank(s) {sorted(want - have)} although they have "
                                        f"Prep slices and the prep_queue counter is active"), info
    slices_keep = [e for e in rk["events"] if e.get("ph") == "X" and str(e.get("name", "")).endswith("Cmpt Prep")]
    slices_def = [e for e in rd["events"] if e.get("ph") == "X" and str(e.get("name", "")).endswith("Cmpt Prep")]
    nprep = sum(len(f) for f in spec["ranks"])
    info["prep_slices_keep"] = len(slices_keep)
    if len(slices_keep) != nprep:
        return ("preps-passthrough", f"--keep_prep exported {len(slices_keep)} Prep slices for {nprep} in the input"), info
    if slices_def:
        return ("preps-not-removed", f"{len(slices_def)} Prep slice(s) exported without --keep_prep"), info
    for tag, r in (("--keep_prep", rk), ("default", rd)):
        cnt = [e for e in r["events"] if e.get("ph") == "C" and e.get("name") == "ConcurrentPreps"]
        info["samples_" + tag] = len(cnt)
        # the rank of a slice: host-side slices are shown in process rank+1000 of the refined view and carry their
        # rank as an argument; counters are exported on pid = rank
        def rank_of(e):
            a = e.get("args")
            return a["rank"] if isinstance(a, dict) and isinstance(a.get("rank"), int) else e["pid"]
        for p in sorted({rank_of(e) for e in slices_keep} | {e["pid"] for e in cnt}):
            ivs = [(Fraction(e["ts"]), Fraction(e["ts"]) + Fraction(e["dur"])) for e in slices_keep if rank_of(e) == p]
            samples = [(Fraction(e["ts"]), e["args"]["Concurrency"]) for e in cnt if e["pid"] == p]
            v = series_oracle(ivs, samples)
            if verbose:
                print(tag, "pid", p, "ivs", [(float(a), float(b)) for a, b in ivs], "samples", [(float(a), c) for a, c in samples])
            if v:
                return (v[0], f"e2e {tag} pid {p}: " + v[1]), info
    return None, info


def e2e_case(ctx, case, verbose=False):
    v, info = e2e_eval(case["spec"], verbose)
    if v:
        ctx.violation(v[0], v[1], case)
    return info


def gen_e2e(ctx: Ctx):
    rng = ctx.rng
    for _ in range(ctx.n(40, 400)):
        R = rng.choice([1, 2, 3])
        pool = sorted({rng.randint(10, 300) for _ in range(rng.randint(3, 8))})
        if len(pool) < 2:
            pool = [10, 20]
        ranks = []
        for _r in range(R):
            fam = random_family(rng, rng.randint(1, 6), pool)     # equal starts, equal ends, touching, nesting
            ranks.append([(str(Fraction(s)), str(Fraction(e))) for s, e in fam])
        spec = {"ranks": ranks, "freq": rng.choice([256, 512, 1024])}
        u = rng.random()
        if u < 0.3:
            # boundaries off the nanosecond grid (multiples of 1/32 us: exact in cycles at every generated frequency)
            spec["ranks"] = [[(str(Fraction(s) + Fraction(rng.randint(0, 31), 32)), str(Fraction(e) + Fraction(rng.randint(0, 31), 32)))
                              for s, e in fam] for fam in ranks]
            spec["ranks"] = [[(s, e) for s, e in fam if Fraction(s) < Fraction(e)] or [("10", "20")] for fam in spec["ranks"]]
        elif u < 0.45:
            spec["host_prep"] = "all"
        elif u < 0.6:
            spec["host_prep"] = "mixed"
        if rng.random() < 0.35:
            spec["t0"] = 2_100_000_000_000.0
        yield {"kind": "e2e", "spec": spec}


# ---------------------------------------------------------------------------------------------

def jsonable(case):
    return {"keep": case["keep"], "events": [dict(ev, ts=str(ev["ts"]), dur=None if ev["dur"] is None else str(ev["dur"])) for ev in case["events"]]}


def run(ctx: Ctx):
    cases, reals = [], []
    for kind, case in gen_cases(ctx):
        r = run_real(case)
        why = oracle_applicable(case)
        jc = jsonable(case)
        if why is None:
            v = oracle(case, r)
            if v:
                ctx.violation(v[0], v[1], jc)
            ctx.count("oracle_evaluated")
        else:
            ctx.count("oracle_not_applicable: " + why)
        rel = relations(case)
        for x in rel:
            ctx.count("rel_" + x)
        ctx.count("stream_" + kind)
        ctx.count("keep_prep" if case["keep"] else "drop_prep")
        if r["err"]:
            ctx.count("real_" + r["err"])
        ctx.count("counter_samples", sum(1 for e in r["out"] if is_counter(e)))
        ln = line(case)
        ctx.case_done(jc, key=ln, nontrivial=bool(rel - {"disjoint"}))
        cases.append((jc, ln))
        reals.append(canon_real(r))
    # end to end (oracle on the exported JSON)
    for case in gen_e2e(ctx):
        info = e2e_case(ctx, case)
        ctx.count("e2e_paired_runs")
        ctx.count("e2e_samples", info.get("samples_default", 0))
        ctx.case_done(case, nontrivial=True)
    if ctx.search_mode or not ctx.driver or not ctx.driver.ok:
        return
    outs = ctx.driver.ask([ln for _, ln in cases])
    for (jc, _), real, model in zip(cases, reals, outs):
        ctx.compare("Preps.runStage vs queueing_counter through EventProcessor (pass-through uids in order + per-pid counter samples in order)",
                    jc, project(model), real)


def shrink(ctx: Ctx, case, classifier):
    if case.get("kind") == "e2e":
        spec = copy.deepcopy(case["spec"])

        def bad(sp):
            try:
                v, _ = e2e_eval(sp)
            except Exception:
                return False
            return v is not None and v[0] == classifier
        changed = True
        while changed:
            changed = False
            for r in range(len(spec["ranks"])):
                for j in range(len(spec["ranks"][r])):
                    sp = copy.deepcopy(spec)
                    del sp["ranks"][r][j]
                    if bad(sp):
                        spec, changed = sp, True
                        break
                if changed:
                    break
        return {"kind": "e2e", "spec": spec}
    c = norm_case(case)

    def bad(evs):
        cc = {"keep": c["keep"], "events": evs}
        if oracle_applicable(cc) is not None:
            return False
        try:
            v = oracle(cc, run_real(cc))
        except Exception:
            return False
        return v is not None and v[0] == classifier
    evs = list(c["events"])
    changed = True
    while changed:
        changed = False
        for j in range(len(evs)):
            e2 = evs[:j] + evs[j + 1:]
            if bad(e2):
                evs, changed = e2, True
                break
    return jsonable({"keep": c["keep"], "events": evs})


LEVEL_TEXT = ("Lean theorems over an executable model of QueueingCounterContext/queueing_counter, for all inputs: for the "
              "Prep intervals of a rank arriving sorted by start with s < e, the emitted samples followed by the drain are "
              "strictly increasing in time, their time set is exactly the set of interval endpoints (so every change instant "
              "is sampled), every value equals #{i | s_i <= t < e_i}, and the last value is 0 (sweep_correct); the per-pid "
              "dict of the stage is sound (the samples of pid p are the sweep over p's Prep slices, stage_counters_eq_sweep); "
              "Prep slices are removed / kept according to keep_prep and every other event passes once, in order. "
              "Tied to the code by running the real registered stage in a real EventProcessor and the compiled model on the "
              "same streams and comparing outputs exactly, plus e2e paired runs judged by the statement's oracle.")
LEVEL_NOTE = ("Trusted: Lean kernel; axioms propext, Classical.choice, Quot.sound; the hand-written model is validated against the "
              "real code by differential runs only (exhaustive small interval families + random streams); the regular expression "
              "is modelled by its two suffix cases; input sortedness is a hypothesis at stage level.")
TECHNIQUE = "Lean 4 proof (invariant over the processed prefix of a sweep) + model/implementation correspondence run"
