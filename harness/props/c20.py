"""C20 — communication summarization replaces each sequence by the hull of its parts.

Stage level.  The three registrations the CLI really makes for `--comm_summarize_seq`
(`communication_event_collection`, `pipeline_barrier`, `communication_event_apply`, with the one
shared pristine `CommunicationGroupContext`; taken from `Acelyzer.register_processing_functions`)
are run inside a real EventProcessor / Engine.run on generated slice streams.  The compiled Lean
model (`Comm.summarize`) is run on the same stream.  Compared exactly: the sequence of events
leaving the apply stage — `p<uid>` for an event that left unchanged, `m<uid>,name,ts,dur,peers` for
a rewritten one (`Peers` as a sorted set; any other changed key is flagged) — the number of
sequences left in the context, or the error class.  Times on the exact 1/16 grid; no tolerant field.

End to end.  Synthetic multi-rank FLEX traces (gen/scenario.py chain all-reduce scenarios, and
custom traces with several interleaved multi-part sequences and two input files per rank) are run
through the real Acelyzer API with and without `--comm_summarize_seq`; the exported X slices of
the two runs are matched by `args.uid`.

Oracle (from the statement, never from the model).  Reference = the stream without the option
(stage level: the input).  Sequence = the SenRdma X slices of one input file (jobhash / file the uid
was generated for) whose name carries the same sequence number (first `[_-]digits`).  For every
sequence exactly one slice with a uid of the sequence is left, its ts is the earliest start, its
ts+dur the latest end, its `Peers` is the union of the parts' `Peer` values without repetition; every
slice outside a sequence is there exactly once and unchanged.  `args.jobname` is ignored end to end
(it embeds the scratch path of the run).

Streams the statement cannot judge are compared against the model but not by the oracle: streams
in which two different (file, sequence number) pairs get the same integer key `int(str(jobhash) +
digits)` or the key 0 (hypotheses `KeysInjective` / `KeysNonzero` of the theorems; counted and
reported as an observation), and streams with an event that raises.
"""
from __future__ import annotations

import contextlib
import copy
import io
import itertools
import re
from fractions import Fraction

from lib.core import Ctx, enc, rat
from lib import stage

ID = "C20"
NEEDS_GEN = True
LEAN_TARGETS = ["AiuVerif.Props.C20", "AiuVerif.Props.Order", "AiuVerif.Props.C20Link"]
THEOREMS = [
    "AiuVerif.C20.hull_spec",
    "AiuVerif.C20.hull_spec_by_sequence",
    "AiuVerif.C20.non_members_unchanged",
    "AiuVerif.C20.non_members_unchanged_by_sequence",
    "AiuVerif.C20.outputs_classified",
    "AiuVerif.C20.summarize_total",
    "AiuVerif.C20.summarize_raises",
    "AiuVerif.C20.key_collision_merges",
    "AiuVerif.C20.key_zero_not_summarized",
    "AiuVerif.C20.block_computes_summarize",   # the registered block (shared context + shared barrier) on the streaming engine = summarize
    "AiuVerif.C20.nothing_applied_while_streaming",
    "AiuVerif.Order.comm_order",   # registration order / guards / shared context, re-decided on the generated sites
]
RULE = ("slice streams for collection -> barrier -> apply: exhaustive streams of up to 3 (quick) / 4 (thorough) "
        "SenRdma slices over 2 sequence numbers x 2 jobs x 3 start/end grid points x 2 peers; random structured streams "
        "(1-4 jobs, 1-6 sequences per job with 1-6 parts, interleaved in time, peers repeated, mixed with non-SenRdma "
        "slices, non-X events, SenRdma names without number); colliding-key and raising streams (model comparison "
        "only); a case is non-trivial when some sequence has >= 2 parts; distinct = distinct protocol line")
TRUSTED = ["regular expression `[_-](\\d+)` is modelled for ASCII digits; `int(str(jobhash)+digits)` as jobhash*10^len+value",
           "args.Peer is a decimal integer string; the Python set of peers is compared as a sorted set",
           "the engine delivers the whole stream to collection before apply sees the first event (C03 theorems; "
           "re-validated here by running the three real stages in the real engine)",
           "member slices carry dur (create_slice_from_BE output)"]
ASSUMPTIONS = ["KeysInjective: int(str(jobhash)+digits) separates the (file, sequence number) pairs of the stream",
               "KeysNonzero: no (file, sequence number) pair has key 0 (Python treats key 0 as 'no sequence')",
               "uids of the input slices are distinct (identity used to match outputs to inputs)"]
NOT_YET_PROVED = ["that the stages registered BEFORE the block hand it the slices unchanged is outside this model (C01's "
                  "conservation classes); the block itself - shared context, shared barrier, streaming engine - is "
                  "proved to compute summarize (C20Link.block_computes_summarize)"]

SEQ_RE = re.compile(r"[_-](\d+)")


# ---------------------------------------------------------------------------------------------
# real code
# ---------------------------------------------------------------------------------------------

_stage_cache = {}


def _stages():
    """the sub-pipeline the CLI registers from the first to the last communication_event_* stage (today:
    collection, pipeline_barrier, apply), whatever its shape; the shared context is copied once per call"""
    if "s" not in _stage_cache:
        rec = [r for r in stage.cli_stages(["--comm_summarize_seq"]) if r["registered"]]
        idx = [k for k, r in enumerate(rec) if r["name"] in ("communication_event_collection", "communication_event_apply")]
        if not idx:
            raise RuntimeError("--comm_summarize_seq registers no communication_event_* stage")
        _stage_cache["s"] = rec[idx[0]:idx[-1] + 1]
        _stage_cache["shape"] = [r["name"] for r in _stage_cache["s"]]
    rec = _stage_cache["s"]
    import aiu_trace_analyzer.pipeline.barrier as barrier_mod
    memo, out, cctx = {}, [], None
    for r in rec:
        c = r["context"]
        if c is not None and c is not barrier_mod._main_barrier_context:
            c = copy.deepcopy(c, memo)          # one copy per distinct context object: sharing is preserved
            if hasattr(c, "queues") and "communication" in r["name"]:
                cctx = c
        out.append((r["callback"], c, dict(r["kwargs"])))
    return out, cctx


def to_real(ev):
    d = {"ph": ev["ph"], "pid": ev.get("pid", 0), "tid": 5, "ts": float(Fraction(ev["ts"])), "name": ev["name"],
         "dur": float(Fraction(ev["dur"])), "uid": ev["uid"]}
    if ev["job"] is not None:
        d["args"] = {"jobhash": ev["job"], "Type": "x"}
        if ev["peer"] is not None:
            d["args"]["Peer"] = str(ev["peer"])
    elif ev.get("args_without_jobhash"):
        d["args"] = {"Type": "x"}
    return d


def run_real(case):
    stages, cctx = _stages()
    inp = [to_real(ev) for ev in case["events"]]
    with contextlib.redirect_stdout(io.StringIO()):
        out, err = stage.run_stages(stages, inp)
    left = len(cctx.queues) if cctx is not None else 0
    if cctx is not None:
        cctx.queues.clear()            # keep __del__ quiet
    return {"inp": inp, "out": out, "err": err, "left": left}


def canon_real(r):
    if r["err"]:
        return {"KeyError": "err:keyerror", "AssertionError": "err:assert", "TypeError": "err:typeerror",
                "ValueError": "err:valueerror"}.get(r["err"], "err:other")
    by = {e["uid"]: e for e in r["inp"]}
    toks = []
    for e in r["out"]:
        i = by.get(e.get("uid"))
        if i is not None and e == i:
            toks.append(f"p{e['uid']}")
            continue
        other = ""
        if i is None:
            other = "!unknown-uid"
        else:
            ea, ia = dict(e.get("args", {})), dict(i.get("args", {}))
            ea.pop("Peers", None)
            if ea != ia or any(e.get(k) != i.get(k) for k in set(e) | set(i) if k not in ("name", "ts", "dur", "args")):
                other = "!other-keys-changed"
        peers = e.get("args", {}).get("Peers")
        ps = "nopeers" if peers is None else ":".join(str(p) for p in sorted(int(x) for x in peers)) + \
            ("!dup" if len(set(peers)) != len(peers) else "")
        toks.append(f"m{e.get('uid')},{enc(e['name'])},{rat(e['ts'])},{rat(e['dur'])},{ps}{other}")
    return f"ok {r['left']} " + ";".join(toks)


def line(case):
    evs = []
    for ev in case["events"]:
        evs.append(",".join([str(ev["uid"]), enc(ev["ph"]), enc(ev["name"]), "~" if ev["job"] is None else str(ev["job"]),
                             rat(Fraction(ev["ts"])), rat(Fraction(ev["dur"])), "~" if ev["peer"] is None else str(ev["peer"])]))
    return "c20 " + (";".join(evs) or ";")


# ---------------------------------------------------------------------------------------------
# oracle (from the statement)
# ---------------------------------------------------------------------------------------------

def seq_id(ev):
    """(file, sequence number) of a SenRdma slice, None if the slice is not part of a sequence"""
    if ev["ph"] != "X" or "SenRdma" not in ev["name"]:
        return None
    m = SEQ_RE.search(ev["name"])
    if not m:
        return None
    return (ev["job"], m.group(1))


def py_key(sid):
    return int(str(sid[0]) + sid[1])


def oracle_applicable(case):
    ids = set()
    for ev in case["events"]:
        if ev["ph"] == "X" and "SenRdma" in ev["name"] and ev["job"] is None:
            return "event without jobhash"
        s = seq_id(ev)
        if s is not None:
            ids.add(s)
    keys = {}
    for s in ids:
        k = py_key(s)
        if k == 0:
            return "key 0"
        if k in keys:
            return "key collision"
        keys[k] = s
    return None


def hull_oracle(groups, nonmembers, outs, same):
    """groups: {id: [part,...]} parts = dict(uid, ts, end, peer|None); nonmembers: {uid: ref event};
    outs: {uid: [out events]} with ts/dur/peers read by the caller into dict(ts,end,peers,raw);
    same(ref, out) -> bool.  Returns None | (classifier, text)"""
    for gid, parts in groups.items():
        uids = [p["uid"] for p in parts]
        got = [o for u in uids for o in outs.get(u, [])]
        if len(got) != 1:
            return ("comm-count", f"sequence {gid} with {len(parts)} part(s) {uids} is represented by {len(got)} output slice(s)")
        o = got[0]
        lo, hi = min(p["ts"] for p in parts), max(p["end"] for p in parts)
        if o["ts"] != lo or o["end"] != hi:
            return ("comm-hull", f"sequence {gid}: output slice spans [{o['ts']}, {o['end']}] but the parts span [{lo}, {hi}]")
        want = sorted({p["peer"] for p in parts if p["peer"] is not None})
        if o["peers"] is None or sorted(o["peers"]) != want:
            return ("comm-peers", f"sequence {gid}: Peers {o['peers']} but the parts' peers are {want}")
    for u, ref in nonmembers.items():
        got = outs.get(u, [])
        if len(got) != 1:
            return ("comm-nonmember", f"slice uid={u} outside any sequence appears {len(got)} times")
        if not same(ref, got[0]["raw"]):
            return ("comm-nonmember", f"slice uid={u} outside any sequence was modified: {ref} -> {got[0]['raw']}")
    known = set(nonmembers) | {p["uid"] for parts in groups.values() for p in parts}
    extra = [u for u in outs if u not in known]
    if extra:
        return ("comm-count", f"output slices with unknown uids {extra[:5]}")
    return None


def oracle(case, r):
    if r["err"]:
        return ("comm-crash", f"stages raised {r['err']} on a well-formed stream")
    groups, non = {}, {}
    by = {e["uid"]: e for e in r["inp"]}
    for ev in case["events"]:
        s = seq_id(ev)
        if s is None:
            non[ev["uid"]] = by[ev["uid"]]
        else:
            groups.setdefault(s, []).append({"uid": ev["uid"], "ts": Fraction(ev["ts"]), "end": Fraction(ev["ts"]) + Fraction(ev["dur"]),
                                             "peer": ev["peer"]})
    outs = {}
    for e in r["out"]:
        peers = e.get("args", {}).get("Peers")
        outs.setdefault(e.get("uid"), []).append({
            "ts": Fraction(e["ts"]), "end": Fraction(e["ts"]) + Fraction(e["dur"]),
            "peers": None if peers is None else [int(x) for x in peers], "raw": e})
    v = hull_oracle(groups, non, outs, lambda a, b: a == b)
    if v is None and r["left"] != 0:
        return ("comm-count", f"{r['left']} sequence(s) left unprocessed in the context")
    return v


def oracle_on_case(ctx: Ctx, case, verbose=False):
    if case.get("kind") == "e2e":
        return e2e_case(ctx, case, verbose)
    r = run_real(case)
    why = oracle_applicable(case)
    if verbose:
        print("real:", canon_real(r), ("| oracle n/a: " + why) if why else "")
    if why is None:
        v = oracle(case, r)
        if v:
            ctx.violation(v[0], v[1], case)
    return r


# ---------------------------------------------------------------------------------------------
# generators (cases are JSON-able: ts/dur as rational strings)
# ---------------------------------------------------------------------------------------------

def mk(uid, name, job, ts, dur, peer=None, ph="X"):
    return {"uid": uid, "ph": ph, "name": name, "job": job, "ts": str(Fraction(ts)), "dur": str(Fraction(dur)), "peer": peer}


SUFFIXES = [" - Set BcList [sync=g_s2_r0x7_4] DmaO", " - Xseg to rank 0 [sync=g_s2_r0x7_4] DmaO", " - Xseg to rank 1 [sync=g] DmaO",
            " Data [sync=g_s2_r0x7_4] DmaO", " [sync=AllReduce_all_reduce_1_s0_r1_0] DmaO", "", " a", " b", "a", "ab", " [524288B] [sync=g] DmaI"]
STEMS = ["SenRdmaSend_", "SenRdmaReceive_", "SenRdmaSend-", "x SenRdma_", "SenRdmaSend_x_"]
OTHERS = ["mm_3 Cmpt Exec", "SenRdmaSend Data", "SenRdma", "senrdmasend_5", "AIU Roundtrip", "Rdma_7 x", "SenRdmaSend_ 5", "k_12 Cmpt Prep"]


def grid_cases(maxn):
    """every stream of <= maxn SenRdma slices over a tiny alphabet"""
    alpha = []
    for seq in ("1", "2"):
        for job in (3, 4):
            for (s, e) in ((0, 1), (0, 2), (1, 2)):
                for peer in (0, 1):
                    alpha.append((seq, job, s, e, peer))
    for n in range(0, maxn + 1):
        for combo in itertools.product(alpha, repeat=n):
            yield {"events": [mk(i + 1, f"SenRdmaSend_{seq} p{i}", job, s, e - s, peer) for i, (seq, job, s, e, peer) in enumerate(combo)]}


def random_case(rng, flavour):
    jobs = rng.sample([0, 1, 7, 12, 123, 1890, 9607, 2714, 45], rng.randint(1, 4))
    if flavour == "collide":
        jobs = rng.sample([0, 1, 12, 123], rng.randint(2, 4))
    evs, uid = [], 0
    base = Fraction(rng.choice([0, 1000, 2 ** 30]))
    tpool = [base + Fraction(rng.randint(0, 16 * 30), 16) for _ in range(rng.randint(2, 12))]
    for job in jobs:
        if flavour == "collide":
            seqs = rng.sample(["3", "23", "0", "00", "03", "5", "05", "123"], rng.randint(1, 5))
        else:
            seqs = rng.sample(["1000", "1030", "2030", "7", "07", "31", "12", "1", "0", "99999"], rng.randint(1, 6))
        for sq in seqs:
            stem = rng.choice(STEMS)
            for _ in range(rng.choice([1, 1, 2, 3, 4, 6])):
                uid += 1
                t = rng.choice(tpool)
                evs.append(mk(uid, stem + sq + rng.choice(SUFFIXES), job, t, Fraction(rng.randint(0, 16 * 5), 16),
                              rng.choice([None, 0, 1, 2, 3, 17, 8, 1])))
        for _ in range(rng.randint(0, 4)):
            uid += 1
            k = rng.random()
            t = rng.choice(tpool)
            if k < 0.6:
                evs.append(mk(uid, rng.choice(OTHERS), job, t, rng.randint(0, 3), rng.choice([None, 1])))
            else:
                evs.append(mk(uid, rng.choice(STEMS) + "1000" + rng.choice(SUFFIXES), job, t, 1, 1, ph=rng.choice(["C", "B", "i", "M", "x"])))
    rng.shuffle(evs)
    if rng.random() < 0.5:
        evs.sort(key=lambda e: Fraction(e["ts"]))
    if flavour == "raise":
        for ev in evs:
            if rng.random() < 0.15:
                ev["job"] = None
                ev["args_without_jobhash"] = rng.random() < 0.5
    return {"events": evs}


# the two Lean witnesses (Props/C20.lean: collisionWitness, zeroWitness), replayed on the real code on every run
WITNESSES = {
    "key_collision_merges": {"events": [mk(1, "SenRdmaSend_23", 1, 0, 1, 5), mk(2, "SenRdmaSend_3", 12, 10, 1, 6)]},
    "key_zero_not_summarized": {"events": [mk(1, "SenRdmaSend_0 a", 0, 0, 1, 5), mk(2, "SenRdmaSend_0 b", 0, 10, 1, 6)]},
}
WITNESS_EXPECT = {        # what the Lean theorems say the model does
    "key_collision_merges": "ok 0 m2,SenRdmaSend_,0,11,5:6",
    "key_zero_not_summarized": "ok 0 p1;p2",
}


def gen_cases(ctx: Ctx):
    maxn = 3 if ctx.quick() else 4
    for name, c in WITNESSES.items():
        yield "witness:" + name, c
    for c in grid_cases(maxn):
        yield "grid", c
    ctx.extra["exhaustive_grid"] = f"all streams of <= {maxn} SenRdma slices over 2 sequence numbers x 2 jobs x 3 intervals x 2 peers"
    for _ in range(ctx.n(3000, 40000)):
        yield "random", random_case(ctx.rng, "plain")
    for _ in range(ctx.n(600, 8000)):
        yield "collide", random_case(ctx.rng, "collide")
    for _ in range(ctx.n(300, 4000)):
        yield "raise", random_case(ctx.rng, "raise")


# ---------------------------------------------------------------------------------------------
# end to end: paired runs with / without --comm_summarize_seq, matched by args.uid
# ---------------------------------------------------------------------------------------------

def custom_files(spec):
    """spec: {"files": [{"rank": r, "sends": [[seq, t, dur, peer], ...]}, ...]} -> {file name: events}.
    Several entries may have the same rank (several jobs per rank).  Start times of one rank are distinct."""
    from gen.scenario import Rank, TID_SEND
    files = {}
    for k, f in enumerate(spec["files"]):
        rk = Rank(f["rank"], 512.0, 1_000_000_000.0, 512 * (5000 + 131 * k))
        rk.uid = 1000 * k
        for j, (seq, t, dur, peer) in enumerate(f["sends"]):
            kind = [" - Xseg to rank %d" % peer, " Data", " - Set BcList"][j % 3]
            extra = {"Peer": str(peer), "Type": "MultiCast XSEG", "Bytes": "1024"}
            if j % 3 == 2:
                extra["Peers"] = "0,1,2"        # as the runtime writes it on the "Set BcList" part (a string of its own)
            # idless: the operation word carries no request id, the sequence number is the first number of the name,
            # which then sits in the sync tag
            # the operation word: sends and (both spellings of) receives are numbered sequences alike
            op = ["SenRdmaSend", "SenRdmaRecv", "SenRdmaReceive"][{1000: 0, 1030: 1, 2030: 2, 7: 0, 31: 1}.get(seq, seq % 3)]
            nm = (f"{op}{kind} [sync=g_{seq}_s{f['rank']}_r{peer}_{j}] DmaO" if f.get("idless") else
                  f"{op}_{seq}{kind} [sync=g{seq}_s{f['rank']}_r{peer}_{j}] DmaO")
            rk.dev_event(nm, TID_SEND, [float(t), float(t), float(t), float(t), float(t + dur)], extra)
        # plain device slices that belong to no sequence (transfers and kernels), also between the parts
        for j, (t, dur) in enumerate(f.get("plain", [])):
            nm = [f"result_{j} DmaO", f"weights_{j} DmaI", f"mm_{j} Cmpt Exec"][j % 3]
            # every fourth one on the lane of the sequence parts themselves (it may partially overlap a part there: what the
            # overlap resolution does with it must not depend on the option)
            rk.dev_event(nm, TID_SEND if j % 4 == 3 or f.get("same_lane") else TID_SEND + 20 + j % 3,
                         [float(t), float(t), float(t), float(t), float(t + dur)])
        rk.host_event("AIU Roundtrip", 77, 0.0, 900.0)
        # dirs: one directory per job, the rank's file name is the same in each of them
        fn = f"job{k}/rank_{f['rank']}.json" if spec.get("dirs") else f"job{k}_rank_{f['rank']}.json"
        files[fn] = rk.event_list()
    return files


def e2e_files(case):
    if case["gen"] == "scenario":
        from gen.scenario import scenario_events
        return scenario_events(**case["args"])
    return custom_files(case["spec"])


def e2e_eval(case, verbose=False):
    files = e2e_files(case)
    # which file does a uid come from; which input slices exist
    src = {}
    for fn, evs in files.items():
        for e in evs:
            if e["ph"] == "B":
                src[(e.get("attr") or e.get("args"))["uid"]] = fn
    # the statement compares "the same run without the option": vary the OTHER switches of that run (derived from
    # the case so that it replays identically); some of them register further stages around the two comm stages
    from lib.core import REPO as _REPO
    nslices = sum(1 for evs in files.values() for e in evs if e["ph"] == "B")
    extra = [[], [], ["-c", str(_REPO / "tests/test_data/sample_comp_log_ideal.txt")], ["--keep_prep"], ["-t"],
             ["--drop_globals"], ["-c", str(_REPO / "tests/test_data/sample_comp_log_ideal.txt"), "-t"], ["-R"],
             ["-k"], ["--disable_tb"], ["--flow"]][case.get("xi", nslices + len(files)) % 11]
    with contextlib.redirect_stdout(io.StringIO()):
        r0 = stage.e2e(["--freq", "512", *extra], files)
        r1 = stage.e2e(["--freq", "512", "--comm_summarize_seq", *extra], files)
    for tag, r in (("reference", r0), ("--comm_summarize_seq", r1)):
        if r["rc"] != 0 or r["events"] is None:
            return ("comm-crash", f"acelyzer {tag} failed: rc={r['rc']} {r['error']}"), {}

    def slices(r):
        d = {}
        for e in r["events"]:
            if e.get("ph") == "X":
                d.setdefault(e.get("args", {}).get("uid"), []).append(e)
        return d
    s0, s1 = slices(r0), slices(r1)
    info = {"slices_ref": sum(map(len, s0.values())), "slices_opt": sum(map(len, s1.values()))}
    if None in s0 or None in s1 or any(len(v) != 1 for v in s0.values()) or not set(s0) <= set(src):
        return ("comm-reference", "reference run exports a slice twice or without a known uid (C01 matter)"), info
    groups, non = {}, {}
    for u, (e,) in s0.items():
        name = e.get("args", {}).get("orig_name", e["name"])
        m = SEQ_RE.search(name) if "SenRdma" in name else None
        if m:
            peer = e["args"].get("Peer")
            if peer is None and "--flow" in extra:
                # with --flow the reference run itself exports the part's `Peer` under the unified key `Peers` (C01: a rename)
                peer = e["args"].get("Peers")
                if isinstance(peer, list):
                    peer = peer[0] if len(peer) == 1 else None
                elif isinstance(peer, str) and "," in peer:
                    peer = None         # the runtime's own `Peers` string of a part without a `Peer`
            groups.setdefault((src[u], m.group(1)), []).append(
                {"uid": u, "ts": Fraction(e["ts"]), "end": Fraction(e["ts"]) + Fraction(e["dur"]), "peer": None if peer is None else int(peer)})
        else:
            non[u] = e
    outs = {}
    for u, l in s1.items():
        for e in l:
            peers = e.get("args", {}).get("Peers")
            if isinstance(peers, str):
                peers = [p for p in peers.split(",") if p]
            outs.setdefault(u, []).append({"ts": Fraction(e["ts"]), "end": Fraction(e["ts"]) + Fraction(e["dur"]),
                                           "peers": None if peers is None else [int(x) for x in peers], "raw": e})
    info["sequences"] = len(groups)
    info["multi_part_sequences"] = sum(1 for g in groups.values() if len(g) > 1)

    def same(a, b):
        a, b = copy.deepcopy(a), copy.deepcopy(b)
        a.get("args", {}).pop("jobname", None)
        b.get("args", {}).pop("jobname", None)
        return a == b
    if verbose:
        for gid, parts in groups.items():
            print(gid, [(p["uid"], float(p["ts"]), float(p["end"]), p["peer"]) for p in parts], "->",
                  [(u, float(o["ts"]), float(o["end"]), o["peers"]) for p in parts for u in [p["uid"]] for o in outs.get(u, [])])
    return hull_oracle(groups, non, outs, same), info


def e2e_case(ctx, case, verbose=False):
    v, info = e2e_eval(case, verbose)
    if v:
        ctx.violation(v[0], v[1], case)
    return info


def gen_e2e(ctx: Ctx):
    rng = ctx.rng
    for _ in range(ctx.n(6, 60)):
        yield {"kind": "e2e", "gen": "scenario",
               "args": {"R": rng.choice([2, 3, 4]), "groups": rng.choice([1, 2, 3]), "seed": rng.randint(0, 10 ** 6), "kernels": rng.choice([1, 2])}}
    # always present: two jobs of ONE rank in per-job directories with the same file name and the same sequence numbers
    yield {"kind": "e2e", "gen": "custom", "spec": {"dirs": True, "files": [
        {"rank": 0, "sends": [[1030, 20, 5, 1], [1030, 40, 20, 2], [7, 100, 5, 1]], "plain": [[60.5, 5]], "idless": False},
        {"rank": 0, "sends": [[1030, 220, 5, 1], [1030, 260, 20, 3], [7, 300, 5, 2], [7, 330, 1, 0]], "plain": [], "idless": False},
        {"rank": 1, "sends": [[1030, 25, 5, 0]], "plain": [[80.5, 1]], "idless": True}]}}
    xi = [0]        # the switch set of the paired runs: round robin over the custom cases (kept in the case for replay)
    for _ in range(ctx.n(24, 240)):
        nfiles = rng.choice([1, 2, 3, 4])
        ranks = [rng.choice([0, 1, 2]) for _ in range(nfiles)]
        used = {}
        fl = []
        for r in ranks:
            times = used.setdefault(r, set())
            sends = []
            seqs = rng.sample([1000, 1030, 2030, 7, 31], rng.randint(1, 4))
            for _s in range(rng.randint(1, 10)):
                t = rng.choice([x for x in range(10, 600) if x not in times])
                times.add(t)
                sends.append([rng.choice(seqs), t, rng.choice([1, 5, 20, 60]), rng.choice([0, 1, 2, 3])])
            sends.sort(key=lambda s: s[1])
            plain = []
            for _p in range(rng.randint(0, 4)):
                t = rng.choice([x for x in range(10, 600) if x not in times])
                times.add(t)
                plain.append([t + 0.5, rng.choice([1, 5, 20])])
            fl.append({"rank": r, "sends": sends, "plain": plain, "idless": rng.random() < 0.25, "same_lane": rng.random() < 0.3})
        xi[0] += 1
        yield {"kind": "e2e", "gen": "custom", "spec": {"files": fl, "dirs": rng.random() < 0.4}, "xi": xi[0]}


# ---------------------------------------------------------------------------------------------

def run(ctx: Ctx):
    cases, reals = [], []
    for kind, case in gen_cases(ctx):
        r = run_real(case)
        why = oracle_applicable(case)
        if why is None:
            v = oracle(case, r)
            if v:
                ctx.violation(v[0], v[1], case)
            ctx.count("oracle_evaluated")
        else:
            ctx.count("oracle_not_applicable: " + why)
        groups = {}
        for ev in case["events"]:
            s = seq_id(ev)
            if s is not None and ev["job"] is not None:
                groups.setdefault(s, []).append(ev)
        multi = sum(1 for g in groups.values() if len(g) > 1)
        ctx.count("stream_" + kind)
        ctx.count("sequences", len(groups))
        ctx.count("multi_part_sequences", multi)
        ctx.count("merged_slices_out", sum(1 for e in r["out"] if "Peers" in e.get("args", {})))
        if r["err"]:
            ctx.count("real_" + r["err"])
        if any("EmptyName" == e.get("name") for e in r["out"]):
            ctx.count("name_quirk_EmptyName")
        if kind.startswith("witness:"):
            w = kind.split(":", 1)[1]
            got = canon_real(r)
            ctx.extra.setdefault("witnesses_on_real_code", {})[w] = {
                "real": got, "lean_theorem_says": WITNESS_EXPECT[w], "real_code_agrees_with_witness": got == WITNESS_EXPECT[w]}
            if got != WITNESS_EXPECT[w]:
                ctx.disagree(f"Lean witness {w} no longer describes the real code", case, WITNESS_EXPECT[w], got)
        ln = line(case)
        ctx.case_done(case, key=ln, nontrivial=multi > 0)
        cases.append((case, ln))
        reals.append(canon_real(r))
    for case in gen_e2e(ctx):
        info = e2e_case(ctx, case)
        ctx.count("e2e_paired_runs")
        ctx.count("e2e_sequences", info.get("sequences", 0))
        ctx.count("e2e_multi_part_sequences", info.get("multi_part_sequences", 0))
        ctx.case_done(case, nontrivial=info.get("multi_part_sequences", 0) > 0)
    ctx.extra["registered_sub_pipeline"] = _stage_cache.get("shape")
    if ctx.search_mode or not ctx.driver or not ctx.driver.ok:
        return
    outs = ctx.driver.ask([ln for _, ln in cases])
    for (case, _), real, model in zip(cases, reals, outs):
        ctx.compare("Comm.summarize vs collection -> barrier -> apply through EventProcessor (events leaving apply, sequences left)",
                    case, model, real)


def shrink(ctx: Ctx, case, classifier):
    if case.get("kind") == "e2e":
        if case["gen"] != "custom":
            return case
        spec = copy.deepcopy(case["spec"])

        def bad(sp):
            try:
                v, _ = e2e_eval(dict(case, spec=sp))
            except Exception:
                return False
            return v is not None and v[0] == classifier
        changed = True
        while changed:
            changed = False
            for f in range(len(spec["files"])):
                for j in range(len(spec["files"][f]["sends"])):
                    sp = copy.deepcopy(spec)
                    del sp["files"][f]["sends"][j]
                    if bad(sp):
                        spec, changed = sp, True
                        break
                if changed:
                    break
        return dict(case, spec=spec)

    def bad(evs):
        cc = {"events": evs}
        if oracle_applicable(cc) is not None:
            return False
        try:
            v = oracle(cc, run_real(cc))
        except Exception:
            return False
        return v is not None and v[0] == classifier
    evs = list(case["events"])
    changed = True
    while changed:
        changed = False
        for j in range(len(evs)):
            e2 = evs[:j] + evs[j + 1:]
            if bad(e2):
                evs, changed = e2, True
                break
    return {"events": evs}


LEVEL_TEXT = ("Lean theorems over an executable model of CommunicationGroupContext (collection, barrier, application), for "
              "all slice streams: under the explicit hypothesis that the integer key separates the (file, sequence number) "
              "pairs of the stream, every sequence is represented by exactly one output slice — emitted at its last part — "
              "whose ts is the minimum start, whose ts+dur is the maximum end and whose Peers is the strictly sorted union of "
              "the parts' peers (hull_spec, hull_spec_by_sequence); slices outside any sequence leave exactly once, unchanged, "
              "in order (non_members_unchanged); the run never raises when every SenRdma slice has a jobhash and leaves no "
              "sequence behind (summarize_total); without the hypothesis two sequences are merged (key_collision_merges, a "
              "concrete witness).  Tied to the code by running the three real registered stages in a real EventProcessor and "
              "the compiled model on the same streams, plus e2e paired runs with/without the option judged by the oracle.")
LEVEL_NOTE = ("Trusted: Lean kernel; axioms propext, Classical.choice, Quot.sound; hand-written model validated differentially; "
              "the regular expression and int(str+digits) are modelled arithmetically for ASCII digits; KeysInjective / "
              "KeysNonzero are hypotheses, not facts (key collisions are an observation about the code).")
TECHNIQUE = "Lean 4 proof (fold invariants over collection and application) + model/implementation correspondence run"
