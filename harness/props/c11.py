"""C11 — PT utilization equals ideal cycles over observed kernel time, capped at 100 %.

Correspondence (end to end, through the real `Acelyzer` API — lib.stage.e2e): a generated single-table
compiler log in the format of tests/test_data/sample_comp_log_ideal.txt (kernel rows with `-opCat<X>` /
`-NA` suffixes, zero entries, ignored `Precompute` / `-LxPreload` rows, duplicates, noise lines, an
optional PREFILL/DECODING marker, both spellings of the `Total` line) plus generated FLEX kernel
sequences (gen/scenario.py vocabulary, 1-3 ranks) under `--freq soc:core`.  The Lean model
`AiuVerif.Util` (Model/Util.lean) is fed the *parsed* rows of the log (kernel, tag, cycles — the line
regexes are exercised, not modelled) and the exported X slices; compared: `args.pt_active` per kernel
slice, the `PT Active` counters per rank, and the rows of `<out>_categories.csv` in file order.

Oracle (from the statement; never calls the model): recomputes from the generated log rows and the
exported slices: pt_active = min(1, cycles/core/dur) iff the kernel is listed with non-zero cycles, the
counter pair (100·pt_active at the start, 0 at the end) and nothing for the other kernels; in the CSV
every kernel slice counted exactly once in the category of its log row (unknown kernels in `other`),
Total = sum of the category rows of the file, Frac_Time / Frac_Ideal / PT_Util = the ratios.

Exact fields: pt_active / counter values / Kernel_Time / Ideal_Cyc / Calls / categories / row order when
core is a power of two (then every double operation on the grid is exact; a relative 1e-12 is granted
otherwise and Ideal_Cyc, an `int()` of a quotient, +-1).  Tolerant fields (printed after `round(·, 4)`):
Frac_Time, Frac_Ideal, PT_Util, Ideal_Time: |d - q| <= 5e-5 + 1e-12·|q|.

Two defects found while building this check are repaired in /repo (4ba5a45, 3b111fa) and their trigger
inputs are part of the default generator domain, so a relapse is a VIOLATION with a replay:
* `util-degenerate-table-crash`: a table without a single parsed kernel row (empty, or only ignored rows)
  or whose entries are all zero used to make `RCUTableFingerprint.similarity` divide by zero at the second
  drain of the shared context; now the run completes and every kernel is counted under `other` / its
  category with zero ideal time.
* `util-uncategorised-row-double-count`: a kernel row without `-opCat`/`-NA` suffix used to get the
  category `Total` and was counted twice in the Total row; it is now filed under `NotAvailable`.
A category that is literally `Total` (`<kernel>-opCatTotal`) clashes with the name of the summary row and
is outside the domain: such logs are still generated and compared with the model (which reproduces the
double count, Lean witness `total_double_counts_literal_total_category`), but the oracle does not
evaluate its CSV clauses on them.
Masked kernel names: the trace may name a kernel `<a>_[N]_<b> Cmpt Exec` and carry `args.fn_idx`; the table
name is then the name with the first `[N]` replaced by `str(fn_idx)` (index 0 and the string "0" included).
The model expands the name (`tableName`, Lean `masked_name_lookup`) and the oracle decides pt_active / counter
pair / category from the expanded name; grid, random and e2e streams contain such slices.
Multi-rank runs share the one table: every rank section of the CSV is compared with the recomputation
from that rank's own exported slices (grid of 2-rank pairs + random 1-3 rank cases).
"""
from __future__ import annotations

import contextlib
import copy
import csv
import io
import json
import sys
import itertools
import os
import shutil
import tempfile
from fractions import Fraction as F

from lib.core import Ctx, enc, rat
from lib import stage
from gen import scenario

ID = "C11"
LEAN_TARGETS = ["AiuVerif.Props.C11", "AiuVerif.Props.C11Parse", "AiuVerif.Props.C11Link"]
THEOREMS = [
    # the compiler-log parser (Model/LogParse.lean)
    "AiuVerif.C11.parsed_tables_wellformed",
    "AiuVerif.C11.first_row_wins",
    "AiuVerif.C11.stops_at_autopilot",
    "AiuVerif.C11.outside_table_ignored",
    # from the log text to the tables the utilization model starts from (Props/C11Link.lean)
    "AiuVerif.C11.fold_rows_eq_util",
    "AiuVerif.C11.rows_from_empty",
    "AiuVerif.C11.single_table_parse",
    "AiuVerif.C11.catSplit_plain",
    "AiuVerif.C11.catSplit_opcat",
    "AiuVerif.C11.category_opcat",
    "AiuVerif.C11.dataRow_written",
    "AiuVerif.C11.rowOf_written",
    "AiuVerif.C11.rowOf_written_plain",
    "AiuVerif.C11.catSplit_na",
    "AiuVerif.C11.rowOf_written_na",
    "AiuVerif.C11.pt_active_formula",
    "AiuVerif.C11.table_lookup_spec",
    "AiuVerif.C11.masked_name_lookup",
    "AiuVerif.C11.unmasked_name_lookup",
    "AiuVerif.C11.counter_pair",
    "AiuVerif.C11.each_kernel_counted_once",
    "AiuVerif.C11.total_is_sum_of_categories",
    "AiuVerif.C11.total_is_sum_of_slice_categories",
    "AiuVerif.C11.total_double_counts_literal_total_category",
    "AiuVerif.C11.uncategorised_row_counted_once",
    "AiuVerif.C11.old_handle_category_double_counts",
    "AiuVerif.C11.csv_total_is_sum",
    "AiuVerif.C11.ratios",
    "AiuVerif.C11.ideal_cycles_exact",
    "AiuVerif.C11.no_stats_zero_counter",
    "AiuVerif.C11.pt_active_tiny_dur",
    "AiuVerif.C11.csv_rows_are_rank_tables",
]
RULE = ("e2e cases: (a) exhaustive grid: every combination of 7 log-row variants for kernel A x 7 for kernel B "
        "(absent, zero cycles, cycles with category X, cycles with category Y, -NA, ignored row, row without suffix; "
        "plus every sequence of <= 2 slices over masked names `kM_[N]_x` with args.fn_idx in {absent, 0, 1, 2, '0', 5} x "
        "two durations against a log listing kM_0_x / kM_1_x / kM_2_x; "
        "this includes the tables without kernel rows / with only zero entries) x every sequence of "
        "<= 2 slices over {A at 1/4, A at exactly 100 %, A over 100 %, B}, plus every ordered pair (and 27 triples) of "
        "rank sequences for 2 (3) ranks sharing one table; (b) random: 0-12 log rows (duplicates, zero "
        "entries, ignored rows, rows without suffix, literal Total category, noise, phase marker), 1-3 ranks x 0-10 kernel slices, soc in {256,512,1024}, core in "
        "{512,1024,2048,1100,800}, option sets incl. -t. Non-trivial: at least one kernel slice is listed with "
        "non-zero cycles (pt_active produced); distinct = distinct case spec")
TRUSTED = [
    "the line regexes of _process_table_line (data / ignore / splitter / start / end / phase patterns) are exercised "
    "by the generated logs, not modelled: the model receives the parsed rows (kernel, tag, cycles)",
    "with one table update_fprint_matches always selects it (best candidate whatever the similarity); fingerprint "
    "hashes are not modelled",
    "pandas DataFrame.sort_values(kind='stable') / to_csv and float repr behave as documented",
    "IEEE doubles are exact on the generated grid when core is a power of two; otherwise a relative 1e-12 is granted",
    "math.isclose(x, 0, abs_tol=1e-9) is modelled as |x| <= 10^-9 (the double 1e-9 is not exactly 10^-9)",
]
ASSUMPTIONS = [
    "domain: the compiler log has exactly one ideal-cycle table (zero tables crash accumulate_categories with KeyError, "
    "several tables depend on string hashes); core > 0; FLEX dialect; default options plus the listed option sets",
    "the clause 'kernels with zero or unknown ideal cycles get neither' holds only when calculate_stats is registered "
    "(default); with -t a zero-valued start counter is exported (Lean: no_stats_zero_counter); -t is outside the "
    "property's quantifier and the oracle does not apply this clause there",
    "a log category that is literally 'Total' clashes with the summary row (the slice is counted twice in Total; Lean "
    "witness total_double_counts_literal_total_category): outside the domain; theorems about Total carry the "
    "hypothesis NoTotalCategory, the oracle skips its CSV clauses on such logs, the model comparison covers them",
    "rows without -opCat/-NA suffix are filed under NotAvailable (since /repo 3b111fa; Lean regression sentinel "
    "old_handle_category_double_counts about the old definition); degenerate tables run (since /repo 4ba5a45)",
    "a kernel listed several times with different cycles/categories is ambiguous in the statement: the first row wins "
    "(first non-zero for the cycles); generated, compared with the model, skipped by the oracle",
    "the per-slice category written to event['cat'] is overwritten by tb_refinement_lightweight and is not observable",
]
NOT_YET_PROVED = [
    "round(x, 4) of Frac_Time, Frac_Ideal, PT_Util, Ideal_Time (tolerance of the correspondence; theorems speak "
    "about the exact ratios)",
    "table parsing from text: modelled (Model/LogParse.lean, compared with the real parser on generated log texts; theorems "
    "parsed_tables_wellformed, first_row_wins, stops_at_autopilot, outside_table_ignored; C11Link.single_table_parse + "
    "rows_from_empty: a log with one table section yields exactly buildTable / buildCatMap of the rows of its body lines; "
    "dataRow_written + catSplit_opcat + rowOf_written: a `kernel-opCat<category>` row written with any blanks is read back as "
    "that key, cycle count and category; rowOf_written_plain / rowOf_written_na: the same for rows without suffix and with `-NA`); "
    "kernel and category names that themselves contain `-` are compared on generated texts only; "
    "fingerprint matching is not modelled (single table assumed)",
    "row order of the CSV (pandas stable sort) is modelled and compared but no theorem is stated about it",
]
LEVEL_TEXT = ("The compiler-log parser is modelled character by character (LogParse) and linked to the tables of the utilization model (single_table_parse, rows_from_empty, rowOf_written*). "
              "Lean theorems over an executable model of compute_utilization / make_utilization_event / "
              "accumulate_categories / print_table_as_pd and the counter rule of calculate_stats, for all parsed log "
              "tables, kernel sequences and core frequencies > 0: pt_active = min(1, cycles/core/dur) exactly for "
              "kernels whose first non-zero listing has those cycles and absent otherwise; the counter pair; every "
              "kernel slice is accumulated exactly once into the row of its category; Total = sum of the category rows "
              "(for every log without a category literally named 'Total', with a decided witness for that clash and a "
              "regression sentinel about the old _handle_category); the ratio "
              "columns; Ideal_Cyc is the exact cycle sum. Tied to the code by running the whole CLI pipeline and the "
              "compiled model on the same generated logs and traces.")
LEVEL_NOTE = ("Trusted: Lean kernel; axioms propext, Classical.choice, Quot.sound; hand-written model validated by "
              "differential e2e runs; text parsing and fingerprints outside the model; rounding as tolerance.")
TECHNIQUE = "Lean 4 proof (fold invariants over the kernel sequence) + model/implementation correspondence run"

TOL4 = F(5, 10 ** 5)
REL = F(1, 10 ** 12)
EXEC = "Cmpt Exec"


def near(d, q, tol=F(0)):
    return abs(d - q) <= tol + REL * abs(q)


# ---------------------------------------------------------------------------------------------
# the generated compiler log
# ---------------------------------------------------------------------------------------------

def first_col(row):
    s = row["kernel"]
    if row.get("ignore"):
        s += "-LxPreload" if row["ignore"] == "-LxPreload" else "-Precompute"
    tag = row["tag"]
    if tag.startswith("o:"):
        s += "-opCat" + tag[2:]
    elif tag == "na":
        s += "-NA"
    return s


def render_log(log):
    out = ["[DeepRT] ===== Perf BEGIN =====", "====== Perf Summary ======"]
    if log.get("phase"):
        out.append("      " + log["phase"] + "      ")
    out += ["~~~~ Ideal/Total Cycles ~~~~", "-" * 40, "Name" + " " * 30 + "Ideal Cy.", "-" * 40]
    tot = 0
    for row in log["rows"]:
        if "noise" in row:
            out.append(row["noise"])
            continue
        tot += row["cycles"]
        out.append(first_col(row) + " " * row.get("pad", 6) + str(row["cycles"]) + " " * row.get("trail", 0))
    out += ["-" * 40, ("Total\t\t\t\t" if log.get("total_tabs", True) else "Total        ") + str(tot), "-" * 40,
            "====== Perf Summary End ======", "[DeepRT] ===== Perf END ====="]
    return "\n".join(out) + "\n"


def parsed_rows(log):
    """the rows a reader of the table takes as kernel entries (not ignored, not noise)"""
    return [r for r in log["rows"] if "noise" not in r and not r.get("ignore")]


def has_uncategorised(log):
    return any(r["tag"] == "none" for r in parsed_rows(log))


def has_literal_total(log):
    return any(r["tag"] == "o:Total" for r in parsed_rows(log))


def degenerate(log):
    """no parsed kernel row, or all listed cycles are zero"""
    return sum(r["cycles"] for r in parsed_rows(log)) == 0


CLS_EMPTY = "util-degenerate-table-crash"
CLS_UNCAT = "util-uncategorised-row-double-count"


# ---------------------------------------------------------------------------------------------
# real code
# ---------------------------------------------------------------------------------------------

def build_trace(case):
    soc = float(case["soc"])
    ranks = [scenario.Rank(r, soc, 1_000_000_000.0, case["dev_epochs"][r]) for r in range(len(case["ranks"]))]
    for r, kernels in enumerate(case["ranks"]):
        t = 100.0
        for k in kernels:
            name, gap, prep, execd = k[:4]
            fn = k[4] if len(k) > 4 else None           # args.fn_idx: None | ["i", int] | ["s", str]
            t0, p, x = t + float(F(gap)), float(F(prep)), float(F(execd))
            ts5 = [t0, t0, t0 + p, t0 + p + x, t0 + p + x + 2]
            extra = {"fn_idx": fn[1]} if fn else None
            if not case.get("host_late"):       # host_late traces hold kernel (Exec) slices only: nothing precedes them
                ranks[r].dev_event(f"{name} Cmpt Prep", scenario.TID_PREP, ts5, extra)
            ranks[r].dev_event(f"{name} Cmpt Exec", scenario.TID_EXEC, ts5, extra)
            if case.get("user_cat") and (len(ranks[r].events) % 3 == 0):
                # the trace writer tagged this kernel with a category of its own (a top-level `cat` on B and E)
                b_ev, e_ev = ranks[r].events[-1]
                b_ev["cat"] = e_ev["cat"] = "user_kernel"
            if case.get("two_streams") and (len(ranks[r].events) % 2 == 0):
                # a second compute stream of the same device: a short kernel of the same name running INSIDE this one
                x2 = x / 4 if x >= 1 else x
                ts5b = [t0 + p + x / 4, t0 + p + x / 4, t0 + p + x / 4, t0 + p + x / 4 + x2, t0 + p + x / 4 + x2 + 0.25]
                ranks[r].dev_event(f"{name} Cmpt Exec", scenario.TID_EXEC + 7, ts5b, extra)
            t = ts5[4]
        # host_late: the host slice starts after the first kernel has begun, so the earliest event that the stages
        # behind compute_utilization see is a kernel slice
        h0 = 100.0 if not (case.get("host_late") and kernels) else \
            100.0 + float(F(kernels[0][1])) + float(F(kernels[0][2])) + float(F(kernels[0][3])) / 2
        ranks[r].host_event("AIU Roundtrip", 77, h0, t + 1)
    return {f"trace_rank_{rk.r}.json": rk.event_list() for rk in ranks}


def run_real(case):
    tmp = tempfile.mkdtemp(prefix="aiuverif_c11_")
    try:
        lp = os.path.join(tmp, "comp.log")
        with open(lp, "w") as fh:
            fh.write(render_log(case["log"]))
        if case.get("decoy"):
            # an older log of the same name in a sub-directory next to the one given with -c (archive/comp.log),
            # listing other cycles: the table must come from the file the command line names
            os.makedirs(os.path.join(tmp, "archive"), exist_ok=True)
            other = copy.deepcopy(case["log"])
            for row in other.get("rows", []):
                if isinstance(row, dict) and isinstance(row.get("cycles"), int):
                    row["cycles"] = row["cycles"] * 7 + 1000
            with open(os.path.join(tmp, "archive", "comp.log"), "w") as fh:
                fh.write(render_log(other))
        argv = ["--freq", f"{case['soc']}:{case['core']}", "-c", lp] + list(case["argv"])
        if len(case["ranks"]) > 1:
            argv.append("-M")
        with contextlib.redirect_stdout(io.StringIO()):
            if case.get("pred_torch"):
                # an analysis of a torch-profiler trace (the OTHER dialect, with its own kernel classifier) with the same
                # compiler log earlier in this process: whatever it leaves behind must not reach the run under test
                from props import c14
                stage.e2e(["-c", lp], {"torch_rank0.json": c14.torch_trace(n=2, seed=len(case["ranks"]))})
            r = stage.e2e(argv, build_trace(case), want_files=["out_categories.csv"])
    finally:
        shutil.rmtree(tmp, ignore_errors=True)
    res = {"err": "ok" if (r["rc"] == 0 and not r["error"]) else f"failed:{r['rc']}:{r['error']}",
           "slices": [], "counters": {}, "rows": None, "perr": None}
    if res["err"] != "ok":
        return res
    for e in r["events"] or []:
        if e.get("ph") == "X":
            a = e.get("args", {})
            res["slices"].append({"name": a.get("orig_name", e["name"]), "pid": e["pid"], "ts": F(e["ts"]),
                                  "dur": F(e["dur"]), "hasTS": "TS1" in a,
                                  "fn": (None if "fn_idx" not in a else
                                         ["i", a["fn_idx"]] if isinstance(a["fn_idx"], int) and not isinstance(a["fn_idx"], bool)
                                         else ["s", str(a["fn_idx"])]),
                                  "pt": F(a["pt_active"]) if "pt_active" in a else None})
        elif e.get("ph") == "C" and e.get("name") == "PT Active":
            res["counters"].setdefault(e["pid"], []).append((F(e["ts"]), F(e["args"]["Percent"]), "dur" in e))
    for v in res["counters"].values():
        v.sort()
    text = r["files"].get("out_categories.csv")
    if text is None:
        res["rows"] = []
    else:
        try:
            rows = []
            for d in csv.DictReader(io.StringIO(text)):
                rows.append({"pid": int(d["Pid"]), "phase": d["Phase"], "cat": d["Category"],
                             "time": F(float(d["Kernel_Time"])), "fracTime": F(d["Frac_Time"]), "calls": int(d["Calls"]),
                             "ideal": F(d["Ideal_Time"]), "idealCyc": int(d["Ideal_Cyc"]), "fracIdeal": F(d["Frac_Ideal"]),
                             "ptUtil": F(d["PT_Util"])})
            res["rows"] = rows
        except (ValueError, KeyError, TypeError) as e:
            res["perr"] = f"{type(e).__name__}: {e}"
    return res


def kernel_slices(res):
    return [s for s in res["slices"] if s["hasTS"] and s["name"].endswith(EXEC)]


# ---------------------------------------------------------------------------------------------
# oracle (from the statement)
# ---------------------------------------------------------------------------------------------

def listing(log):
    """kernel -> (cycles, category, ambiguous) as the log lists it"""
    out = {}
    for r in parsed_rows(log):
        cat = r["tag"][2:] if r["tag"].startswith("o:") else "NotAvailable"     # -NA and rows without suffix
        k = r["kernel"]
        if k not in out:
            out[k] = [r["cycles"], cat, False]
        elif out[k][0] != r["cycles"] or out[k][1] != cat:
            out[k][2] = True
    return out


def table_name(s):
    """the kernel a slice stands for: a masked name `…[N]…` with args.fn_idx is the kernel whose name has that
    index in place of the first [N] (whatever the index, 0 included)"""
    n = s["name"]
    if "[N]" in n and s["fn"] is not None:
        n = n.replace("[N]", str(s["fn"][1]), 1)
    return n


def oracle(case, res):
    if res["perr"]:
        return ("util-csv-unreadable", f"categories csv not parsable: {res['perr']}")
    core, lst = F(case["core"]), listing(case["log"])
    stats = "-t" not in case["argv"]
    phase = {"PREFILL": "TTFT", "DECODING": "ITL"}.get(case["log"].get("phase"), "UNKN")
    ks = kernel_slices(res)
    # every kernel slice of the input is in the exported trace (it is what the csv and the counters speak about)
    n_in = sum(len(k) for k in case["ranks"])
    if case.get("two_streams"):
        n_in = None         # the inner kernels are added by build_trace: count the input slices instead
        n_in = sum(1 for evs in build_trace(case).values() for e in evs if e["ph"] == "B" and e["name"].endswith(EXEC))
    if len(ks) != n_in:
        return ("util-kernel-slice-missing", f"the input has {n_in} kernel slices, the exported trace has {len(ks)} "
                                             f"(the csv and the PT Active counters cover slices that are not exported)")
    exp_ctr, per_pid = {}, {}
    for s in ks:
        k = table_name(s)[:-len(EXEC) - 1]
        cyc, cat, amb = lst.get(k, [0, "other", False])
        per_pid.setdefault(s["pid"], []).append((s, cyc, cat, amb))
        if amb:
            continue
        u = min(F(1), F(cyc) / core / s["dur"]) if cyc else F(0)
        if u > 0:
            if s["pt"] is None or not near(s["pt"], u):
                return ("util-pt-active", f"slice {s['name']!r} rank {s['pid']} dur {float(s['dur'])}: pt_active="
                                          f"{None if s['pt'] is None else float(s['pt'])}, expected min(1, {cyc}/{case['core']}/dur) = {float(u)}")
            exp_ctr.setdefault(s["pid"], []).extend([(s["ts"], 100 * u), (s["ts"] + s["dur"], F(0))])
        elif s["pt"] is not None:
            return ("util-pt-active", f"slice {s['name']!r} has pt_active={float(s['pt'])} but its kernel is listed with "
                                      f"zero cycles or not at all")
    for s in res["slices"]:
        if s["pt"] is not None and s not in ks:
            return ("util-pt-active", f"non-kernel slice {s['name']!r} carries pt_active")
    for pid in set(exp_ctr) | set(res["counters"]):
        if any(amb for (_, _, _, amb) in per_pid.get(pid, [])):
            continue
        got = sorted((t, v) for (t, v, _) in res["counters"].get(pid, []))
        exp = sorted(exp_ctr.get(pid, []))
        if not stats:
            # without calculate_stats the zero-valued start counters of the other kernels are exported as well;
            # the clause about them is outside the quantifier: require the non-zero ones and every end counter
            zeros = [t for (t, v) in got if v == 0]
            if any(zeros.count(t) < [t2 for (t2, v2) in exp if v2 == 0].count(t) for (t, v) in exp if v == 0):
                return ("util-counter-pair", f"rank {pid}: an end-of-kernel zero counter is missing")
            got, exp = [x for x in got if x[1] != 0], [x for x in exp if x[1] != 0]
        if len(got) != len(exp) or any(t1 != t2 or not near(v1, v2) for (t1, v1), (t2, v2) in zip(got, exp)):
            return ("util-counter-pair", f"rank {pid}: PT Active counters {[(float(t), float(v)) for t, v in got][:8]} "
                                         f"but expected {[(float(t), float(v)) for t, v in exp][:8]}")
        if any(d for (_, _, d) in res["counters"].get(pid, [])):
            return ("util-counter-scratch-dur", f"rank {pid}: an exported PT Active counter still carries 'dur'")
    # categories csv
    if has_literal_total(case["log"]):
        return None         # a category literally named Total clashes with the summary row: outside the domain
    rows = res["rows"] or []
    if sorted({r["pid"] for r in rows}) != sorted(per_pid):
        return ("util-csv-ranks", f"csv has ranks {sorted({r['pid'] for r in rows})}, kernel slices are on {sorted(per_pid)}")
    for pid, items in per_pid.items():
        prow = {}
        for r in rows:
            if r["pid"] == pid:
                if r["cat"] in prow:
                    return ("util-csv-duplicate-row", f"rank {pid}: two rows for category {r['cat']!r}")
                prow[r["cat"]] = r
                if r["phase"] != phase:
                    return ("util-csv-phase", f"rank {pid}: phase {r['phase']!r}, log says {phase}")
        if "Total" not in prow:
            return ("util-csv-total", f"rank {pid}: no Total row")
        tot = prow["Total"]
        others = [r for c, r in prow.items() if c != "Total"]
        if tot["calls"] != sum(r["calls"] for r in others) or not near(tot["time"], sum(r["time"] for r in others)) \
                or abs(tot["idealCyc"] - sum(r["idealCyc"] for r in others)) > (0 if _dyadic(case["core"]) else len(others) + 1) \
                or not near(tot["ideal"], sum(r["ideal"] for r in others), TOL4 * (len(others) + 1)):
            return ("util-csv-total", f"rank {pid}: Total row (time {float(tot['time'])}, calls {tot['calls']}, cyc "
                                      f"{tot['idealCyc']}) is not the sum of the category rows (time "
                                      f"{float(sum(r['time'] for r in others))}, calls {sum(r['calls'] for r in others)}, "
                                      f"cyc {sum(r['idealCyc'] for r in others)})")
        if tot["calls"] != len(items):
            return ("util-csv-counted-once", f"rank {pid}: {len(items)} kernel slices but Total Calls = {tot['calls']}")
        amb = any(a for (_, _, _, a) in items)
        exp = {}
        for s, cyc, cat, _ in items:
            e = exp.setdefault(cat, [F(0), 0, 0])
            e[0] += s["dur"]
            e[1] += cyc
            e[2] += 1
        if not amb:
            for cat, r in prow.items():
                if cat == "Total":
                    continue
                t, c, n = exp.get(cat, [F(0), 0, 0])
                if r["calls"] != n or not near(r["time"], t):
                    return ("util-csv-counted-once", f"rank {pid} category {cat!r}: Calls={r['calls']} Kernel_Time={float(r['time'])} "
                                                     f"but the trace has {n} slices / {float(t)} us in that category")
                if abs(r["idealCyc"] - c) > (0 if _dyadic(case["core"]) else 1) or not near(r["ideal"], F(c) / core, TOL4):
                    return ("util-csv-ideal", f"rank {pid} category {cat!r}: Ideal_Cyc={r['idealCyc']} Ideal_Time={float(r['ideal'])} "
                                              f"but the listed cycles sum to {c} ({float(F(c) / core)} us)")
            for cat in exp:
                if cat not in prow:
                    return ("util-csv-counted-once", f"rank {pid}: no row for category {cat!r} which has {exp[cat][2]} slices")
        ttime = sum(r["time"] for r in others)
        tcyc = sum(e[1] for e in exp.values())
        for cat, r in prow.items():
            ft = r["time"] / ttime if ttime > F(1, 10 ** 9) else F(0)
            if not near(r["fracTime"], ft, TOL4):
                return ("util-csv-ratios", f"rank {pid} {cat!r}: Frac_Time={float(r['fracTime'])} but time/total = {float(ft)}")
            if amb:
                continue
            t, c, _ = exp.get(cat, [F(0), 0, 0]) if cat != "Total" else [ttime, tcyc, 0]
            fi = F(c, tcyc) if tcyc > 0 else F(0)
            pu = F(c) / core / t if t > F(1, 10 ** 9) else F(0)
            if not near(r["fracIdeal"], fi, TOL4):
                return ("util-csv-ratios", f"rank {pid} {cat!r}: Frac_Ideal={float(r['fracIdeal'])} but ideal/total ideal = {float(fi)}")
            if not near(r["ptUtil"], pu, TOL4):
                return ("util-csv-ratios", f"rank {pid} {cat!r}: PT_Util={float(r['ptUtil'])} but ideal/time = {float(pu)}")
    return None


def _dyadic(x):
    q = F(x)
    return q.denominator == 1 and (q.numerator & (q.numerator - 1)) == 0


# ---------------------------------------------------------------------------------------------
# model side
# ---------------------------------------------------------------------------------------------

def model_line(case, res):
    rows = ";".join(f"{enc(r['kernel'])},{'o:' + enc(r['tag'][2:]) if r['tag'].startswith('o:') else r['tag']},{r['cycles']}"
                    for r in parsed_rows(case["log"])) or "-"
    def fn(s):
        return "-" if s["fn"] is None else (f"i:{s['fn'][1]}" if s["fn"][0] == "i" else "s:" + enc(s["fn"][1]))
    evs = ";".join(f"{enc(s['name'])},{s['pid']},{rat(s['ts'])},{rat(s['dur'])},{1 if s['hasTS'] else 0},{fn(s)}"
                   for s in res["slices"]) or "-"
    return f"c11 {rat(F(case['core']))} {0 if '-t' in case['argv'] else 1} {rows} {evs}"


def parse_model(ans):
    from props.c12 import unenc
    assert ans.startswith("A="), ans
    a, r = ans[2:].split(" R=")
    anns, rows = [], []
    for x in [y for y in a.split(";") if y]:
        pt, cat, ctr = x.split(",")
        anns.append({"pt": None if pt == "none" else F(pt), "cat": unenc(cat),
                     "ctrs": [] if ctr == "-" else [tuple(F(z) for z in c.split(":")) for c in ctr.split("~")]})
    for x in [y for y in r.split(";") if y]:
        f = x.split(",")
        rows.append({"pid": int(f[0]), "cat": unenc(f[1]), "time": F(f[2]), "fracTime": F(f[3]), "calls": int(f[4]),
                     "ideal": F(f[5]), "idealCyc": int(f[6]), "fracIdeal": F(f[7]), "ptUtil": F(f[8])})
    return {"anns": anns, "rows": rows}


ROW_TOL = {"time": F(0), "fracTime": TOL4, "ideal": TOL4, "fracIdeal": TOL4, "ptUtil": TOL4}


def canon_pair(case, model, res):
    ks = kernel_slices(res)
    cm = {"pt": [None if a["pt"] is None else rat(a["pt"]) for a in model["anns"]], "ctr": {}, "rows": []}
    cr = {"pt": [], "ctr": {}, "rows": []}
    for i, s in enumerate(ks):
        m = model["anns"][i]["pt"] if i < len(model["anns"]) else None
        cr["pt"].append(None if s["pt"] is None else (rat(m) if (m is not None and near(s["pt"], m)) else "real:" + str(float(s["pt"]))))
    mctr = {}
    for s, a in zip(ks, model["anns"]):
        mctr.setdefault(s["pid"], []).extend(a["ctrs"])
    for pid in sorted(set(mctr) | set(res["counters"])):
        mc = sorted(mctr.get(pid, []))
        rc = sorted((t, v) for (t, v, _) in res["counters"].get(pid, []))
        if mc or rc:
            cm["ctr"][pid] = [[rat(t), rat(v)] for t, v in mc]
            cr["ctr"][pid] = [[rat(t), rat(mc[i][1]) if (i < len(mc) and near(v, mc[i][1])) else "real:" + str(float(v))]
                              for i, (t, v) in enumerate(rc)]
    dy = _dyadic(case["core"])
    for m in model["rows"]:
        cm["rows"].append([m["pid"], m["cat"], m["calls"], m["idealCyc"]] + [rat(m[c]) for c in ROW_TOL])
    for i, r in enumerate(res["rows"] or []):
        m = model["rows"][i] if i < len(model["rows"]) else None
        cyc = m["idealCyc"] if (m is not None and not dy and abs(m["idealCyc"] - r["idealCyc"]) <= 1) else r["idealCyc"]
        cr["rows"].append([r["pid"], r["cat"], r["calls"], cyc] +
                          [rat(m[c]) if (m is not None and near(r[c], m[c], t)) else "printed:" + str(float(r[c]))
                           for c, t in ROW_TOL.items()])
    return cm, cr


# ---------------------------------------------------------------------------------------------
# generators
# ---------------------------------------------------------------------------------------------

CYC = 2048          # at core 1024: 2 us ideal


def row_variants(kernel):
    return [
        [],
        [{"kernel": kernel, "tag": "o:CatX", "cycles": 0}],
        [{"kernel": kernel, "tag": "o:CatX", "cycles": CYC}],
        [{"kernel": kernel, "tag": "o:CatY_fp16", "cycles": CYC}],
        [{"kernel": kernel, "tag": "na", "cycles": CYC}],
        [{"kernel": kernel, "tag": "o:CatX", "cycles": CYC, "ignore": "Precompute"}],
        [{"kernel": kernel, "tag": "none", "cycles": CYC}],
    ]


GRID_SLICES = [["kA_1", "3", "5", "8"], ["kA_1", "3", "5", "2"], ["kA_1", "3", "5", "1"], ["kB", "3", "5", "8"]]


def gen_grid(ctx: Ctx):
    n = 0
    for va in row_variants("kA_1"):
        for vb in row_variants("kB"):
            for L in range(0, 3):
                for seq in itertools.product(GRID_SLICES, repeat=L):
                    n += 1
                    yield {"soc": 512, "core": 1024, "argv": [], "dev_epochs": [512 * 7],
                           "log": {"rows": va + vb}, "ranks": [[list(s) for s in seq]]}
    # two / three ranks sharing the one table: every ordered pair of rank sequences
    seqs = [[], [GRID_SLICES[0]], [GRID_SLICES[1]], [GRID_SLICES[3]], [GRID_SLICES[0], GRID_SLICES[3]]]
    log = {"rows": row_variants("kA_1")[2] + row_variants("kB")[3]}
    for sa in seqs:
        for sb in seqs:
            n += 1
            yield {"soc": 512, "core": 1024, "argv": [], "dev_epochs": [512 * 7, 512 * 1001], "log": log,
                   "ranks": [[list(x) for x in sa], [list(x) for x in sb]]}
    for sa, sb, sc in itertools.product(seqs[1:4], repeat=3):
        n += 1
        yield {"soc": 512, "core": 1024, "argv": [], "dev_epochs": [512 * 7, 512 * 1001, 512 * 77], "log": log,
               "ranks": [[list(x) for x in sa], [list(x) for x in sb], [list(x) for x in sc]]}
    # masked kernel names: `kM_[N]_x` + args.fn_idx, the log lists the expanded names
    mlog = {"rows": [{"kernel": "kM_0_x", "tag": "o:CatX", "cycles": CYC}, {"kernel": "kM_1_x", "tag": "o:CatY_fp16", "cycles": 2 * CYC},
                     {"kernel": "kM_2_x", "tag": "na", "cycles": CYC // 2}, {"kernel": "kB", "tag": "o:CatX", "cycles": CYC}]}
    letters = [["kM_[N]_x", "3", "5", d, f] for d in ("8", "2")
               for f in (None, ["i", 0], ["i", 1], ["i", 2], ["s", "0"], ["i", 5])] + [["kM_0_x", "3", "5", "8", None]]
    for L in range(1, 3):
        for seq in itertools.product(letters, repeat=L):
            n += 1
            yield {"soc": 512, "core": 1024, "argv": [], "dev_epochs": [512 * 7], "log": mlog,
                   "ranks": [[[x for x in k if x is not None] if k[4] is None else list(k) for k in seq]]}
    ctx.extra["grid_cases"] = n


KNAMES = ["mm_0", "mm_1", "addmm_MatMul-BMM_1", "conv2d", "softmax_3", "gelu", "layer-7_x", "relu"]
CATS = ["Bmm_fp16", "Conv_fp16", "Scalar", "Pooling", "StcdpHbm", "other", "Broadcast"]
NOISE = ["-" * 20, "Name        Ideal Cy.", "x.y 100", " lead 100", "two words 12 34", "nocycles", "tab\there 12"]
ARGVS = [[], [], [], ["-t"], ["--keep_names"], ["--flow"], ["--disable_tb"], ["--keep_prep"],
         ["--comm_summarize_seq"], ["--comm_summarize_seq", "--flow"], ["-O", "tid"], ["--drop_globals"],
         ["-C", "rcu_util", "power_ts4", "prep_queue"]]


def rand_case(ctx: Ctx, i):
    rng = ctx.rng
    names = rng.sample(KNAMES, rng.randint(1, 6))
    rows = []
    for _ in range(rng.randint(0, 12)):
        x = rng.random()
        if x < 0.08:
            rows.append({"noise": rng.choice(NOISE)})
            continue
        k = rng.choice(names)
        if x < 0.2 and any("noise" not in r and r["kernel"] == k for r in rows):
            prev = next(r for r in rows if "noise" not in r and r["kernel"] == k)
            row = dict(prev) if rng.random() < 0.5 else dict(prev, cycles=rng.choice([0, 64 * rng.randint(1, 400)]),
                                                             tag="o:" + rng.choice(CATS))
        else:
            tag = "o:" + rng.choice(CATS) if rng.random() < 0.8 else "na"
            x2 = rng.random()
            if x2 < 0.12:
                tag = "none"
            elif x2 < 0.15:
                tag = "o:Total"
            row = {"kernel": k, "tag": tag, "cycles": 0 if rng.random() < 0.2 else 64 * rng.randint(1, 600)}
        if rng.random() < 0.1:
            row["ignore"] = rng.choice(["Precompute", "-LxPreload"])
        row["pad"], row["trail"] = rng.randint(1, 30), rng.choice([0, 0, 3, 10])
        rows.append(row)
    log = {"rows": rows, "phase": rng.choice([None, None, "PREFILL", "DECODING"]), "total_tabs": rng.random() < 0.5}
    R = rng.choice([1, 1, 2, 3])
    evnames = names + [rng.choice(KNAMES)]
    if rng.random() < 0.3:
        # a kernel the log does not list at all although a listed kernel's name is its prefix (`mm` listed, `mm_3` runs)
        evnames.append(rng.choice(names) + "_" + str(rng.randint(2, 9)))
    masked = None
    if rng.random() < 0.35:
        # a family of kernels that the trace names `<base>_[N]_<tail>` with args.fn_idx
        base, tail = rng.choice(["alpha", "mm", "layer-7"]), rng.choice(["mm", "x", "MatMul"])
        masked = f"{base}_[N]_{tail}"
        for idx in rng.sample([0, 1, 2, 3], rng.randint(1, 3)):
            rows.insert(rng.randrange(len(rows) + 1), {"kernel": f"{base}_{idx}_{tail}", "tag": "o:" + rng.choice(CATS),
                                                       "cycles": 64 * rng.randint(1, 600), "pad": 4, "trail": 0})
    ranks = []
    for _ in range(R):
        ks = []
        for _ in range(rng.randint(0, 10)):
            ks.append([rng.choice(evnames), rat(F(rng.randint(4, 40), 4)), rat(F(rng.randint(4, 40), 4)),
                       rat(F(rng.choice([4, 8, 16, 64, 250, rng.randint(1, 2000)]), 4))])
            if masked and rng.random() < 0.5:
                ks[-1][0] = masked
                f = rng.choice([None, ["i", 0], ["i", 0], ["i", 1], ["i", 2], ["i", 3], ["s", "0"], ["s", "1"], ["i", 7]])
                if f:
                    ks[-1].append(f)
            elif rng.random() < 0.05:
                ks[-1].append(["i", 0])             # fn_idx on a name without [N]: no effect
        ranks.append(ks)
    return {"soc": rng.choice([256, 512, 1024]), "core": rng.choice([512, 1024, 1024, 2048, 1100, 800]),
            "argv": ARGVS[i % len(ARGVS)], "dev_epochs": [rng.randrange(0, 1 << 32, 1024) for _ in range(R)],
            "log": log, "ranks": ranks, "host_late": rng.random() < 0.35, "decoy": rng.random() < 0.15,
            "user_cat": rng.random() < 0.25, "two_streams": rng.random() < 0.2, "pred_torch": i % 200 == 1 or rng.random() < 0.004}


def gen_cases(ctx: Ctx):
    yield from gen_grid(ctx)
    ctx.extra["exhaustive_grid"] = True
    for i in range(ctx.n(800, 8000)):
        yield rand_case(ctx, i)


# ---------------------------------------------------------------------------------------------

def run_real_fresh(case):
    """run_real in a FRESH interpreter: the torch-profiler predecessor of a `pred_torch` case must be the first
    analysis of its process (whatever an earlier analysis of the same dialect left behind would mask it)"""
    import pickle
    import subprocess
    code = ("import sys, os, json, pickle; sys.path.insert(0, %r); "
            "sys.path.insert(0, os.path.join(os.environ.get('AIU_REPO', '/repo'), 'src')); from props import c11; "
            "case = json.loads(sys.stdin.read()); res = c11.run_real(case); "
            "sys.stdout.buffer.write(b'@@PICKLE@@' + pickle.dumps(res))" % os.path.dirname(os.path.dirname(os.path.abspath(__file__))))
    p = subprocess.run([sys.executable, "-c", code], input=json.dumps(case).encode(), capture_output=True, timeout=600)
    out = p.stdout
    if b"@@PICKLE@@" not in out:
        return {"err": f"failed:subprocess rc={p.returncode} {p.stderr.decode(errors='replace')[-300:]}", "slices": [],
                "counters": {}, "rows": None, "perr": None}
    return pickle.loads(out.split(b"@@PICKLE@@", 1)[1])


def oracle_on_case(ctx: Ctx, case, verbose=False):
    res = run_real_fresh(case) if case.get("pred_torch") else run_real(case)
    if verbose:
        print("real:", {k: v for k, v in res.items() if k != "slices"})
        print("kernel slices:", [(s["name"], s["pid"], float(s["dur"]), None if s["pt"] is None else float(s["pt"])) for s in kernel_slices(res)])
    if res["err"] != "ok":
        if degenerate(case["log"]) and "ZeroDivisionError" in res["err"]:
            ctx.violation(CLS_EMPTY, f"a table without kernel rows / with only zero entries makes the run fail: {res['err']}", case)
        else:
            ctx.violation("util-run-failed", f"acelyzer failed on a well-formed single-table log: {res['err']}", case)
        return res
    unc = has_uncategorised(case["log"])
    ctx.count("logs_with_row_without_suffix", int(unc))
    ctx.count("logs_degenerate_table", int(degenerate(case["log"])))
    ctx.count("logs_with_literal_Total_category_csv_oracle_skipped", int(has_literal_total(case["log"])))
    v = oracle(case, res)
    if v:
        ctx.violation(CLS_UNCAT if (unc and v[0] in ("util-csv-total", "util-csv-counted-once")) else v[0], v[1], case)
    return res


def log_parse_correspondence(ctx):
    """Model/LogParse.lean vs the real parser: generated compiler-log TEXTS (markers, rows with every spacing and suffix the
    patterns distinguish, ignored rows, duplicates, zero counts, text around the tables, the autopilot line, a second table)
    are written to a file and read by the context object the CLI registers for `-c <log>`; compared: number of tables and,
    per table, the kernel -> cycles entries and the kernel -> category entries in insertion order."""
    import contextlib as _cl
    import io as _io
    import shutil as _sh
    import tempfile as _tf
    from lib.core import enc
    rng = ctx.rng
    kernels = ["bmm", "addmm_MatMul", "layer_norm", "gelu-2", "a_b-c9", "Total", "Totals", "x", "softmax"]

    def row():
        k = rng.choice(kernels)
        r = rng.random()
        name = k + ("-opCat" + rng.choice(["Bmm_fp16", "MatMul", "Other", "A-opCatB", ""]) if r < 0.55 else
                    "-NA" if r < 0.7 else "-NAx" if r < 0.74 else "-LxPreload" if r < 0.78 else "Precompute" if r < 0.8 else
                    "-opCatX-NA" if r < 0.83 else "")
        cyc = rng.choice(["0", "1", "12288", "27648", "007", str(rng.randint(1, 10 ** 6))])
        tail = rng.choice(["\n", "   \n", " \n", "", "\n", "\t\n", " x\n", "\r\n"])
        return name + " " * rng.choice([1, 1, 3, 7]) + cyc + tail

    def junk():
        return rng.choice(["\n", "some free text\n", "Total 5\n", "bmm 12\n", "  PREFILL  \n", "\tDECODING\n", " PREFILL\n", "PREFILL \n",
                           "  PREFILLS \n", "Ideal Clock Scaling: 1.2\n", "name with blank 12\n", "bmm -3\n", "bmm 1 2\n", " bmm 4\n",
                           "k-opCatC 5 Ideal Clock Scaling: \n", "Ideal/Total Cycles\n"])

    cases, lines = [], []
    for k in range(ctx.n(160, 3000)):
        text = [junk() for _ in range(rng.randint(0, 3))]
        for t in range(rng.choice([1, 1, 1, 2, 0])):
            text.append(rng.choice(["---  Ideal/Total Cycles  ---\n", "x Ideal/Total Cycles y\n"]))
            for _ in range(rng.randint(0, 9)):
                text.append(row() if rng.random() < 0.8 else junk())
            if rng.random() < 0.9:
                text.append("====== Perf Summary End ======\n")
            text += [junk() if rng.random() < 0.5 else row() for _ in range(rng.randint(0, 2))]
        if rng.random() < 0.15:
            text.insert(rng.randint(0, len(text)), "### DSM-AutoPilot BEGIN ###\n")
        # a file read line by line: only the last line may lack its newline
        text = [l if l.endswith("\n") or i == len(text) - 1 else l + "\n" for i, l in enumerate(text)]
        cases.append(text)
        lines.append("c11 parse " + (enc("".join(text)) if "".join(text) else "%"))
    outs = ctx.driver.ask(lines)
    d = _tf.mkdtemp(prefix="aiuverif_c11p_")
    try:
        for i, (text, o) in enumerate(zip(cases, outs)):
            p = os.path.join(d, f"log_{i % 7}.txt")
            with open(p, "w", newline="") as fh:
                fh.write("".join(text))
            with _cl.redirect_stdout(_io.StringIO()):
                reg = stage.cli_stages(["-c", p, "--freq", "560:800"])
            cs = [r["context"] for r in reg if r["name"] == "compute_utilization"]
            try:
                # the parsed tables are internals of the context (no public accessor): an implementation that keeps them
                # differently is compared through the end-to-end layer alone
                rc = cs[0].rcuctx[0]
                real_tabs = [(list(t.items()), list(rc.kernel_cat_map[f].kernel_cat_map.items())) for f, t in rc.kernel_cycles.items()]
            except (AttributeError, KeyError, IndexError, TypeError):
                ctx.count("logparse_internals_not_observable")
                continue
            n_model = int(o.split(" ")[0][2:])
            body = o.split(" ", 1)[1]
            model_tabs = []
            for tb in ([] if body == "%" else body.split("#")):
                cy, ca = tb.split("|")
                model_tabs.append(([[w.rsplit("=", 1)[0].replace("%20", " "), int(w.rsplit("=", 1)[1])] for w in cy.split(",") if w],
                                   [[w.split("=", 1)[0].replace("%20", " "), w.split("=", 1)[1].replace("%20", " ")] for w in ca.split(",") if w]))
            ctx.count("logparse_cases")
            ctx.count("logparse_rows_stored", sum(len(t[0]) for t in model_tabs))
            if len(real_tabs) != n_model:
                # two tables with one fingerprint share a slot of the real dictionary: not comparable table by table
                ctx.count("logparse_fingerprint_collisions")
                if len(real_tabs) > n_model:
                    ctx.compare("LogParse.parse vs real extract_tables: number of tables", {"log": text}, n_model, len(real_tabs))
                continue
            real_c = [([list(x) for x in cy], [list(x) for x in ca]) for cy, ca in real_tabs]
            model_c = [(cy, ca) for cy, ca in model_tabs]
            if n_model > 1:
                real_c, model_c = sorted(real_c), sorted(model_c)     # the real tables are keyed by fingerprint
            ctx.compare("LogParse.parse vs real RCUUtilizationContext.extract_tables: kernel -> cycles and kernel -> category "
                        "entries of every table, in insertion order", {"log": text}, [list(map(list, t)) for t in model_c],
                        [list(map(list, t)) for t in real_c])
    finally:
        _sh.rmtree(d, ignore_errors=True)


def run(ctx: Ctx):
    cases, reals = [], []
    for case in gen_cases(ctx):
        res = oracle_on_case(ctx, case)
        ks = kernel_slices(res)
        ctx.count("kernel_slices", len(ks))
        ctx.count("slices_with_pt_active", sum(1 for s in ks if s["pt"] is not None))
        ctx.count("slices_capped_at_100", sum(1 for s in ks if s["pt"] == 1))
        ctx.count("slices_without_pt_active", sum(1 for s in ks if s["pt"] is None))
        ctx.count("masked_slices_with_fn_idx", sum(1 for s in ks if "[N]" in s["name"] and s["fn"] is not None))
        ctx.count("masked_slices_with_int_fn_idx_0", sum(1 for s in ks if "[N]" in s["name"] and s["fn"] == ["i", 0]))
        ctx.count("masked_slices_without_fn_idx", sum(1 for s in ks if "[N]" in s["name"] and s["fn"] is None))
        ctx.count("csv_rows", len(res["rows"] or []))
        ctx.count("cases_several_ranks", int(len(case["ranks"]) > 1))
        ctx.count("cases_non_dyadic_core", int(not _dyadic(case["core"])))
        ctx.count("cases_no_stats", int("-t" in case["argv"]))
        ctx.case_done(case, nontrivial=any(s["pt"] is not None for s in ks))
        cases.append(case)
        reals.append(res)
    if ctx.search_mode or not ctx.driver or not ctx.driver.ok:
        return
    log_parse_correspondence(ctx)
    idx = [i for i, r in enumerate(reals) if r["err"] == "ok" and not r["perr"]]
    outs = ctx.driver.ask([model_line(cases[i], reals[i]) for i in idx])
    for i, o in zip(idx, outs):
        cm, cr = canon_pair(cases[i], parse_model(o), reals[i])
        ctx.compare("utilization model vs acelyzer -c (pt_active per kernel slice, PT Active counters per rank, "
                    "categories csv rows in file order)", cases[i], cm, cr)


def shrink(ctx: Ctx, case, classifier):
    def bad(c):
        try:
            res = run_real(c)
        except Exception:
            return False
        if res["err"] != "ok":
            return classifier == "util-run-failed"
        v = oracle(c, res)
        return v is not None and v[0] == classifier
    cur = {k: v for k, v in case.items()}
    changed = True
    while changed:
        changed = False
        for r in range(len(cur["ranks"])):
            for j in range(len(cur["ranks"][r])):
                c2 = dict(cur, ranks=[list(x) for x in cur["ranks"]])
                del c2["ranks"][r][j]
                if bad(c2):
                    cur, changed = c2, True
                    break
            if changed:
                break
        if changed:
            continue
        for j in range(len(cur["log"]["rows"])):
            c2 = dict(cur, log=dict(cur["log"], rows=cur["log"]["rows"][:j] + cur["log"]["rows"][j + 1:]))
            if bad(c2):
                cur, changed = c2, True
                break
    return cur
