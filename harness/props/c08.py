"""C08 — exported events are globally ordered by timestamp, longer slices first on ties.

Tie to /repo:
 (1) translator: the last registration site and the live parameters of its sort context are
     regenerated from the source on every run (`final_sort_last` is re-decided);
 (2) stage-level correspondence: the REAL `sort_events` callback with the REAL contexts the CLI
     registers (per-lane sort #1 and the final global sort, taken from the live registration),
     followed by the real `convert_events`/`from_dict` and a real JsonFileTraceExporter, all driven
     by the real Engine.run, against `batch (sortStage revs global)` + the export projection of the
     Lean driver: exact order (stability included) and exact exported ts/dur;
 (3) e2e oracle from the statement on the exported traceEvents of real acelyzer runs over generated
     multi-rank scenarios x option sets that add late-synthesized events, including inputs whose
     timestamps differ by less than a nanosecond.
Tolerant fields: none (timestamps are on the exact grid; order and values are compared exactly).
"""
from __future__ import annotations

import copy
import json
from fractions import Fraction

from lib import stage, par
from lib.core import Ctx, rat, REPO

ID = "C08"
NEEDS_GEN = True
LEAN_TARGETS = ["AiuVerif.Props.C08"]
THEOREMS = [
    "AiuVerif.C08.final_sort_last",
    "AiuVerif.C08.final_sort_enabled_in_profiles",
    "AiuVerif.C08.sort_batch",
    "AiuVerif.C08.sorted_block",
    "AiuVerif.C08.export_sorted",
    "AiuVerif.C08.export_sorted_all",
    "AiuVerif.C08.tie_rule",
    "AiuVerif.C08.intermediate_invisible",
    "AiuVerif.C08.sort_key_eq_export_key",   # no non-slice event can carry dur into the final sort, for every switch set
]
RULE = ("stage level: random event lists (1..40 events, 1..3 pids x 1..3 tids, ph in X/C/M/s/f, ts from a small pool so "
        "that ties are frequent, plus sub-nanosecond neighbours k/8192 us, dur missing/equal/different) through the real "
        "sort_events + convert_events + exporter; non-trivial = at least one ts tie with different dur or a dur-less "
        "event. e2e: generated multi-rank chain-allreduce scenarios with extra tie/near-tie host events x option sets; "
        "non-trivial = exported list contains ties in ts. distinct = distinct canonical case.")
TRUSTED = ["CPython list.sort is stable and compares key tuples lexicographically (modelled by List.mergeSort + lexLE)",
           "hash((pid, tid)) injective on generated lanes (per-lane sort)"]
ASSUMPTIONS = ["every event reaching the final sort carries `ts` (EventProcessor.sanity_check drops the others at the pipeline "
               "entrance; every synthesized event of the real stages is checked by the e2e oracle)",
               "the exported key equals the sort key only if no non-X event reaches the final sort with a `dur`; this is "
               "checked on the real output by the e2e oracle, not proved (the producers are spread over many stages)"]
NOT_YET_PROVED = ["sort_key_eq_export_key ('no counter/flow/metadata event carries dur at the final sort') is proved for every "
                  "switch combination over the stage-effect table of Model/Export.lean; that table itself (which stage puts a "
                  "dur on a non-slice event, which removes it) is not derived from the stage code but re-observed on the real "
                  "per-stage streams of every -I run of C02's check and by this check's e2e oracle"]
LEVEL_TEXT = ("Lean theorems: the batch semantics of the real sort stage is 'unqueued events, then a stable merge sort' "
              "(sort_batch); for ANY stages in front of the final sort and ANY input the engine output is a sorted permutation "
              "of what reaches that stage (export_sorted/_all, via C03.run_eq_runSpec: nothing buffered anywhere can escape the "
              "final sort); tie_rule spells out the (ts, -dur) order incl. dur-less events last; -I dump stages are invisible; "
              "final_sort_last re-decides on source-generated data that the last registration is the unconditional global "
              "(ts,+),(dur,-) sort over all event types.")
LEVEL_NOTE = ("Trusted: Lean kernel + the three standard axioms; translator (AST + live context objects); the sort/export model is "
              "validated differentially. Not proved: that no non-slice event carries a scratch dur into the final sort (oracle-checked "
              "on real runs; the -c/-t instance was a genuine defect, fixed).")
TECHNIQUE = "Lean 4 proof (engine equation + merge sort lemmas) over source-generated pipeline shape + correspondence run"

OPTION_SETS = [
    [], ["--flow"], ["-t"], ["--keep_prep"], ["--power-stats"], ["--comm_summarize_seq"],
    ["-c", "$COMPLOG"], ["-c", "$COMPLOG", "-t"], ["--flow", "--comm_summarize_seq"], ["-I"],
    ["-M"], ["--disable_tb"], ["-O", "drop"], ["--flow", "-c", "$COMPLOG", "--power-stats"], ["--time_unit", "ms"],
    ["--drop_globals"], ["-F", "X"], ["-F", "XC"], ["-C"], ["--tb"], ["--tb", "--flow"],
]


# ---------------------------------------------------------------------------------------------
# stage level
# ---------------------------------------------------------------------------------------------
_live = {}


def live_sort_contexts():
    """fresh real contexts of the sort_events registrations of the default command line"""
    st = stage.cli_stages([])
    return [s for s in st if s["name"] == "sort_events" and s["registered"]]


def gen_events(rng, n):
    pool = [Fraction(rng.randint(0, 6)) for _ in range(3)]
    evs = []
    for u in range(n):
        base = rng.choice(pool)
        r = rng.random()
        ts = base if r < 0.6 else base + Fraction(rng.randint(1, 3), 8192) if r < 0.8 else Fraction(rng.randint(0, 10 ** 6), 16)
        ph = rng.choice(["X", "X", "X", "C", "M", "s", "f"])
        ev = {"ph": ph, "ts": float(ts), "pid": rng.randint(0, 2), "name": f"e{u}", "args": {"uid": u}}
        if ph in ("X", "s", "f") or rng.random() < 0.5:
            ev["tid"] = rng.randint(0, 2)
        if ph == "X":
            ev["dur"] = float(Fraction(rng.choice([1, 1, 2, 3, 5, 17]), rng.choice([1, 1, 2, 8192])))
        if ph in ("s", "f"):
            ev["id"] = u
            ev["cat"] = "flow"
        if ph == "C":
            ev["args"]["v"] = 1
        if ph == "M":
            ev["args"]["name"] = "x"
        if ph == "C" and rng.random() < 0.2:
            ev["TS_cycles"] = rng.randint(0, 9)
        if ph == "C" and rng.random() < 0.1:
            ev["dur"] = 2.0     # scratch duration on a counter (as the utilization counters carry before cleanup)
        evs.append(ev)
    return evs


def real_sort_export(ctx_rec, events):
    """real sort_events(+its real context, re-created) -> convert_events -> JsonFileTraceExporter via Engine.run"""
    from aiu_trace_analyzer.core.processing import EventProcessor
    from aiu_trace_analyzer.core.engine import Engine
    import aiu_trace_analyzer.export.exporter as output
    import aiu_trace_analyzer.pipeline as ep
    c = ctx_rec["context"]
    newc = ep.EventSortingContext(event_types=c.event_types,
                                  sortkey=",".join(k + (":r" if r < 0 else "") for k, r in c.sortkey),
                                  global_sort=c.global_sort)
    assert newc.sortkey == c.sortkey
    proc = EventProcessor(profile=stage.accepting_profile(["sort_events"]))
    proc.register_stage(ctx_rec["callback"], newc)
    exp = output.JsonFileTraceExporter(target_uri="unused.json", settings={"save_to_file": False, "output": "unused.json"})
    Engine(copy.deepcopy(events), proc, exp).run()
    out = []
    for e in exp.traceview.trace_events:
        uid = e["args"]["uid"] if "args" in e else e["id"]     # flow events are exported without args
        out.append(f"{uid}:{rat(e['ts'])}:{rat(e['dur']) if 'dur' in e else 'none'}")
    return out


def model_line(ctx_rec, events):
    c = ctx_rec["context"]
    revs = ",".join(str(int(r)) for _, r in c.sortkey)
    toks = []
    for e in events:
        acc = 1 if (c.event_types is None or e["ph"] in c.event_types) else 0
        vals = ";".join(rat(e[k]) if k in e else "_" for k, _ in c.sortkey)
        toks.append(f"{e['args']['uid']}:{acc}:{e['pid']}:{e.get('tid', 0)}:{e['ph']}:{rat(e['ts'])}:"
                    f"{rat(e['dur']) if 'dur' in e else '_'}:{vals}")
    return f"c08 sort {1 if c.global_sort else 0} {revs} {','.join(toks) or ','}"


def order_violation(events):
    """the statement, on an exported traceEvents list. returns description or None"""
    prev = None
    for i, e in enumerate(events):
        if "ts" not in e:
            return f"event #{i} ({e.get('name')}) has no ts"
        if prev is not None:
            if e["ts"] < prev["ts"]:
                return f"ts decreases at #{i}: {prev.get('name')}@{prev['ts']!r} before {e.get('name')}@{e['ts']!r}"
            if e["ts"] == prev["ts"]:
                dp, de = prev.get("dur"), e.get("dur")
                if de is not None and (dp is None or dp < de) and not (dp is None and de == 0):
                    return (f"tie at ts={e['ts']!r}: #{i-1} {prev.get('ph')}:{prev.get('name')} dur={dp!r} precedes "
                            f"#{i} {e.get('ph')}:{e.get('name')} dur={de!r}")
        prev = e
    return None


# ---------------------------------------------------------------------------------------------
# e2e
# ---------------------------------------------------------------------------------------------
def build_scenario(spec):
    import random
    from gen import scenario
    rng = random.Random(spec["seed"])
    files = scenario.scenario_events(R=spec["R"], groups=spec["groups"], seed=spec["seed"], kernels=spec["kernels"])
    # extra host slices with ties / sub-nanosecond neighbours across ranks (valid input, arbitrary interleaving)
    he = 1_000_000_000.0
    uid = 0
    for r, (fn, evs) in enumerate(sorted(files.items())):
        extra = []
        for k in range(spec["ties"]):
            t0 = he + 100.0 + 7 * k + (rng.randint(0, 3) / 8192.0 if spec["near"] else 0.0)
            d = rng.choice([1.0, 2.0, 2.0 + 1 / 8192.0, 5.0])
            uid += 1
            a = {"uid": f"x{r}_{uid}"}
            extra.append(({"ph": "B", "ts": t0, "pid": r, "tid": 4242 + (k % 2), "name": f"host_tie_{k}", "args": a},
                          {"ph": "E", "ts": t0 + d, "pid": r, "tid": 4242 + (k % 2), "name": f"host_tie_{k}", "args": a}))
        if r > 0:
            # the ranks do not start at the same time: rank r's first slice lies 20*r us before rank 0's
            uid += 1
            a = {"uid": f"x{r}_{uid}"}
            extra.append(({"ph": "B", "ts": he + 60.0 - 20.0 * r, "pid": r, "tid": 4240, "name": "early_start", "args": a},
                          {"ph": "E", "ts": he + 62.0 - 20.0 * r, "pid": r, "tid": 4240, "name": "early_start", "args": a}))
        pairs = [(evs[i], evs[i + 1]) for i in range(0, len(evs), 2)] + extra
        pairs.sort(key=lambda p: p[0]["ts"])
        files[fn] = [x for p in pairs for x in p]
        # user counter samples in the input: two samples of ONE track at the same instant, a third one half a
        # nanosecond later and a slice that starts in between (never placed between a B and its E)
        tc = he + 150.0
        cs = [{"ph": "C", "name": "usr_counter", "pid": r, "ts": tc, "args": {"v": 3}},
              {"ph": "C", "name": "usr_counter", "pid": r, "ts": tc, "args": {"v": 0}},
              {"ph": "X", "name": "ctr_neighbour", "pid": r, "tid": 4250, "ts": tc + 0.00025, "dur": 0.5, "args": {"uid": f"cn{r}"}},
              {"ph": "C", "name": "usr_counter", "pid": r, "ts": tc + 0.0005, "args": {"v": 2}}]
        L = files[fn]
        k = next((i for i, e in enumerate(L) if e["ts"] > tc and (i == 0 or L[i - 1]["ph"] != "B")), len(L))
        L[k:k] = cs
    return files


def e2e_run(job):
    spec, opts = job
    files = build_scenario(spec)
    if spec.get("shift_probe"):
        # a stage between the sorts rewrites `ts` IN PLACE: with -O shift a slice that starts a few ns before its
        # predecessor on the lane has ended is moved behind that end; a slice of another lane / rank starts inside the
        # few-ns window - the exported order has to follow the timestamps that are written
        names = sorted(files)
        t0 = max((e.get("ts", 0) + e.get("dur", 0) for evs in files.values() for e in evs if isinstance(e.get("ts"), (int, float))),
                 default=0) + 64.0
        pid_of = {fn: next((e["pid"] for e in files[fn] if "pid" in e), i) for i, fn in enumerate(names)}
        for j in range(4):
            b = t0 + 64.0 * j
            fa, fb = names[0], names[-1]
            files[fa] += [{"ph": "X", "name": "shift_a", "pid": pid_of[fa], "tid": 707, "ts": b, "dur": 10.003, "args": {"uid": f"sa{j}"}},
                          {"ph": "X", "name": "shift_b", "pid": pid_of[fa], "tid": 707, "ts": b + 10.0, "dur": 5.0, "args": {"uid": f"sb{j}"}}]
            files[fb] += [{"ph": "X", "name": "shift_other", "pid": pid_of[fb], "tid": 708, "ts": b + 10.0 + [0.002, 0.001, 0.003, 0.004][j],
                           "dur": 1.0, "args": {"uid": f"so{j}"}}]
    if "--tb" in opts and spec["seed"] % 2 == 0:
        # device-only rank files (no host slice at all): the tool synthesizes the process metadata itself
        files = {fn: [e for e in evs if "attr" in e] for fn, evs in files.items()}
    argv = ["--freq", "512"] + [o if o != "$COMPLOG" else str(REPO / "tests/test_data/sample_comp_log_ideal.txt") for o in opts]
    r = stage.e2e(argv, files, want_files=["out.pt.trace.json"] if "--tb" in opts else ())
    evs = r["events"]
    if "--tb" in opts and r["files"].get("out.pt.trace.json"):
        # --tb: the exported trace is the combined <output>.pt.trace.json (per-rank worker files beside it)
        try:
            evs = json.loads(r["files"]["out.pt.trace.json"])["traceEvents"]
        except Exception as e:  # noqa: BLE001
            r["error"] = f"combined TensorBoard trace unreadable: {e}"
    if r["error"] or r["rc"] != 0 or evs is None:
        return {"err": f"rc={r['rc']} error={r['error']}", "viol": None, "n": 0, "ties": 0, "nonX_dur": None}
    ties = sum(1 for a, b in zip(evs, evs[1:]) if a.get("ts") == b.get("ts"))
    viol = order_violation(evs)
    if not viol and spec.get("probe_ties"):
        # second pass: short slices placed EXACTLY at the timestamps of synthesized duration-less events that no
        # slice shares yet (the end of a flow arrow lies 1 ns before the end of its receive slice, a value no input
        # would hit by chance): the statement's tie rule then applies to them
        starts = {e["ts"] for e in evs if e.get("ph") == "X"}
        lone = sorted({e["ts"] for e in evs if e.get("ph") in ("f", "s", "C", "t") and e["ts"] not in starts})
        pick = lone[:: max(1, len(lone) // 6)][:6]
        if pick:
            f0 = sorted(files)[0]
            pid0 = next((e["pid"] for e in files[f0] if "pid" in e), 0)
            for j, t in enumerate(pick):
                x = {"ph": "X", "name": "tie_probe", "pid": pid0, "tid": 505, "ts": t, "dur": [2.0, 0.5][j % 2],
                     "args": {"uid": f"tie{j}"}}
                # never between a B and its E (they are adjacent in the generated files)
                pos = next((i for i, e in enumerate(files[f0]) if e.get("ts", 0) > t and e.get("ph") != "E"),
                           len(files[f0]))
                files[f0].insert(pos, x)
            r2 = stage.e2e(argv, files)
            if r2["error"] or r2["rc"] != 0 or r2["events"] is None:
                return {"err": f"tie-probe pass: rc={r2['rc']} error={r2['error']}", "viol": None, "n": len(evs), "ties": ties}
            evs2 = r2["events"]
            viol = order_violation(evs2)
            if viol:
                viol = f"with short slices added at the timestamps {pick} of synthesized events: " + viol
            ties += sum(1 for a, b in zip(evs2, evs2[1:]) if a.get("ts") == b.get("ts"))
    return {"err": None, "viol": viol, "n": len(evs), "ties": ties}


def oracle_on_case(ctx: Ctx, case, verbose=False):
    if case["kind"] == "stage-big":
        return None         # regenerated by run(); the replay file names the size
    if case["kind"] == "stage":
        recs = live_sort_contexts()
        rec = recs[case["ctx"]]
        out = real_sort_export(rec, case["events"])
        if verbose:
            print("real:", out)
        if rec["context"].global_sort and rec["context"].event_types is None:
            # statement applied to the export of the final-sort stage alone
            by_uid = {e["args"]["uid"]: e for e in case["events"]}
            exported = []
            for tok in out:
                u, ts, d = tok.split(":")
                if int(u) not in by_uid:
                    ctx.violation("export-foreign-event", f"the exporter wrote an event (uid {u}) that is no event of this "
                                                          f"run's stream", case)
                    return out
                exported.append({"name": f"uid{u}", "ph": by_uid[int(u)]["ph"], "ts": Fraction(ts),
                                 **({"dur": Fraction(d)} if d != "none" else {})})
            # inputs of the stage-level stream may carry dur on non-X events (dropped by the exporter): such cases
            # are outside the oracle (the property speaks about the exported order given the pipeline's own events)
            if all(("dur" not in e) or e["ph"] == "X" for e in case["events"]):
                v = order_violation(exported)
                if v:
                    ctx.violation("export-order", "final sort stage + exporter: " + v, case)
            if sorted(int(t.split(":")[0]) for t in out) != sorted(by_uid):
                ctx.violation("export-order", "final sort stage lost or duplicated events", case)
        return out
    res = e2e_run((case["spec"], case["opts"]))
    if verbose:
        print(res)
    if res["err"]:
        ctx.count("e2e_errors")
        ctx.notes.append(f"e2e run failed (reported under C02, not here): {case['opts']} {res['err']}"[:300]) if len(ctx.notes) < 5 else None
    elif res["viol"]:
        ctx.violation("export-order", f"options {case['opts']}: {res['viol']}", case)
    return res


def run(ctx: Ctx):
    rng = ctx.rng
    recs = live_sort_contexts()
    lines, wants, cases = [], [], []
    for it in range(ctx.n(400, 6000)):
        ci = rng.choice([i for i in range(len(recs))])
        evs = gen_events(rng, rng.randint(0, 40) if it % 10 else rng.randint(0, 3))
        case = {"kind": "stage", "ctx": ci, "events": evs}
        out = oracle_on_case(ctx, case)
        tie = any(a["ts"] == b["ts"] and a.get("dur") != b.get("dur") for i, a in enumerate(evs) for b in evs[i + 1:])
        ctx.case_done(case, key=json.dumps(case, sort_keys=True), nontrivial=tie)
        ctx.count(f"stage_ctx_site_{ci}")
        ctx.count("stage_events", len(evs))
        lines.append(model_line(recs[ci], evs))
        wants.append(out)
        cases.append(case)
    # a LARGE stream through the final sort alone (oracle only): nothing may leave a global sort before the input has
    # ended, however many events are pending - slices arrive newest first (as the bandwidth stage re-emits them),
    # metadata and counters with the smallest timestamps arrive last
    recs = live_sort_contexts()
    fin = [i for i, r0 in enumerate(recs) if r0["context"].global_sort and r0["context"].event_types is None]
    for _big in range(ctx.n(1, 3)):
        if not fin:
            break
        n = 33000 + 500 * _big
        evs = [{"ph": "X", "name": "k", "pid": i % 3, "tid": i % 5, "ts": float(n - i), "dur": float(1 + i % 4), "args": {"uid": i}}
               for i in range(n)]
        evs += [{"ph": "M", "name": "process_name", "pid": 0, "ts": 0.0, "args": {"uid": n + j, "name": "p"}} for j in range(3)]
        evs += [{"ph": "C", "name": "c", "pid": 1, "ts": float(5 + j), "args": {"uid": n + 10 + j, "v": 1}} for j in range(3)]
        case = {"kind": "stage-big", "ctx": fin[-1], "n": n}
        out = real_sort_export(recs[fin[-1]], evs)
        prev = None
        bad = None
        for tok in out:
            t = Fraction(tok.split(":")[1])
            if prev is not None and t < prev:
                bad = f"ts decreases from {float(prev)} to {float(t)} in the export of {len(evs)} events through the final sort"
                break
            prev = t
        if bad is None and len(out) != len(evs):
            bad = f"{len(evs)} events in, {len(out)} out of the final sort"
        if bad:
            ctx.violation("export-order", bad, case)
        ctx.count("large_stream_cases")
        ctx.case_done(case, key=("stage-big", n), nontrivial=True)
    # e2e
    jobs = []
    nsc = ctx.n(8, 100)
    rest = OPTION_SETS[1:]
    rng.shuffle(rest)
    for s in range(nsc):
        spec = {"R": rng.randint(1, 4), "groups": rng.randint(1, 2), "kernels": rng.randint(1, 3),
                "seed": rng.randint(0, 10 ** 6), "ties": rng.randint(2, 6), "near": s % 2 == 0}
        if s == 0:
            spec["R"] = 1
        opts_sets = OPTION_SETS if not ctx.quick() else \
            [OPTION_SETS[0]] + [rest[(s * 4 + j) % len(rest)] for j in range(4)]
        if spec["R"] == 1 or spec["groups"] == 0:
            # collective-event building (-R) adds late-synthesized events too; it only runs on traces without
            # multi-rank collectives here (on those the experimental path raises, which is not C08's business)
            opts_sets = opts_sets + [["--flow", "-R"]]
        for o in opts_sets:
            jobs.append((spec, o))
        if spec["R"] >= 2 and spec["groups"] >= 1:
            jobs.append((dict(spec, probe_ties=True), ["--flow"] + ([] if s % 2 else ["-M"])))
        if s % 2 == 1 or not ctx.quick():
            jobs.append((dict(spec, shift_probe=True), ["-O", "shift"] + [["-C", "prep_queue", "power_ts4"], ["-C"], []][(s // 2) % 3]))
    results = par.pmap(e2e_run, jobs)
    for (spec, o), res in zip(jobs, results):
        case = {"kind": "e2e", "spec": spec, "opts": o}
        if res["err"]:
            ctx.count("e2e_errors")
            if len(ctx.notes) < 5:
                ctx.notes.append(f"e2e run failed (judged by C02, not C08): {o} {res['err']}"[:300])
        elif res["viol"]:
            ctx.violation("export-order", f"options {o}: {res['viol']}", case)
        ctx.count("e2e_runs")
        ctx.count("e2e_exported_events", res["n"])
        ctx.count("e2e_ts_ties", res["ties"])
        ctx.case_done(case, key=json.dumps(case, sort_keys=True), nontrivial=res["ties"] > 0)
    if ctx.search_mode or not ctx.driver or not ctx.driver.ok:
        return
    outs = ctx.driver.ask(lines)
    for case, want, got in zip(cases, wants, outs):
        ctx.compare("sortStage + export projection vs real sort_events/convert_events/exporter (order, ts, dur)",
                    case, [g for g in got.split(",") if g], want)


def shrink(ctx: Ctx, case, classifier):
    if case["kind"] != "stage":
        return case
    evs = list(case["events"])

    def bad(e):
        p = Ctx(ctx.id, ctx.tier, ctx.seed)
        p.known = []
        try:
            oracle_on_case(p, dict(case, events=e))
        except Exception:  # noqa: BLE001
            return False
        return bool(p.violations)
    changed = True
    while changed and len(evs) > 1:
        changed = False
        for i in range(len(evs)):
            e2 = evs[:i] + evs[i + 1:]
            if bad(e2):
                evs, changed = e2, True
                break
    return dict(case, events=evs)
