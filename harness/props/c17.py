"""C17 — event limits and filters select exactly the documented subset of events.

Real code, stage level: the command line `--event_limit <json> --event_filter <str>` is parsed and registered
by the real `Acelyzer` (lib.stage.cli_stages), the `normalize_phase1` registration (real callback + the real
`NormalizationContext` / `EventLimiter` built from the parsed options) is cut out and run on the generated
stream inside a real `EventProcessor` / `Engine.run` (lib.stage.run_stages).  Stream B (ill-formed events:
no ts / name / args / jobhash, which `EventProcessor.sanity_check` would not let through) calls the same
callback + context directly.  A sample of cases is also run end to end through the `Acelyzer` API and the
`args.uid` set of the exported json compared with the oracle selection.
Model: `AiuVerif.Limit.run` with the literal-with-anchors regex fragment (`rxMatch`); generated regexes are
restricted to that fragment (`lit`, `^lit`, `lit$`, `^lit$`, literals over [A-Za-z0-9_.x]); in the theorems the
matcher is an arbitrary parameter.
Compared exactly: the sequence of events leaving the stage (uid, ph, normalised name, normalised args without
the added `jobname`) and the exception class that ended the run.  No tolerant field: timestamps are on the 1/16
grid, limits are ints / grid values, comparisons `>=`/`<=` are exact on doubles.

Oracle (from the statement, computed from the input only):
  L  a countable event (ph not in no_count_types) is kept by the limiter iff [ts, ts+dur] intersects
     [ts_start, ts_end] and its 1-based position among the countable intersecting events so far lies in
     (skip, skip+count]                                                           [limit-selection]
  M  events of a no_count_type (metadata) are neither dropped nor counted          [meta-counted-or-dropped]
  F  an X slice that passed the limiter is dropped iff one of the attr:regex pairs matches (Python `re.search`)
     the attribute of the *normalised* event (attr merged into args, hex -> decimal for TS1..5/Power, RDMA->Rdma,
     Receive->Recv, Bytes->bytes); every other slice leaves the stage; filtered slices still count [filter-selection]
  R  no exception on well-typed input                                             [limit-filter-raises]
  N  monotonicity on paired runs of the same stream: a larger count never removes a kept event; at default
     skip/count a larger window never removes a kept event                        [limit-monotone]
  D  regression sentinel (fixed: /repo d1d4f97): two pairs for the same attribute are both active
                                                                                  [filter-duplicate-attribute]
The oracle abstains on ill-typed filters (path running below a scalar, malformed entries) and on ill-formed
events; those are covered by the correspondence (TypeError / KeyError / skip branches).
`window_monotone` is demanded only where skip/count do not bind (DESIGN.md C17: the unrestricted clause
contradicts the statement's own first sentence; Lean witness `window_monotone_general_false`).
"""
from __future__ import annotations

import itertools
import json
import re
from fractions import Fraction

from lib import stage
from lib.core import Ctx, rat

ID = "C17"
LEAN_TARGETS = ["AiuVerif.Props.C17"]
THEOREMS = [
    "AiuVerif.C17.limit_spec",
    "AiuVerif.C17.window_is_intersection",
    "AiuVerif.C17.meta_never_counted_or_dropped",
    "AiuVerif.C17.stage_selects",
    "AiuVerif.C17.filter_spec",
    "AiuVerif.C17.parse_spec",
    "AiuVerif.C17.stage_filter_spec",
    "AiuVerif.C17.filter_past_leaf",
    "AiuVerif.C17.count_monotone",
    "AiuVerif.C17.window_monotone",
    "AiuVerif.C17.window_monotone_general_false",
    "AiuVerif.C17.filter_dup_attr_loses_first",
]
RULE = ("(G) exhaustive: streams of <=2 (thorough <=3) events over a 7-letter alphabet of slices/metadata/counters whose "
        "starts and ends are 0..4 x limit tuples skip,count in {absent,0,1,2}, ts_start,ts_end on the event boundaries "
        "(quick: a 54-tuple sub-grid); (R) random streams of <=14 events x random limits x filter sets over name, "
        "args.*, ph, pid with literal/anchored regexes; (B) ill-formed events and ill-typed filter paths, direct "
        "callback calls; (D) duplicate-attribute sentinel; (E) end-to-end runs. Non-trivial: the limiter or a filter "
        "removes at least one event and keeps at least one, or an error branch fires. distinct = distinct protocol line")
TRUSTED = ["json parsing and argparse glue of Acelyzer._parse_event_limit_type (the real parser is executed, not modelled)",
           "Python `re` outside the literal/anchor fragment (the matcher is a parameter of the theorems)",
           "str() rendering of non-string scalars is supplied by the harness"]
ASSUMPTIONS = ["events reach normalize_phase1 in the order they are fed (end to end: one file, one pid, strictly increasing ts; "
               "the stages before normalize_phase1 leave such slices alone apart from adding args.rank / args.jobhash)",
               "no TS1 key in generated events (the 32-bit correction branch of normalize_phase1 belongs to C05)",
               "int(s, 0) is modelled for sign + 0x/0o/0b/decimal digit strings without '_' and blanks"]
NOT_YET_PROVED = ["regex matching itself (abstract predicate; real `re` in the correspondence on the literal/anchor fragment)"]
LEVEL_TEXT = ("Lean theorems over a model of EventLimiter / NormalizationContext.event_within_limits / extract_eventfilters / "
              "event_filtered / normalize_phase1, for all streams, limit tuples and filter lists: the limiter keeps an event "
              "iff it is of an ignored type or intersects the window with 1-based rank among countable intersecting events in "
              "(skip, skip+count] (limit_spec, window_is_intersection, stage_selects); ignored types are never counted, dropped or changed "
              "(meta_never_counted_or_dropped); on well-typed paths a slice is dropped iff some active pair matches the "
              "nested attribute of the normalised event (filter_spec, parse_spec, stage_filter_spec, stage_selects) and the ill-typed branch is "
              "characterised (filter_past_leaf); count and non-binding window monotonicity; witnesses for the inconsistent "
              "unrestricted window clause and for the duplicate-attribute loss. Tied to the code by running the real "
              "callback/context registered by the real CLI and the compiled model on the same streams.")
LEVEL_NOTE = ("Trusted: Lean kernel; axioms propext, Classical.choice, Quot.sound; hand-written model validated by differential "
              "runs; regex engine abstract; JSON/argparse glue executed but not modelled.")
TECHNIQUE = "Lean 4 proof (induction over the stream with the counter generalised) + model/implementation correspondence run"

HEX = ["TS1", "TS2", "TS3", "TS4", "TS5", "Power"]
_JOB = {}


def jobhash():
    if "h" not in _JOB:
        from aiu_trace_analyzer.types import GlobalIngestData, InputDialectFLEX
        _JOB["h"] = GlobalIngestData.add_job_info("c17_case.json", InputDialectFLEX())
    return _JOB["h"]


# ---------------------------------------------------------------------------------------------
# cases: {"limit": {...}, "filter": str, "events": [event dict with top-level "u"], "direct": bool}
# ---------------------------------------------------------------------------------------------

def ev(u, ph="X", ts=0, dur=None, name="n", pid=0, tid=1, args=None, attr=None, noargs=False):
    e = {"ph": ph, "u": u}
    if ts is not None:
        e["ts"] = ts
    if dur is not None:
        e["dur"] = dur
    if name is not None:
        e["name"] = name
    if pid is not None:
        e["pid"] = pid
    if tid is not None:
        e["tid"] = tid
    if not noargs:
        e["args"] = {"uid": f"u{u}", "jobhash": jobhash()}
        e["args"].update(args or {})
    if attr is not None:
        e["attr"] = dict(attr)
    return e


def _s(x):
    return "%00" if x == "" else str(x).replace(" ", "%20")


def _leaf(v):
    return ("s~" if isinstance(v, str) else "n~") + _s(v if isinstance(v, str) else str(v))


def _dict(d):
    if d is None:
        return "-"
    if not d:
        return "%00"
    return "&".join(f"{_s(k)}~{_leaf(v)}" for k, v in d.items())


def ev_word(e):
    top = {k: v for k, v in e.items() if k not in ("ph", "name", "args", "attr")}
    return ";".join([str(e["u"]), _s(e["ph"]), rat(e["ts"]) if "ts" in e else "-", rat(e["dur"]) if "dur" in e else "-",
                     _s(e["name"]) if "name" in e else "-", _dict(top), _dict(e.get("args")), _dict(e.get("attr"))])


def lim_word(lim):
    return ";".join([str(lim["skip"]) if "skip" in lim else "-", str(lim["count"]) if "count" in lim else "-",
                     rat(lim["ts_start"]) if "ts_start" in lim else "-", rat(lim["ts_end"]) if "ts_end" in lim else "-"])


def line(case):
    lim = case["limit"]
    nct = _s(lim["no_count_types"]) if "no_count_types" in lim else "-"
    evs = "|".join(ev_word(e) for e in case["events"]) or "%00"
    return f"c17 {lim_word(lim)} {nct} {_s(case['filter']).replace(' ', '%20')} {evs}"


def _unleaf(t, v):
    return (t, "" if v == "%00" else v.replace("%20", " "))


def parse_model(s):
    o, err = s[4:].split(" err=")
    out = []
    for w in o.split("|"):
        if not w:
            continue
        uid, ph, name, args = w.split(";")
        if args == "-":
            a = None
        elif args == "%00":
            a = []
        else:
            a = sorted((("" if k == "%00" else k),) + _unleaf(t, v) for k, t, v in (kv.split("~") for kv in args.split("&")))
        out.append([int(uid), "" if ph == "%00" else ph,
                    None if name == "-" else ("" if name == "%00" else name.replace("%20", " ")),
                    [list(x) for x in a] if a is not None else None])
    return {"out": out, "err": err}


def proj_real(e):
    a = e.get("args")
    if isinstance(a, dict):
        a = sorted([k, "s" if isinstance(v, str) else "n", v if isinstance(v, str) else str(v)]
                   for k, v in a.items() if k != "jobname")
    return [e.get("u"), e.get("ph"), e.get("name"), a]


# ---------------------------------------------------------------------------------------------
# real code
# ---------------------------------------------------------------------------------------------

def cli_argv(case):
    argv = ["-D", "0"]
    if case["limit"]:
        argv += ["--event_limit", json.dumps(case["limit"])]
    if case["filter"] != "":
        argv += ["--event_filter", case["filter"]]
    return argv


def phase1_registration(case):
    rec = stage.cli_stages(cli_argv(case))
    r = [x for x in rec if x["name"] == "normalize_phase1"]
    assert len(r) == 1 and r[0]["registered"], "normalize_phase1 is not registered exactly once"
    return r[0]


ERR = {"KeyError": "key", "TypeError": "type"}


def run_real(case):
    import copy
    r = phase1_registration(case)
    evs = copy.deepcopy(case["events"])
    if case.get("direct"):
        out, err = [], None
        for e in evs:
            try:
                out += copy.deepcopy(r["callback"](e, r["context"]))
            except Exception as x:  # noqa: BLE001 - the class is the observable
                err = type(x).__name__
                break
    else:
        out, err = stage.run_stages([(r["callback"], r["context"], r["kwargs"])], evs, deepcopy_input=False)
    return {"out": [proj_real(e) for e in out], "err": ERR.get(err, err) if err else "none"}


def run_e2e(case):
    """the exported args.uid of the X slices, or None if the run failed"""
    split = case.get("split") or [0] * len(case["events"])
    files = {}
    for e, fi in zip(case["events"], split):     # several input files: arrival order is the merged ts order (C15)
        files.setdefault(f"{'abc'[fi]}.json", []).append({k: v for k, v in e.items() if k != "u"})
    if not files:
        files = {"a.json": []}
    # late_meta: metadata records written BEHIND the slices of their file (thread names registered late, a trailing
    # metadata block): never counted, never dropped
    if case.get("late_meta") and case["events"]:
        t_last = max(e["ts"] for e in case["events"])
        last_file = f"{'abc'[split[-1]]}.json"
        for k in range(case["late_meta"]):
            files[last_file].append({"ph": "M", "name": "thread_name", "pid": files[last_file][0]["pid"], "tid": 7,
                                     "ts": t_last + 1 + k, "args": {"name": f"late_meta_{k}"}})
    # rerun: the SAME Acelyzer object analyses the inputs a second time (the documented API allows it); the
    # selection of the second run is the one the statement describes, not a continuation of the first
    # `extra`: switches the selection does not depend on (they register or leave out LATER stages)
    res = stage.e2e(cli_argv(case)[2:] + list(case.get("extra", [])), files,
                    post=(lambda ace: ace.run()) if case.get("rerun") else None)
    if res["rc"] != 0 or res["events"] is None:
        return None, res
    return [e["args"]["uid"] for e in res["events"] if e.get("ph") == "X" and "uid" in e.get("args", {})], res


# ---------------------------------------------------------------------------------------------
# oracle (from the statement; input only)
# ---------------------------------------------------------------------------------------------

DEFAULTS = {"skip": 0, "count": 1 << 60, "ts_start": 0.0, "ts_end": float("inf"), "no_count_types": "M"}


def o_normalised(e):
    a = None
    if "args" in e or "attr" in e:
        a = dict(e.get("args") or {})
        a.update(e.get("attr") or {})
        for k in HEX:
            if isinstance(a.get(k), str):
                try:
                    a[k] = str(int(a[k], 0))
                except ValueError:
                    pass
        if "Bytes" in a:
            a["bytes"] = a.pop("Bytes")
    n = dict((k, v) for k, v in e.items() if k not in ("args", "attr"))
    n["name"] = e["name"].replace("RDMA", "Rdma").replace("Receive", "Recv")
    if a is not None:
        n["args"] = a
    return n


def o_lookup(n, path):
    """('leaf', v) | ('missing',) | ('dict',) | ('ill',)"""
    cur = n
    for i, a in enumerate(path):
        if not isinstance(cur, dict):
            return ("ill",)
        if a not in cur:
            return ("missing",)
        cur = cur[a]
    return ("dict",) if isinstance(cur, dict) else ("leaf", cur)


def o_pairs(flt):
    """list of (attr, regex) or None if the filter string is outside the documented syntax"""
    if flt.strip() == "":
        return []
    pairs = []
    for f in flt.split(","):
        kr = f.split(":")
        if len(kr) != 2 or kr[0] == "":
            return None
        pairs.append((kr[0], kr[1]))
    return pairs


def expected(case):
    """None (oracle abstains) or dict(kept=[uids], fate={uid: why})"""
    lim = dict(DEFAULTS)
    lim.update(case["limit"])
    pairs = o_pairs(case["filter"])
    if pairs is None:
        return None
    nct = lim["no_count_types"]
    rank, kept, fate = 0, [], {}
    for e in case["events"]:
        if any(k not in e for k in ("ts", "name", "pid")) or "args" not in e or "jobhash" not in e["args"]:
            return None
        if len(e["ph"]) != 1:
            return None
        u = e["u"]
        if e["ph"] in nct:
            if e["ph"] == "X":
                return None
            kept.append(u)
            fate[u] = "meta"
            continue
        ts = e["ts"]
        end = ts + e.get("dur", 0)
        if not (end >= lim["ts_start"] and ts <= lim["ts_end"]):
            fate[u] = "outside"
            continue
        rank += 1
        if not (lim["skip"] < rank <= lim["skip"] + lim["count"]):
            fate[u] = "rank"
            continue
        if e["ph"] != "X":
            kept.append(u)
            fate[u] = "kept"
            continue
        n = o_normalised(e)
        hit, hit_last = False, False
        for j, (attr, rx) in enumerate(pairs):
            t = o_lookup(n, attr.split("."))
            if t[0] == "ill":
                return None
            if t[0] == "leaf" and re.search(rx, str(t[1])) is not None:
                hit = True
                hit_last = hit_last or all(a != attr for a, _ in pairs[j + 1:])
        if hit:
            fate[u] = "filtered" if hit_last else "filtered-by-earlier-duplicate"
        else:
            kept.append(u)
            fate[u] = "kept"
    return {"kept": kept, "fate": fate}


def oracle(case, r):
    x = expected(case)
    if x is None:
        return None
    if r["err"] != "none":
        return ("limit-filter-raises", f"well-typed input raises {r['err']}")
    got = [o[0] for o in r["out"]]
    if got == x["kept"]:
        return None
    fate = x["fate"]
    diff = [u for u in fate if (u in got) != (u in x["kept"])]
    u = diff[0] if diff else None
    why = fate.get(u)
    desc = f"event u={u} ({why} by the statement) is {'kept' if u in got else 'dropped'}; kept {got}, expected {x['kept']}"
    if why == "meta":
        return ("meta-counted-or-dropped", desc)
    if why in ("outside", "rank"):
        return ("limit-selection", desc)
    if why == "filtered-by-earlier-duplicate":
        return ("filter-duplicate-attribute", desc)
    if why == "filtered" or (why == "kept" and u not in got):
        if why == "kept" and not case["filter"]:
            return ("limit-selection", desc)
        return ("filter-selection", desc)
    return ("limit-selection", desc)


def oracle_monotone(case, r, ctx: Ctx):
    """paired runs (real code only)"""
    if r["err"] != "none" or expected(case) is None:
        return None
    lim = case["limit"]
    kept = {o[0] for o in r["out"]}
    if "count" in lim:
        c2 = dict(case, limit=dict(lim, count=lim["count"] + ctx.rng.choice([1, 2, 5])))
        k2 = {o[0] for o in run_real(c2)["out"]}
        if not kept <= k2:
            return ("limit-monotone", f"count {lim['count']} -> {c2['limit']['count']} removes {sorted(kept - k2)}", c2)
    if "skip" not in lim and "count" not in lim and ("ts_start" in lim or "ts_end" in lim):
        l2 = dict(lim)
        if "ts_start" in l2:
            l2["ts_start"] = l2["ts_start"] - ctx.rng.choice([0.5, 1, 2])
        if "ts_end" in l2:
            l2["ts_end"] = l2["ts_end"] + ctx.rng.choice([0.5, 1, 2])
        c2 = dict(case, limit=l2)
        k2 = {o[0] for o in run_real(c2)["out"]}
        if not kept <= k2:
            return ("limit-monotone", f"window {lim} -> {l2} removes {sorted(kept - k2)}", c2)
    return None


# ---------------------------------------------------------------------------------------------
# generators
# ---------------------------------------------------------------------------------------------

def alpha(u, j):
    return [
        lambda: ev(u, "X", 0, 1, "a"),
        lambda: ev(u, "X", 1, 1, "a"),
        lambda: ev(u, "X", 2, 0, "a"),
        lambda: ev(u, "X", 3, 1, "a"),
        lambda: ev(u, "M", 0, None, "process_name"),
        lambda: ev(u, "C", 2, None, "ctr"),
        lambda: ev(u, "X", 2.5, 1.5, "a"),
    ][j]()


def gen_grid(ctx: Ctx):
    L = 2 if ctx.quick() else 3
    if ctx.quick():
        skips, counts, starts, ends = [None, 1], [None, 1, 2], [None, 1, 2], [None, 1, 3]
    else:
        skips, counts, starts, ends = [None, 0, 1, 2], [None, 0, 1, 2], [None, 1, 2, 2.5], [None, 0, 1, 3]
    for n in range(0, L + 1):
        for combo in itertools.product(range(7), repeat=n):
            for sk, co, st, en in itertools.product(skips, counts, starts, ends):
                lim = {}
                if sk is not None:
                    lim["skip"] = sk
                if co is not None:
                    lim["count"] = co
                if st is not None:
                    lim["ts_start"] = st
                if en is not None:
                    lim["ts_end"] = en
                yield {"limit": lim, "filter": "", "events": [alpha(i + 1, j) for i, j in enumerate(combo)]}


NAMES = ["AllReduce_RDMA_Send", "Receive_x", "Cmpt_Exec", "foo", "foobar", "barfoo", "DmaI", "RDMA_Receive", "a.b", "x",
         "bar foo", "x Exec", "Exec x", "a foo bar"]
LITS = ["foo", "bar", "Rdma", "RDMA", "Recv", "Receive", "Exec", "a", "x", "16", "0x10", "3", "u1", "", "Cmpt_Exec", "7"]


LIKELY = {"name": ["foo", "Rdma", "Recv", "Exec", "RDMA", "Receive", "a", "x", "Cmpt_Exec", "bar"],
          "args.Type": ["foo", "bar", "3", "attrfoo", "X"], "args.Power": ["16", "0x10", "31", "-16", "7", "abc", "0", "3"],
          "args.TS3": ["3", "7", "0x3"], "args.uid": ["u1", "u2", "u"], "args.bytes": ["16", "7", "3"], "args.Bytes": ["16"],
          "ph": ["X", "M"], "pid": ["0", "16", "1"], "args.k": ["", "a"], "cat": ["foo", "x"], "args.Tag": ["x"],
          "cname": ["bad", "good", "a", "warm"], "comment": ["warm-up", "bad", "o"], "args.cname": ["bad", "good"],
          "args.comment": ["warm", "."]}


def gen_rx(rng, attr=None):
    lit = rng.choice(LIKELY[attr]) if attr in LIKELY and rng.random() < 0.7 else rng.choice(LITS)
    if rng.random() < 0.15:
        # a blank at the edge of the expression is part of it (` Exec$` is "ends in the word Exec")
        lit = rng.choice([" " + lit, lit + " "])
    return ("^" if rng.random() < 0.3 else "") + lit + ("$" if rng.random() < 0.3 else "")


ATTRS = ["name", "args.Type", "args.Power", "args.TS3", "args.uid", "args.bytes", "args.Bytes", "ph", "pid", "args.k", "cat",
         "args.missing", "nokey", "args", "args.Tag", "cname", "comment", "args.cname", "args.comment"]


def gen_filter(rng):
    n = rng.choice([0, 1, 1, 2, 3])
    attrs = rng.sample(ATTRS, n) if rng.random() < 0.7 else [rng.choice(ATTRS[:5]) for _ in range(n)]
    return ",".join(f"{a}:{gen_rx(rng, a)}" for a in attrs)


def gen_limit(rng, evs=None):
    lim = _gen_limit(rng)
    if evs and rng.random() < 0.4:
        # window bounds that ARE boundaries of slices of this stream (a slice that ends exactly at ts_start or starts
        # exactly at ts_end intersects the window), on the 1/16 us grid: not 3-decimal numbers
        xs = [e for e in evs if e.get("ph") == "X" and isinstance(e.get("dur"), (int, float))]
        if xs and rng.random() < 0.7:
            e = rng.choice(xs)
            lim["ts_start"] = e["ts"] + e["dur"]
        if xs and rng.random() < 0.7:
            lim["ts_end"] = rng.choice(xs)["ts"]
    return lim


def _gen_limit(rng):
    lim = {}
    if rng.random() < 0.5:
        lim["skip"] = rng.choice([0, 1, 2, 3, 5])
    if rng.random() < 0.6:
        lim["count"] = rng.choice([0, 1, 2, 3, 4, 8])
    if rng.random() < 0.5:
        lim["ts_start"] = rng.choice([0, 1, 2, 2.5, 3.0625, 5, -1])
    if rng.random() < 0.5:
        lim["ts_end"] = rng.choice([0, 1, 2.5, 4, 6, 9])
    if rng.random() < 0.25:
        lim["no_count_types"] = rng.choice(["M", "MC", "C", "", "Mi"])
    return lim


def gen_stream(rng, n):
    evs, t = [], Fraction(rng.randint(0, 16), 16) if rng.random() < 0.85 else Fraction(rng.randint(-48, -8), 16)
    for u in range(1, n + 1):
        t += rng.choice([0, Fraction(1, 16), Fraction(1, 2), 1, 1, 2])
        ts = float(t) if rng.random() < 0.7 or t.denominator != 1 else int(t)
        k = rng.random()
        if k < 0.7:
            args, attr = {}, None
            if rng.random() < 0.5:
                args["Type"] = rng.choice(["foo", "bar", "Xfoo", "3"])
            if rng.random() < 0.4:
                args["Power"] = rng.choice(["0x10", "16", "0X1f", "abc", "0x", "012", "-0x10", "+7", "0", "00", 16])
            if rng.random() < 0.3:
                args["TS3"] = rng.choice(["0x3", "3", "0b11", "0o7"])
            if rng.random() < 0.3:
                args["Bytes"] = rng.choice([7, 16, "16"])
            if rng.random() < 0.15:
                args["bytes"] = 3
            if rng.random() < 0.2:
                args["k"] = rng.choice(["", "a", "x"])
            if rng.random() < 0.3:
                attr = {}
                if rng.random() < 0.6:
                    attr["Power"] = rng.choice(["0x10", "3"])
                if rng.random() < 0.5:
                    attr["Type"] = "attrfoo"
                if rng.random() < 0.3:
                    attr["Tag"] = "x"
            e = ev(u, "X", ts, rng.choice([0, 0.0625, 1, 1, 2, 3.5]), rng.choice(NAMES), pid=rng.choice([0, 1, 16]),
                   args=args, attr=attr)
            if rng.random() < 0.2:
                e["cat"] = rng.choice(["foo", "x"])
            if rng.random() < 0.2:
                # an optional / free-form top-level entry of the trace-event format (colour name, comment)
                e[rng.choice(["cname", "comment"])] = rng.choice(["bad", "good", "warm-up"])
            evs.append(e)
        elif k < 0.82:
            evs.append(ev(u, "M", rng.choice([0, ts]), None, "process_name"))
        elif k < 0.92:
            evs.append(ev(u, "C", ts, None, "foo"))
        else:
            evs.append(ev(u, rng.choice(["i", "s", "f"]), ts, None, "foo"))
    return evs


def gen_random(ctx: Ctx):
    rng = ctx.rng
    for _ in range(ctx.n(1500, 25000)):
        evs = gen_stream(rng, rng.choice([0, 1, 2, 3, 5, 8, 14]))
        yield {"limit": gen_limit(rng, evs) if rng.random() < 0.8 else {}, "filter": gen_filter(rng) if rng.random() < 0.7 else "",
               "events": evs}


def gen_bad(ctx: Ctx):
    """ill-typed filters / malformed filter strings / ill-formed events; direct callback calls"""
    rng = ctx.rng
    badf = ["name.foo:x", "name.Exec:x", "pid.x:1", "args.Type.oo:f", "args.Type.zz:f", "args.uid.u:1", "name:a:b", "name",
            ",name:foo", "name:foo,", ":foo", "name:", "args.Power.x:1", "ts.x:1", "args.Bytes.1:1", " ", "ph.X:X", "ph.Y:X",
            "name:foo,name:bar", "args.Type:foo,name:x,args.Type:bar"]
    for _ in range(ctx.n(500, 8000)):
        evs = gen_stream(rng, rng.choice([1, 2, 3, 5]))
        for e in evs:
            k = rng.random()
            if k < 0.08:
                e.pop("ts", None)
            elif k < 0.14:
                e.pop("name", None)
            elif k < 0.20:
                e.pop("args", None)
            elif k < 0.26 and "args" in e:
                e["args"].pop("jobhash", None)
            elif k < 0.30:
                e.pop("pid", None)
        flt = rng.choice(badf) if rng.random() < 0.7 else gen_filter(rng)
        yield {"limit": gen_limit(rng) if rng.random() < 0.5 else {}, "filter": flt, "events": evs, "direct": True}


def gen_dup(ctx: Ctx):
    """sentinel D: two pairs for the same attribute, the first one matching a slice"""
    for n in range(ctx.n(4, 12)):
        a, b = [("foo", "bar"), ("^foo$", "x$"), ("Rdma", "Recv"), ("Exec", "Dma")][n % 4]
        evs = [ev(i + 1, "X", i, 1, nm) for i, nm in enumerate(["foo", "bar", "AllReduce_RDMA_Send", "Receive_x", "Cmpt_Exec", "DmaI"])]
        yield {"limit": {}, "filter": f"name:{a},name:{b}", "events": evs}


def gen_cases(ctx: Ctx):
    for name, g in (("G", gen_grid), ("R", gen_random), ("B", gen_bad), ("D", gen_dup)):
        for c in g(ctx):
            yield name, c


# ---------------------------------------------------------------------------------------------

def check_e2e(ctx: Ctx, case, verbose=False):
    x = expected(case)
    got, res = run_e2e(case)
    want = [f"u{u}" for u in x["kept"]]
    if verbose:
        print("argv:", cli_argv(case)[2:], "\nexported uids:", got, "\nstatement selects:", want)
    if got is None:
        ctx.violation("limit-filter-raises", f"end-to-end run failed: rc={res['rc']} {res['error']}", dict(case, e2e=True))
    elif sorted(got) != sorted(want):
        ctx.violation("e2e-selection", f"exported uids {sorted(got)} but the statement selects {sorted(want)}",
                      dict(case, e2e=True))
    elif case.get("late_meta") and case["events"]:
        names = sorted(e["args"]["name"] for e in res["events"] if e.get("ph") == "M" and isinstance(e.get("args"), dict)
                       and str(e["args"].get("name", "")).startswith("late_meta_"))
        if names != [f"late_meta_{k}" for k in range(case["late_meta"])]:
            ctx.violation("e2e-metadata-dropped", f"{case['late_meta']} metadata record(s) follow the slices in the input, "
                          f"exported: {names}", dict(case, e2e=True))


def oracle_on_case(ctx: Ctx, case, verbose=False):
    if case.get("e2e"):
        return check_e2e(ctx, case, verbose)
    if "paired_limit" in case:
        k1 = {o[0] for o in run_real(case)["out"]}
        k2 = {o[0] for o in run_real(dict(case, limit=case["paired_limit"]))["out"]}
        if verbose:
            print("limit", case["limit"], "keeps", sorted(k1), "; limit", case["paired_limit"], "keeps", sorted(k2))
        if not k1 <= k2:
            ctx.violation("limit-monotone", f"{case['limit']} -> {case['paired_limit']} removes {sorted(k1 - k2)}", case)
        return None
    r = run_real(case)
    v = oracle(case, r)
    if verbose:
        print("argv:", cli_argv(case)[2:])
        for e in case["events"]:
            print("  in :", json.dumps(e))
        for o in r["out"]:
            print("  out:", o)
        print("ended with:", r["err"], " oracle expects kept:", (expected(case) or {}).get("kept", "(abstains)"))
        if v:
            print("oracle:", v)
    if v:
        ctx.violation(v[0], v[1], case)
    return r


def nontrivial(case, r):
    n_in = len(case["events"])
    return r["err"] != "none" or (0 < len(r["out"]) < n_in)


def run(ctx: Ctx):
    cases, reals = [], []
    n_mono = 0
    for stream, case in gen_cases(ctx):
        r = oracle_on_case(ctx, case)
        ln = line(case)
        ctx.case_done(case, key=ln, nontrivial=nontrivial(case, r))
        ctx.count("stream_" + stream)
        ctx.count("err_" + r["err"])
        ctx.count("events_in", len(case["events"]))
        ctx.count("events_out", len(r["out"]))
        x = expected(case)
        ctx.count("oracle_decides", int(x is not None))
        if x is not None:
            for w in x["fate"].values():
                ctx.count("fate_" + w.replace("-", "_"))
        if stream == "R" and (n_mono < ctx.n(400, 6000)):
            n_mono += 1
            m = oracle_monotone(case, r, ctx)
            ctx.count("monotone_pairs")
            if m:
                ctx.violation(m[0], m[1], {"limit": case["limit"], "filter": case["filter"], "events": case["events"],
                                           "paired_limit": m[2]["limit"]})
        cases.append((case, ln))
        reals.append(r)
    # end to end: exported args.uid set against the oracle selection
    n_e2e = 0
    for _ in range(ctx.n(60, 600)):
        rng = ctx.rng
        evs = [e for e in gen_stream(rng, rng.choice([3, 6, 10])) if e["ph"] == "X"]
        t = 0.0
        for e in evs:       # strictly increasing ts => arrival order at normalize_phase1 is file order
            t += rng.choice([0.5, 1, 2, 0.1875, 0.0625])
            e["ts"] = t
            e["dur"] = max(e.get("dur", 1), 0.0625)
            if e["name"] == "DmaI":     # off-grammar for the FLEX classifier (C02 finding), not a C17 matter
                e["name"] = "DmaX"
            e["pid"] = evs[0]["pid"]    # one rank per file: ingestion rewrites every pid to the first one (C15)
        split = None
        if evs and rng.random() < 0.4:
            # the same stream cut into 2-3 files that interleave in time, one rank (pid) per file
            nf = rng.choice([2, 2, 3])
            split = [rng.randrange(nf) for _ in evs]
            for e, fi in zip(evs, split):
                e["pid"] = evs[0]["pid"] + fi
        case = {"limit": gen_limit(rng, evs), "filter": gen_filter(rng) if rng.random() < 0.6 else "", "events": evs}
        if split:
            case["split"] = split
        if rng.random() < 0.25:
            case["rerun"] = True
        if evs and rng.random() < 0.3:
            # a filter that names a free-form top-level entry some slices carry (or its args. twin, which none has)
            for e in rng.sample(evs, max(1, len(evs) // 2)):
                e["cname"] = rng.choice(["bad", "good"])
            case["filter"] = rng.choice(["cname:^bad$", "args.cname:.", "cname:ba,name:zzz", "args.cname:bad,cname:good"])
        case["late_meta"] = rng.choice([0, 1, 2])
        case["extra"] = rng.choice([[], [], ["--keep_prep"], ["--drop_globals"], ["-t"], ["--disable_tb"], ["-k"], ["-M"],
                                    ["--flow"], ["-C", "power_ts4"], ["--drop_globals", "-t", "--keep_prep"]])
        case["limit"].pop("no_count_types", None)
        x = expected(case)
        if x is None:
            continue
        n_e2e += 1
        check_e2e(ctx, case)
    ctx.count("e2e_runs", n_e2e)
    ctx.extra["exhaustive"] = False
    ctx.extra["exhaustive_streams"] = "G (stream length <=2 quick / <=3 thorough, limit sub-grid quick / full grid thorough)"
    if ctx.search_mode or not ctx.driver or not ctx.driver.ok:
        return
    outs = ctx.driver.ask([ln for _, ln in cases])
    for (case, _), r, o in zip(cases, reals, outs):
        if o == "bad-op":
            ctx.compare("limit/filter model could not parse the case", case, o, "ok")
            continue
        m = parse_model(o)
        ctx.compare("limit/filter model vs normalize_phase1 with the CLI-registered context (events leaving the stage, error)",
                    case, {"out": m["out"], "err": m["err"]}, {"out": r["out"], "err": r["err"]})


def shrink(ctx: Ctx, case, classifier):
    if case.get("e2e") or "paired_limit" in case:
        return case

    def bad(c):
        try:
            v = oracle(c, run_real(c))
        except Exception:  # noqa: BLE001
            return False
        return v is not None and v[0] == classifier

    cur = json.loads(json.dumps(case))
    changed = True
    while changed:
        changed = False
        for j in range(len(cur["events"])):
            c2 = dict(cur, events=cur["events"][:j] + cur["events"][j + 1:])
            if bad(c2):
                cur, changed = c2, True
                break
        if changed:
            continue
        for k in list(cur["limit"].keys()):
            c2 = dict(cur, limit={a: b for a, b in cur["limit"].items() if a != k})
            if bad(c2):
                cur, changed = c2, True
                break
        if changed:
            continue
        parts = cur["filter"].split(",") if cur["filter"] else []
        for j in range(len(parts)):
            c2 = dict(cur, filter=",".join(parts[:j] + parts[j + 1:]))
            if bad(c2):
                cur, changed = c2, True
                break
    return cur
