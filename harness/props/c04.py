"""C04 — after overlap resolution, slices sharing a pid/tid lane are nested or disjoint.

Real code: the callbacks + contexts that `Acelyzer.register_processing_functions` really registers
for `[]` (-O tid, the default) and `['-O','drop']`, cut from the first `sort_events` through
`detect_partial_overlap_events`, deep-copied per case (fresh state, real constructor arguments;
the module-level barrier context is kept shared as in the CLI) and run inside a real
EventProcessor through the real Engine.run (lib/stage.py).

Correspondence: the compiled Lean model (`Overlap.pipeline`) gets the same events; compared are the
exception class and the ordered list of `(uid, tid)` leaving the last stage (order, moves, drops).
`rnd4` (the model of Python's `round(x, 4)`) is compared separately: `float(model) == round(x, 4)`.

Oracle (from the statement, on the events that leave the real stages; never calls the model):
  * laminar: two output slices on one (pid,tid) are disjoint or nested, ends `ts+dur`, up to the
    0.1 ns (1e-4 us) rounding the tool applies;
  * -O tid: every input event leaves exactly once; only `tid` may differ; a slice whose tid was
    changed is an offending one (it partially overlaps another slice of its input lane); slices of
    different input lanes are on different output lanes; an exception on well-formed input
    (ts >= 0) is accepted only as the documented budget error (KeyError) and only when the slice
    partially overlaps at least max_tid_streams+1 = 6 other slices of its lane;
  * -O drop: the output is a sub-multiset of the input, unchanged, and laminar; no exception on
    well-formed input.
All comparisons are exact; the only tolerance is the 1e-4 us of the statement in the oracle.
"""
from __future__ import annotations

import copy
import itertools
from fractions import Fraction

from lib.core import Ctx, rat
from lib import stage

ID = "C04"
NEEDS_GEN = True
LEAN_TARGETS = ["AiuVerif.Props.C04", "AiuVerif.Props.Order", "AiuVerif.Props.C04Lanes", "AiuVerif.Props.C01Stages"]
THEOREMS = [
    # in FRONT of the overlap stage: the tid mapping never puts two FLEX lanes on one (pid, tid), and recombine_cpu_events
    # leaves every device slice where the mapping put it (Props/C01Stages.lean, compared with the real callbacks by C01)
    "AiuVerif.C01.tidmap_lanes_pidtid",
    "AiuVerif.C01.recombine_device_untouched",
    "AiuVerif.C04.laminar_stage",
    "AiuVerif.C04.laminar_tid",
    "AiuVerif.C04.laminar_drop",
    "AiuVerif.C04.only_tid_changes_stage",
    "AiuVerif.C04.only_tid_changes",
    "AiuVerif.C04.lanes_not_merged",
    "AiuVerif.C04.drop_sublist",
    "AiuVerif.C04.laminar_raw",
    "AiuVerif.C04.no_assert",
    "AiuVerif.C04.drop_total",
    "AiuVerif.C04.no_fuel_exhaustion",
    "AiuVerif.C04.error_is_budget",
    "AiuVerif.C04.lane_budget",
    "AiuVerif.C04.collide_chain_raises",   # converse of the budget branch at stage level
    "AiuVerif.C04.moved_only_if_offending",
    # torch inputs with string tids: the lane names handed out at the end keep a moved slice off the lane it left
    "AiuVerif.C04.moved_never_returns",
    "AiuVerif.C04.same_origin_lanes_distinct",
    "AiuVerif.Order.overlap_order",   # registration order / guards / shared context, re-decided on the generated sites
]
RULE = ("interval families as X events (plus counter events) on (pid,tid) lanes: exhaustive over one lane with "
        "endpoints in {0..4} (all ordered families of <=3 slices, all multisets of 4; zero-length and "
        "identical slices included) in both modes, exhaustive over 3 slices x 4 lanes/2 pids, random "
        "structured populations (<=6 lanes, <=60 slices, coarse 1/16 grid with ties, staircases up to and "
        "beyond the 5-lane budget, a 1/1024 grid where round(.,4) bites, negative ts for the assert branch); "
        "a case is non-trivial when an overlap was resolved (a slice moved or dropped) or an error branch "
        "was taken; distinct = distinct (mode, event list)")
TRUSTED = ["hash((pid, tid)) lane keys assumed injective on the generated domain",
           "torch string tids: hash(<tid string>) assumed injective on the strings of one trace, and no original tid string is "
           "itself of the form '<other tid> (<k>)' (then two DIFFERENT original lanes could be given one name; lanes of one "
           "original lane are proved distinct)",
           "batch composition of the five stages is the engine theorem of C03, not re-proved here",
           "IEEE doubles: on the generated grids every comparison the code performs has the same outcome as on the "
           "exact rationals (grid spacing >> double rounding error)"]
ASSUMPTIONS = ["tids are non-negative integers (tid -1 collides with the code's reserved key)",
               "every event has pid, tid and ts; only -O tid and -O drop are in the model"]
NOT_YET_PROVED = [
    "the converse of the budget branch is proved at stage level for any lane table (collide_chain_raises: colliding on "
    "the own lane and on every lane of the range raises KeyError); that a given INPUT FAMILY drives the lane table into "
    "such a state is shown on a witness (staircase of 7, decide) and by correspondence",
]

TOL = 1e-4          # 0.1 ns in us: the rounding grain of round(ts+dur, 4)
BUDGET = 5          # max_tid_streams default; read off the real context in run()

_cache = {}


# ---------------------------------------------------------------------------------------------
# real code
# ---------------------------------------------------------------------------------------------

def _sub_pipeline(mode):
    """the registered sub-pipeline sort_events#1 .. detect_partial_overlap_events for a mode"""
    if mode not in _cache:
        import aiu_trace_analyzer.logger as aiulog
        lvl = aiulog.loglevel
        reg = [s for s in stage.cli_stages([] if mode == "tid" else ["-O", "drop"]) if s["registered"]]
        aiulog.loglevel = -1
        names = [s["name"] for s in reg]
        i0 = names.index("sort_events")
        i1 = names.index("detect_partial_overlap_events")
        assert i0 < i1
        _cache[mode] = reg[i0:i1 + 1]
        del lvl
    return _cache[mode]


def _fresh(mode):
    import aiu_trace_analyzer.pipeline.barrier as bm
    sub = _sub_pipeline(mode)
    memo = {id(bm._main_barrier_context): bm._main_barrier_context}
    ctxs = copy.deepcopy([s["context"] for s in sub], memo)
    return [(s["callback"], c, s["kwargs"]) for s, c in zip(sub, ctxs)]


def mk_event(e):
    uid, isx, pid, tid, ts, dur = e
    if isx:
        return {"ph": "X", "ts": float(Fraction(ts)), "dur": float(Fraction(dur)), "pid": pid, "tid": tid,
                "name": f"e{uid}", "args": {"uid": uid, "jobname": "job"}}
    return {"ph": "C", "ts": float(Fraction(ts)), "pid": pid, "tid": tid, "name": "cnt",
            "args": {"uid": uid, "v": 1}}


ERRMAP = {"AssertionError": "err:assert", "KeyError": "err:keyerror", "RecursionError": "err:recursion"}


def run_real(case):
    ins = [mk_event(e) for e in case["events"]]
    out, err = stage.run_stages(_fresh(case["mode"]), ins)
    return {"in": ins, "out": out, "err": err}


def canon_real(r):
    if r["err"]:
        return ERRMAP.get(r["err"], "err:other:" + r["err"])
    return "ok " + ",".join(f"{e['args']['uid']}:{e['tid']}" for e in r["out"])


# ---------------------------------------------------------------------------------------------
# oracle
# ---------------------------------------------------------------------------------------------

def _iv(e):
    return (e["ts"], e["ts"] + e["dur"])


def _ivr(e):
    """the slice with the end rounded the way the tool rounds it (0.1 ns)"""
    return (e["ts"], round(e["ts"] + e["dur"], 4))


def offending(p, o):
    """p and o partially overlap: not laminar on the raw ends or not on the tool's rounded ends"""
    return not lam(_iv(p), _iv(o), 0.0) or not lam(_ivr(p), _ivr(o), 0.0)


def lam(a, b, tol):
    (sa, ea), (sb, eb) = a, b
    return (ea <= sb + tol or eb <= sa + tol or (sa <= sb + tol and eb <= ea + tol)
            or (sb <= sa + tol and ea <= eb + tol))


def oracle(case, r):
    mode, ins, out, err = case["mode"], r["in"], r["out"], r["err"]
    by_uid = {e["args"]["uid"]: e for e in ins}
    wellformed = all(e["ts"] >= 0 for e in ins)
    if err:
        if not wellformed:
            return None
        if mode == "tid" and err == "KeyError":
            # documented budget error: some slice partially overlaps >= BUDGET+1 earlier-or-equal-start slices
            lanes = {}
            for e in ins:
                if e["ph"] == "X":
                    lanes.setdefault((e["pid"], e["tid"]), []).append(e)
            for evs in lanes.values():
                for b in evs:
                    n = sum(1 for a in evs if a is not b and a["ts"] <= b["ts"] and offending(a, b))
                    if n >= BUDGET + 1:
                        return None
            return ("overlap-crash", f"KeyError (lane budget) although no slice partially overlaps {BUDGET+1} others on its lane")
        return ("overlap-crash", f"{err} on well-formed input: every slice of the run is lost")
    # identity / field preservation
    seen = {}
    for e in out:
        u = e.get("args", {}).get("uid")
        if u not in by_uid:
            return ("overlap-fields", f"output event without a known uid: {e}")
        seen[u] = seen.get(u, 0) + 1
        if seen[u] > 1:
            return ("overlap-dropdup", f"uid {u} leaves the stage twice")
        o = by_uid[u]
        for k in set(o) | set(e):
            if k == "tid" and mode == "tid" and o["ph"] == "X":
                continue
            if o.get(k) != e.get(k):
                return ("overlap-fields", f"uid {u}: field {k!r} changed from {o.get(k)!r} to {e.get(k)!r}")
    if mode == "tid":
        missing = [u for u in by_uid if u not in seen]
        if missing:
            return ("overlap-dropdup", f"-O tid dropped uid(s) {missing[:5]}")
    else:
        nonx_missing = [u for u, o in by_uid.items() if o["ph"] != "X" and u not in seen]
        if nonx_missing:
            return ("overlap-dropdup", f"-O drop removed non-slice event(s) {nonx_missing[:5]}")
    # laminar output lanes; lanes not merged
    lanes, origin = {}, {}
    for e in out:
        if e["ph"] != "X":
            continue
        L = (e["pid"], e["tid"])
        lanes.setdefault(L, []).append(e)
        o = by_uid[e["args"]["uid"]]
        origin.setdefault(L, set()).add((o["pid"], o["tid"]))
    for L, evs in lanes.items():
        for a, b in itertools.combinations(evs, 2):
            if not lam(_iv(a), _iv(b), TOL):
                return ("overlap-laminar", f"lane {L}: uid {a['args']['uid']} {_iv(a)} and uid {b['args']['uid']} {_iv(b)} "
                                           "partially overlap in the output")
    for L, src in origin.items():
        if len(src) > 1:
            return ("overlap-merge", f"output lane {L} holds slices of different input lanes {sorted(src)}")
    # only offending slices are moved
    if mode == "tid":
        inl = {}
        for e in ins:
            if e["ph"] == "X":
                inl.setdefault((e["pid"], e["tid"]), []).append(e)
        for e in out:
            o = by_uid[e["args"]["uid"]]
            if o["ph"] == "X" and e["tid"] != o["tid"]:
                peers = inl[(o["pid"], o["tid"])]
                if not any((p is not o) and offending(p, o) for p in peers):
                    return ("overlap-moved-innocent", f"uid {o['args']['uid']} {_iv(o)} moved from tid {o['tid']} to {e['tid']} "
                                                      "although it is nested in / disjoint from every slice of its lane")
    return None


# ---------------------------------------------------------------------------------------------
# generators
# ---------------------------------------------------------------------------------------------

def _ev(uid, isx, pid, tid, ts, dur):
    return [uid, 1 if isx else 0, pid, tid, rat(ts), rat(dur)]


def gen_grid_single(ctx: Ctx):
    pts = range(0, 5)
    ivs = [(s, e) for s in pts for e in pts if s <= e]
    full = 3 if ctx.quick() else 4
    multi = [4] if ctx.quick() else [5, 6]
    for n in range(0, full + 1):
        for combo in itertools.product(ivs, repeat=n):
            for mode in ("tid", "drop"):
                yield {"mode": mode, "events": [_ev(i, True, 0, 7, s, e - s) for i, (s, e) in enumerate(combo)]}
    for n in multi:
        for combo in itertools.combinations_with_replacement(ivs, n):
            for mode in ("tid", "drop"):
                yield {"mode": mode, "events": [_ev(i, True, 0, 7, s, e - s) for i, (s, e) in enumerate(combo)]}
    ctx.extra["exhaustive"] = True
    ctx.extra["exhaustive_single_lane"] = f"ordered families <= {full}, multisets of {multi}, endpoints 0..4, s<=e"


def gen_grid_lanes(ctx: Ctx):
    pts = range(0, 4)
    ivs = [(s, e) for s in pts for e in pts if s < e]
    lanes = [(0, 7), (0, 8), (1, 7), (0, 9)]
    opts = [(iv, l) for iv in ivs for l in lanes]
    for n in (2, 3):
        for combo in itertools.product(opts, repeat=n):
            if len({l for _, l in combo}) < 2:
                continue
            yield {"mode": "tid", "events": [_ev(i, True, l[0], l[1], s, e - s) for i, ((s, e), l) in enumerate(combo)]}


TIDS = [0, 1, 2, 5, 6, 7, 11, 12, 1000]


def gen_random(ctx: Ctx, k):
    rng = ctx.rng
    style = k % 8
    mode = "drop" if rng.random() < 0.25 else "tid"
    nl = rng.randint(1, 6)
    lanes = []
    while len(lanes) < nl:
        l = (rng.randint(0, 2), rng.choice(TIDS))
        if l not in lanes:
            lanes.append(l)
    evs = []
    uid = 0
    if style in (0, 1, 2, 3):      # coarse grid with many ties
        unit = Fraction(1, 16) if style % 2 == 0 else Fraction(1)
        span = rng.choice([4, 8, 16, 40])
        for _ in range(rng.randint(2, 60)):
            p, t = rng.choice(lanes)
            s = rng.randint(0, span) * unit
            d = rng.choice([0, 1, 1, 2, 3, 5, 8, span]) * unit
            evs.append(_ev(uid, True, p, t, s, d))
            uid += 1
    elif style in (4, 5):          # staircases: slice i partially overlaps all earlier ones -> needs lane i
        for (p, t) in lanes:
            depth = rng.choice([2, 4, 5, 6, 6, 7, 8]) if style == 4 else rng.randint(1, 6)
            base = rng.randint(0, 5)
            for rep in range(rng.randint(1, 2)):
                off = base + rep * 100
                for i in range(depth):
                    evs.append(_ev(uid, True, p, t, off + i, 20 + rng.choice([0, 0, 1])))
                    uid += 1
                for _ in range(rng.randint(0, 4)):   # nested / touching extras
                    s = off + rng.randint(0, 30)
                    evs.append(_ev(uid, True, p, t, s, rng.choice([0, 1, 2, 20])))
                    uid += 1
        rng.shuffle(evs)
    elif style == 6:               # fine grid: round(ts+dur, 4) is not the identity
        for _ in range(rng.randint(2, 40)):
            p, t = rng.choice(lanes)
            s = Fraction(rng.randint(0, 64), 1024) + rng.choice([0, 1, 2])
            d = Fraction(rng.randint(0, 64), 1024)
            evs.append(_ev(uid, True, p, t, s, d))
            uid += 1
    else:                          # malformed: a negative ts somewhere
        for _ in range(rng.randint(1, 12)):
            p, t = rng.choice(lanes)
            evs.append(_ev(uid, True, p, t, rng.randint(-2, 6), rng.randint(0, 4)))
            uid += 1
    # counters sharing lanes with slices
    for _ in range(rng.choice([0, 0, 1, 3])):
        p, t = rng.choice(lanes)
        ts = rng.randint(0, 10) if style != 7 else rng.randint(-1, 5)
        evs.insert(rng.randint(0, len(evs)), _ev(uid, False, p, t, ts, 0))
        uid += 1
    return {"mode": mode, "events": evs}


TORCH_TIDS = [7, 8, "stream 11", "stream 12"]


def gen_e2e_torch(ctx: Ctx):
    """a torch-profiler style input (TORCH dialect): device slices on numeric AND on string tids ("stream 11"),
    lanes reach the export under their own names, so the lanes-not-merged clause is decided end to end too"""
    rng = ctx.rng
    mode = "drop" if rng.random() < 0.25 else "tid"
    evs, uid = [], 0
    for tid in rng.sample(TORCH_TIDS, rng.randint(1, 3)):
        base = rng.randint(0, 3)
        for i in range(rng.randint(1, 4)):                 # staircase
            evs.append(_ev(uid, True, 0, tid, base + i, 12))
            uid += 1
        for _ in range(rng.randint(0, 6)):
            evs.append(_ev(uid, True, 0, tid, rng.randint(0, 30), rng.choice([1, 1, 2, 3, 5, 12])))
            uid += 1
    rng.shuffle(evs)
    return {"mode": mode, "e2e": True, "torch": True, "events": evs}


def torch_file(case):
    ev = [{"ph": "M", "name": "process_name", "pid": 0, "tid": 0, "ts": 0, "args": {"name": "AIU 0"}}]
    for e in case["events"]:
        uid, _isx, pid, tid, ts, dur = e
        # (the name refinement behind the overlap stages strips digits from torch kernel names: letters only)
        ev.append({"ph": "X", "cat": "kernel", "name": "e_" + "".join(chr(97 + int(c)) for c in str(uid)), "pid": pid, "tid": tid, "ts": 1000.0 + float(Fraction(ts)),
                   "dur": float(Fraction(dur)),
                   "args": {"uid": uid, "External id": uid + 1, "correlation": 100 + uid, "device": 0, "stream": 7}})
    return {"schemaVersion": 1, "deviceProperties": [{"id": 0, "name": "AIU"}], "distributedInfo": {"rank": 0},
            "traceEvents": ev}


def gen_e2e(ctx: Ctx):
    """small populations for the whole CLI (`Acelyzer.run`, final JSON): plain X events, integer times,
    nesting depth within the budget.  The CLI merges host events of a pid into one tid before the
    overlap stage, so only the laminar and the nothing-lost clauses are decided end to end."""
    rng = ctx.rng
    if rng.random() < 0.3:
        return gen_e2e_torch(ctx)
    mode = "drop" if rng.random() < 0.3 else "tid"
    evs, uid = [], 0
    for pid in range(rng.randint(1, 2)):
        base = rng.randint(0, 3)
        for i in range(rng.randint(1, 5)):                 # staircase, depth <= 5
            evs.append(_ev(uid, True, pid, rng.choice([3, 4]), base + i, 12))
            uid += 1
        for _ in range(rng.randint(0, 10)):
            evs.append(_ev(uid, True, pid, rng.choice([3, 4]), rng.randint(0, 30), rng.choice([1, 1, 2, 3, 5, 12])))
            uid += 1
    rng.shuffle(evs)
    return {"mode": mode, "e2e": True, "events": evs, "ext": rng.random() < 0.3, "split": rng.random() < 0.3}


def oracle_e2e(case, res):
    """laminar lanes in the final JSON; -O tid loses nothing and keeps ts/dur/name"""
    if res["rc"] != 0 or res["error"] or res["events"] is None:
        return None, "e2e_not_completed:" + str(res["error"])[:40]
    out = [e for e in res["events"] if e.get("ph") == "X" and "uid" in e.get("args", {})]
    lanes = {}
    for e in out:
        lanes.setdefault((e["pid"], e["tid"]), []).append(e)
    for L, evs in lanes.items():
        for a, b in itertools.combinations(evs, 2):
            if not lam(_iv(a), _iv(b), TOL):
                return ("overlap-laminar", f"final JSON lane {L}: uid {a['args']['uid']} {_iv(a)} and uid "
                                           f"{b['args']['uid']} {_iv(b)} partially overlap"), "e2e_ok"
    if case.get("torch"):
        ins = {x["args"]["uid"]: x for x in torch_file(case)["traceEvents"] if x["ph"] == "X"}
        # lanes are never merged: slices of different input lanes are on different lanes of the export
        src = {}
        for e in out:
            o = ins.get(e["args"]["uid"])
            if o is not None:
                src.setdefault((e["pid"], e["tid"]), set()).add((o["pid"], o["tid"]))
        for L, froms in src.items():
            if len(froms) > 1:
                return ("overlap-merge", f"final JSON lane {L} holds slices of the input lanes {sorted(map(str, froms))}"), "e2e_ok"
    else:
        ins = {e[0]: mk_event(e) for e in case["events"]}
        if case.get("split") and len(case["events"]) >= 2:
            for o in ins.values():
                o["pid"] = mk_event(case["events"][0])["pid"]
    cnt = {}
    for e in out:
        u = e["args"]["uid"]
        cnt[u] = cnt.get(u, 0) + 1
        o = ins.get(u)
        if o is None or cnt[u] > 1:
            return ("overlap-dropdup", f"final JSON: uid {u} unknown or exported twice"), "e2e_ok"
        for k in ("ts", "dur", "name"):
            if o[k] != e[k]:
                return ("overlap-fields", f"final JSON: uid {u} field {k} changed {o[k]!r} -> {e[k]!r}"), "e2e_ok"
    if case["mode"] == "tid" and len(cnt) != len(ins):
        return ("overlap-dropdup", f"final JSON: -O tid lost uid(s) {sorted(set(ins) - set(cnt))[:5]}"), "e2e_ok"
    return None, "e2e_ok"


# switches the statement does not depend on: they register (or leave out) other stages around the overlap
# sub-pipeline.  Chosen from the case so that a case replays identically.
E2E_EXTRA = [[], ["--keep_prep"], ["--drop_globals"], ["-t"], ["--disable_tb"], ["--flow"], ["-k"], ["-M"],
             ["-C", "power_ts4", "prep_queue"], ["--drop_globals", "-t", "--flow"]]


def run_e2e(case):
    extra = E2E_EXTRA[len(case["events"]) % len(E2E_EXTRA)]
    if case.get("torch"):
        extra = [x for x in extra if x not in ("--flow", "-M")]
        return stage.e2e(([] if case["mode"] == "tid" else ["-O", "drop"]) + extra, {"in.json": torch_file(case)})
    evs = [mk_event(e) for e in case["events"]]
    if case.get("ext"):
        # host slices as a framework profiler writes them into a flex-style file (they carry its "External id")
        for e in evs:
            if e["ph"] == "X":
                e["args"]["External id"] = 100 + e["args"]["uid"]
    files = {"in.json": evs}
    if case.get("split") and len(evs) >= 2:
        # two job files of ONE rank feeding the same (pid, tid) lanes: every pid of the second file is that of the first
        p0 = evs[0]["pid"]
        for e in evs:
            e["pid"] = p0
        files = {"a.json": evs[0::2], "b.json": evs[1::2]}
    return stage.e2e(([] if case["mode"] == "tid" else ["-O", "drop"]) + extra, files)


def gen_cases(ctx: Ctx):
    yield from gen_grid_single(ctx)
    yield from gen_grid_lanes(ctx)
    for k in range(ctx.n(2500, 40000)):
        yield gen_random(ctx, k)


# ---------------------------------------------------------------------------------------------

def line(case):
    evs = ";".join(":".join(str(x) for x in e) for e in case["events"]) or "-"
    return f"c04 run {case['mode']} {evs}"


def oracle_on_case(ctx: Ctx, case, verbose=False):
    if case.get("e2e"):
        res = run_e2e(case)
        v, tag = oracle_e2e(case, res)
        ctx.count(tag)
        if verbose:
            print("e2e rc:", res["rc"], res["error"], "X events:", len([e for e in (res["events"] or []) if e.get("ph") == "X"]))
        if v:
            ctx.violation(v[0], v[1], case)
        return res
    r = run_real(case)
    v = oracle(case, r)
    if verbose:
        print("real:", canon_real(r))
        if ctx.driver and ctx.driver.ok:
            print("model:", ctx.driver.ask([line(case)])[0])
    if v:
        ctx.violation(v[0], v[1], case)
    return r


def _stats(ctx, case, r):
    c = canon_real(r)
    if r["err"]:
        ctx.count(c)
        return True
    nx = sum(1 for e in case["events"] if e[1])
    by_uid = {e[0]: e for e in case["events"]}
    moved = sum(1 for e in r["out"] if e["ph"] == "X" and e["tid"] != by_uid[e["args"]["uid"]][3])
    dropped = len(case["events"]) - len(r["out"])
    ctx.count("slices", nx)
    ctx.count("moved", moved)
    ctx.count("dropped", dropped)
    if moved:
        hop = {}
        for e in r["out"]:
            o = by_uid[e["args"]["uid"]]
            if e["ph"] == "X" and e["tid"] != o[3]:
                hop[(o[2], o[3])] = hop.get((o[2], o[3]), set()) | {e["tid"]}
        ctx.count(f"cases_max_hops_{max(len(v) for v in hop.values())}")
    return bool(moved or dropped)


def run(ctx: Ctx):
    global BUDGET
    octx = _sub_pipeline("tid")[-1]["context"]
    BUDGET = max(octx.max_tid_streams, 1)
    ctx.extra["registered_sub_pipeline"] = {m: [s["name"] for s in _sub_pipeline(m)] for m in ("tid", "drop")}
    ctx.extra["max_tid_streams"] = BUDGET
    cases, reals = [], []
    for case in gen_cases(ctx):
        r = oracle_on_case(ctx, case)
        nt = _stats(ctx, case, r)
        ctx.case_done(case, key=line(case), nontrivial=nt)
        if not ctx.search_mode:
            cases.append(case)
            reals.append(canon_real(r))
    # whole CLI, oracle only (final JSON)
    import aiu_trace_analyzer.logger as aiulog
    for _ in range(ctx.n(40, 400)):
        case = gen_e2e(ctx)
        oracle_on_case(ctx, case)
        aiulog.loglevel = -1
        ctx.case_done(case, key="e2e " + line(case), nontrivial=True)
    if ctx.search_mode or not ctx.driver or not ctx.driver.ok:
        return
    # round(x, 4)
    xs = [Fraction(ctx.rng.randint(-2 ** 20, 2 ** 20), 2 ** ctx.rng.randint(0, 14)) for _ in range(ctx.n(400, 4000))]
    xs += [Fraction(2 * k + 1, 20000) for k in range(-4, 12)] + [Fraction(k, 32) for k in range(0, 33)]
    # the lane names of torch slices with string tids: LaneLabel.laneLabel vs RefinementContext._restore_pid_tid
    from aiu_trace_analyzer.pipeline.tb_refinement import RefinementContext
    lab = [(o, k) for o in ("stream 11", "s", "PyTorch Profiler", "stream 7 (1)", "a_b", "x (2)", "Stream#3", "7a")
           for k in range(0, 7)]
    lab_out = ctx.driver.ask([f"c04 label {o.replace(' ', '~')} {k}" for o, k in lab])
    for (o, k), m in zip(lab, lab_out):
        real = RefinementContext._restore_pid_tid({"pid": 0, "tid": hash(o) + k, "args": {"otid": o}})["tid"]
        ctx.compare("LaneLabel.laneLabel vs _restore_pid_tid (lane name of a torch slice k tids above hash(otid))",
                    {"otid": o, "moved": k}, m.replace("~", " "), real)
    outs = ctx.driver.ask([line(c) for c in cases] + [f"c04 rnd4 {rat(x)}" for x in xs])
    for case, real, o in zip(cases, reals, outs):
        ctx.compare("overlap model vs registered sort/overlap stages ((uid,tid) stream leaving the last stage, error class)",
                    case, o.strip(), real.strip())
    for x, o in zip(xs, outs[len(cases):]):
        fx = float(x)
        if Fraction(fx) != x:
            continue
        ctx.compare("rnd4 vs Python round(x, 4)", {"rnd4": rat(x)}, float(Fraction(o)), round(fx, 4))


def shrink(ctx: Ctx, case, classifier):
    if "events" not in case:
        return case
    evs = list(case["events"])

    def bad(es):
        c = dict(case, events=es)
        try:
            v = oracle_e2e(c, run_e2e(c))[0] if case.get("e2e") else oracle(c, run_real(c))
        except Exception:
            return False
        return v is not None and v[0] == classifier
    changed = True
    while changed:
        changed = False
        for j in range(len(evs)):
            e2 = evs[:j] + evs[j + 1:]
            if bad(e2):
                evs, changed = e2, True
                break
    return dict(case, events=evs)


LEVEL_TEXT = ("Lean theorems over an executable model of the registered sub-pipeline sort_events -> detect_partial_overlap_tids -> "
              "barrier -> detect_partial_overlap_events (lane state, overlap test on rounded ends, pruning, TID re-detection on "
              "the next lane of the range, DROP, tid-range construction), for ALL event lists: output lanes are laminar on the "
              "rounded ends and on the true ends up to 0.1 ns (laminar_stage/_tid/_drop/_raw); -O tid emits the sorted input "
              "elementwise with only tid replaced, a permutation of the input (only_tid_changes); slices sharing an output lane "
              "shared the input lane (lanes_not_merged); a moved slice partially overlaps an earlier slice of its input lane "
              "(moved_only_if_offending); -O drop emits a sub-list (drop_sublist) and is total on ts>=0 (drop_total); on ts>=0 no "
              "assert can fire and the only failure is the lane-budget KeyError (no_assert, no_fuel_exhaustion, error_is_budget); "
              "an input lane uses at most 5 extra lanes (lane_budget). Tied to the code by running the really registered stages "
              "and the compiled model on the same interval families (exhaustive small grids with ties, multi-lane grids, random "
              "populations) and diffing the ordered (uid,tid) output stream and the error class; the oracle decides the "
              "statement on every real run, plus on the final JSON of whole-CLI runs.")
LEVEL_NOTE = ("Trusted: Lean kernel; axioms propext, Classical.choice, Quot.sound; the hand-written model is validated against "
              "the real stages by differential runs only; doubles are exact on the generated grids; lane keys are Python hashes; "
              "batch composition of the stages is C03's theorem; the converse budget clause is witness+correspondence only.")
TECHNIQUE = "Lean 4 proof (lane-state invariants over the event stream, induction on the hop fuel, disjoint tid families) + model/implementation correspondence run"
