"""C07 — multi-AIU clock alignment is a rigid per-rank shift, blind to counter epochs.

Correspondence (stage level): the real `mp_sync_tight_v1` callback + a fresh real
`MpSyncTightContext` (taken from `lib.stage.cli_stages(['--freq', f])`, run inside a real
EventProcessor/Engine by `run_stages`) and the Lean model `MpSync.mpSync` get the same events:

  (A) scenario cases: generated multi-rank chain-allreduce traces (2..8 ranks, 0..6 collective
      groups, per-rank counter epochs incl. 32-bit wraps, host clock offsets, host end-time
      jitter, per-group receive jitter, tree/chain naming, AllGather groups, ranks stripped of
      their collectives) are written to a scratch dir, read by the real `MultifileIngest` and run
      through the real prefix pipeline (everything the CLI registers before mp_sync_tight_v1);
      the captured events are the input of both sides.
  (B) synthetic cases: hand-built events in exactly that format — an exhaustive small grid
      (2..3 ranks x 1..2 groups x tie patterns of TS2/TS5 x tree/chain) and a random stream with
      multi-event queues, ties, and malformed events (no args / dur / ts_dev, short ts_dev,
      pid gaps, negative pids, other phases) for the error branches.  (Events without ph/ts/pid/name
      never reach a stage: EventProcessor.sanity_check drops them, so these four are total in the model.)

Compared exactly (all values are dyadic rationals on the exact grid, no tolerant field): the
error class, or the emitted sequence of (uid, ts, dur, args.ts_dev, args.ts_all).  Also compared:
`ts_dev == counters / freq` (`convDev`) on the device events of every scenario and the op-id
classifier on a name grid.

Oracle (from the statement, never calls the model), on every real execution:
  * per-rank rigid shift: for every device slice `ts - TSa/f` (TSa from the generator's ground
    truth counters) is one value per rank; durations equal those before the stage; host-only
    slices are byte-identical; nothing lost or duplicated;
  * single-rank or collective-free traces: ts and dur of every event unchanged;
  * well-formed scenarios do not raise;
  * paired runs that differ only by a constant added to all cycle counters of one rank give
    identical results — at stage level (prefix + mp_sync) for every scenario and end to end
    (`lib.stage.e2e`, exported JSON) for a sample: identical (ph,name,pid,tid,ts,dur) sequences,
    identical per-uid placement, plus the rigid-shift / host-untouched oracle on the export.
"""
from __future__ import annotations

import contextlib
import copy
import io
import itertools
import os
import random
import shutil
import tempfile
from fractions import Fraction

from lib import stage
from lib.core import Ctx, enc, rat
from gen import scenario as gsc

ID = "C07"
LEAN_TARGETS = ["AiuVerif.Props.C07", "AiuVerif.Props.C07Link"]
THEOREMS = [
    "AiuVerif.C07.rigid_shift",
    "AiuVerif.C07.rigid_shift_counters",
    "AiuVerif.C07.no_action",
    "AiuVerif.C07.single_rank_untouched",
    "AiuVerif.C07.collective_free_untouched",
    "AiuVerif.C07.sorted_out",
    "AiuVerif.C07.epoch_invariant",
    "AiuVerif.C07.epoch_counters",
    "AiuVerif.C07.epoch_dependent_chain3",
    "AiuVerif.C07.old_formula_displaces_rank0",
    "AiuVerif.C07.epoch_invariant_all_ranks",   # any per-rank constants at once (with C05: K per rank is invisible)
]
RULE = ("scenario cases: generated chain-allreduce traces (R ranks, G groups, epochs, host offsets, jitter, naming "
        "variant) pushed through the real ingestion + prefix pipeline; synthetic cases: event lists in the same "
        "format (exhaustive tie grid + random/malformed). Non-trivial = the alignment branch ran (>= 2 ranks with "
        "collectives and >= 1 group of rank 0) or an error branch fired; distinct = distinct model input lines")
TRUSTED = ["hash((pid, CollGroup)) is injective on the queue keys (modelled as the pair itself)",
           "numpy float64 max / argmin / subtraction behave as documented; doubles are exact on the generated grid",
           "copy.deepcopy of the buffered events is a value copy",
           "list.sort is a stable sort (the model uses the stable insertion sort; the result of a stable sort is unique)",
           "the stage-level input is what the real prefix pipeline (ingestion .. tighten_hts_by_instr_type) produced; "
           "those stages are not modelled here (C05/C06), only `ts_dev = TSi/freq` is (convDev)"]
ASSUMPTIONS = ["types.GlobalIngestData._jobmap (class-level, survives between in-process runs; crc32(path) % 10000 keys can collide "
               "with entries of earlier runs) is cleared before each real run of this check: one process per CLI call is "
               "emulated; cross-run hidden state is C14's subject",
               "epoch invariance end to end relies on the 32-bit wrap normalisation (C05) giving every counter of a rank "
               "the same multiple of 2^32; the theorem is about the stage: a constant added to every ts_dev of one rank",
               "epoch_invariant is stated for device events with pid >= 0 (a negative pid aliases a rank through "
               "Python's negative list index)"]
NOT_YET_PROVED = []
LEVEL_TEXT = ("Lean theorems over an executable model of MpSyncTightContext.drain (gather, group list of rank 0, "
              "AllGather removal, tree/chain decision, send/receive matching, reference offset, per-rank shift, "
              "reversal + stable sort), for all event lists: rigid per-rank placement ts' = ts_dev[op] + offset(pid) "
              "with durations and host-only events untouched, identity up to the sort for single-rank / collective-free "
              "input, sortedness, and invariance of the whole output (except the scratch ts_dev) under a constant "
              "added to all counters of one rank. Tied to the code by running the real stage and the compiled model on "
              "the same events (captured from the real prefix pipeline, plus synthetic grids) and diffing exactly.")
LEVEL_NOTE = ("Trusted: Lean kernel; axioms propext, Classical.choice, Quot.sound; model validated by differential runs; "
              "IEEE doubles assumed exact on the grid; stages before mp_sync are exercised for real but not modelled here.")
TECHNIQUE = "Lean 4 proof (list induction, linear arithmetic over Rat) + model/implementation correspondence run"

M32 = 1 << 32
KW = [" DmaI", " Cmpt Prep", " Cmpt Exec", " DmaO"]
ERRMAP = {"KeyError": "keyerror", "IndexError": "indexerror", "SystemExit": "exit", "AssertionError": "assert",
          "ValueError": "valueerror"}


@contextlib.contextmanager
def quiet():
    with contextlib.redirect_stdout(io.StringIO()):
        yield


def _silence():
    import aiu_trace_analyzer.logger as aiulog
    aiulog.loglevel = -1


def _fresh_process_state():
    """emulate one process per CLI call: the class-level job map of the ingestion survives between in-process
    runs and its `crc32(path) % 10000` keys eventually collide (a FLEX file then inherits another dialect)"""
    try:
        from aiu_trace_analyzer.types import GlobalIngestData
        if isinstance(getattr(GlobalIngestData, "_jobmap", None), dict):
            GlobalIngestData._jobmap.clear()
    except Exception:
        pass


# ---------------------------------------------------------------------------------------------
# generators
# ---------------------------------------------------------------------------------------------

def chain_allreduce_v(ranks, gid, t, seq0, cg, rj, xfer=50, nbytes=524288):
    """chain all-reduce like gen.scenario.chain_allreduce with (i) a free CollGroup name, (ii) per-receiver
    jitter `rj[r]` (us) on the receive completion (TS2), (iii) short multicast XSEG slices so that wide
    traces do not exhaust the overlap TID space of later stages."""
    R = len(ranks)
    cur, post = t, t
    for r in range(R - 1):
        sync = f"{cg}_s{r}_r{r+1}_{2*r}"
        s_start, s_end = cur, cur + xfer
        ranks[r].dev_event(f"SenRdmaSend_{seq0+r} [sync={sync}] DmaO", gsc.TID_SEND,
                           [post, post, s_start, s_start, s_end],
                           {"Bytes": str(nbytes), "CollGroup": cg, "Peer": str(r + 1), "Type": "SingleCast"})
        j = rj[r + 1]
        ranks[r + 1].dev_event(f"SenRdmaReceive_{seq0+10+r} [{nbytes}B] [sync={sync}] DmaI", gsc.TID_RECV,
                               [post, s_end + j, s_end + 1 + j, s_end + 1 + j, s_end + 2 + j],
                               {"Bytes": str(nbytes), "CollGroup": cg, "Peer": str(r), "Type": "WDone Barrier"})
        kt = s_end + 2 + j
        ts5 = [post, post, kt, kt + 20, kt + 21]
        ranks[r + 1].dev_event(f"{cg}_Add_{2*r+1} Cmpt Prep", gsc.TID_PREP, ts5, {"CollGroup": cg})
        ranks[r + 1].dev_event(f"{cg}_Add_{2*r+1} Cmpt Exec", gsc.TID_EXEC, ts5, {"CollGroup": cg})
        cur = kt + 21
    last = R - 1
    sync = f"{cg}_s{last}_r0x7_{2*last}"
    peers = ",".join(str(p) for p in range(R - 1))
    sq = seq0 + 30
    ranks[last].dev_event(f"SenRdmaSend_{sq} - Set BcList [sync={sync}] DmaO", gsc.TID_SEND,
                          [post, post, cur, cur, cur + 10], {"CollGroup": cg, "Peers": peers, "Type": "Set BCList"})
    for p in range(R - 1):
        ranks[last].dev_event(f"SenRdmaSend_{sq} - Xseg to rank {p} [sync={sync}] DmaO", gsc.TID_SEND,
                              [post, post, cur + 1 + p, cur + 1 + p, cur + 1.5 + p],
                              {"CollGroup": cg, "Peer": str(p), "Type": "MultiCast XSEG"})
    d_end = cur + xfer + 20
    ranks[last].dev_event(f"SenRdmaSend_{sq} Data [sync={sync}] DmaO", gsc.TID_SEND,
                          [post, post, cur + 10, cur + 10, d_end],
                          {"Bytes": str(nbytes), "CollGroup": cg, "Type": "MultiCast"})
    for p in range(R - 1):
        j = rj[p]
        ranks[p].dev_event(f"SenRdmaReceive_{seq0+40+p} [{nbytes}B] [sync={sync}] DmaI", gsc.TID_RECV,
                           [post, d_end + j, d_end + 1 + j, d_end + 1 + j, d_end + 2 + j],
                           {"Bytes": str(nbytes), "CollGroup": cg, "Peer": str(last), "Type": "WDone Barrier"})
    return d_end + 4


def build_files(spec):
    """{file name: [events]} of a scenario spec; deterministic in the spec (replayable)."""
    rnd = random.Random(spec["seed"])
    R, G, f = spec["R"], spec["G"], spec["freq"]
    ranks = [gsc.Rank(r, float(f), float(spec["host_epochs"][r]), int(spec["dev_epochs"][r])) for r in range(R)]
    style = spec.get("cg_style", "all_reduce")
    allgather = set(spec.get("allgather", []))
    t = 100.0
    for g in range(G):
        tt = t
        for r in range(R):
            tt = t
            for k in range(spec["kernels"]):
                tt = gsc.kernel(ranks[r], f"mm_{k}", tt + 3)
            ranks[r].host_event("AIU Roundtrip", 77, t, tt + 1)
        t = tt + 10
        if g in allgather:
            cg = f"AllGather_all_gather_{g+1}"
        elif style == "all_reduce":
            cg = f"AllReduce_all_reduce_{g+1}"
        else:
            cg = f"AllReduce_ar_{g+1}"
        rj = [rnd.choice([0, 0, 0.25, 0.5, 0.75]) if spec.get("rjit") else 0 for _ in range(R)]
        if R >= 2:
            t = chain_allreduce_v(ranks, g + 1, t, 1000 * (g + 1), cg, rj, xfer=rnd.choice([20, 50, 80])) + 10
    for r in range(R):
        tt = gsc.kernel(ranks[r], "final_9", t + 5)
        ranks[r].host_event("hostwork", 78, t, tt + 2)
    files = {}
    strip = spec.get("strip_rank")
    for rk in ranks:
        if spec.get("only_ranks") is not None and rk.r not in spec["only_ranks"]:
            continue
        evs = rk.event_list()
        for i in range(0, len(evs), 2):
            b, e = evs[i], evs[i + 1]
            if "attr" in b:
                if spec.get("ejit"):
                    e["ts"] += rnd.choice([0, 0, 0.25, 1.0, 2.5])   # host end-time noise; tighten anchors on it
                if strip is not None and rk.r == strip and "CollGroup" in b["attr"]:
                    del b["attr"]["CollGroup"]      # b and e share the attr dict
        files[f"trace_rank_{rk.r}.json"] = evs
    return files


def with_epoch_shift(spec, r, K):
    s2 = copy.deepcopy(spec)
    s2["dev_epochs"][r] = s2["dev_epochs"][r] + K
    return s2


def random_spec(rng, wide=False):
    R = rng.randint(2, 8) if not wide else rng.randint(5, 8)
    G = rng.randint(1, 6 if R <= 5 else 3)
    f = rng.choice([512, 512, 256, 1024])
    tot = 1 << 22    # generous bound on the cycles a trace spans
    de = []
    for _ in range(R):
        c = rng.random()
        if c < 0.25:
            de.append(M32 - rng.randrange(0, tot, 64))           # a 32-bit wrap inside or right before the trace
        elif c < 0.35:
            de.append(rng.randrange(0, 4096))
        else:
            de.append(rng.randrange(0, M32, 512))
    he = [1_000_000_000.0 + rng.choice([0, 17, 250, 1000, 0.5]) for _ in range(R)]
    spec = {"kind": "scenario", "R": R, "G": G, "freq": f, "dev_epochs": de, "host_epochs": he,
            "kernels": rng.randint(0, 3), "seed": rng.randrange(1 << 30),
            "cg_style": rng.choice(["all_reduce", "ar"]), "rjit": rng.random() < 0.7, "ejit": rng.random() < 0.7,
            "allgather": [], "strip_rank": None, "wellformed": True}
    c = rng.random()
    if c < 0.15:
        spec["allgather"] = sorted(rng.sample(range(G), rng.randint(1, G)))
    if rng.random() < 0.12:
        # device counters of all ranks already aligned to the cycle (one common epoch, ideal transfers): every
        # computed shift is exactly 0, yet the host clocks differ and jitter - the rigid re-basing onto rank 0's
        # host clock still has to happen
        spec["dev_epochs"] = [de[0]] * R
        spec["rjit"] = False
        spec["host_epochs"] = [1_000_000_000.0 + rng.choice([0, 17, 37.5, 250, 1000]) * i for i in range(R)]
        spec["ejit"] = True
    return spec


def special_specs(rng):
    """single rank, collective-free, and the not-well-formed variants (error / no-action branches)"""
    out = []
    base = random_spec(rng)
    for R, G in [(1, 0), (1, 2), (2, 0), (4, 0)]:
        s = copy.deepcopy(base)
        s.update(R=R, G=G, dev_epochs=[rng.randrange(0, M32, 512) for _ in range(R)],
                 host_epochs=[1_000_000_000.0 + 10 * i for i in range(R)], allgather=[])
        out.append(s)
    for R, keep in [(2, [0]), (3, [1]), (4, [0])]:      # one rank of a multi-rank job analysed alone
        s = random_spec(rng)
        s.update(R=R, G=2, only_ranks=keep, allgather=[], dev_epochs=[rng.randrange(0, M32 // 2, 512) for _ in range(R)],
                 host_epochs=[1_000_000_000.0] * R)
        out.append(s)
    for R, sr in [(2, 0), (2, 1), (3, 0), (3, 1), (3, 2), (4, 2)]:
        s = random_spec(rng)
        s.update(R=R, G=max(1, min(s["G"], 3)), strip_rank=sr, wellformed=False, allgather=[],
                 dev_epochs=[rng.randrange(0, M32 // 2, 512) for _ in range(R)],
                 host_epochs=[1_000_000_000.0 + 10 * i for i in range(R)])
        out.append(s)
    return out


# -- synthetic events in the format the prefix pipeline produces --------------------------------

def syn_dev(uid, pid, name, hts, cnt, f=512, cg=None, ph="X", tid=1):
    """device slice: counters `cnt` (5 ints), phase by name, host end anchored like tighten_hts_by_instr_type"""
    op = next((i for i, k in enumerate(KW) if k in name), None)
    dev = [c / f for c in cnt]
    if op is None:
        dur = dev[4] - dev[0]
        ts = float(hts)
        all_ = [ts + (d - dev[0]) for d in dev]
    else:
        dur = dev[op + 1] - dev[op]
        ts = float(hts)
        all_ = [ts + dur + (d - dev[op + 1]) for d in dev]
    a = {f"TS{i+1}": str(c) for i, c in enumerate(cnt)}
    a.update({"true_TS": list(cnt), "ts_dev": dev, "ts_all": all_, "uid": f"s{uid}"})
    if cg is not None:
        a["CollGroup"] = cg
    return {"ph": ph, "pid": pid, "tid": tid, "name": name, "ts": ts, "dur": float(dur), "args": a}


def syn_host(uid, pid, name, ts, dur, tid=9):
    return {"ph": "X", "pid": pid, "tid": tid, "name": name, "ts": float(ts), "dur": float(dur), "args": {"uid": f"s{uid}"}}


PAT = [(0, 0), (0, 1), (1, 1)]      # (TS2, TS5) offsets in us of a collective event: ties and strict orders


def grid_cases(ctx: Ctx):
    """exhaustive: R in {2,3}, G in {1,2}, one collective event per (rank, group), every assignment of PAT"""
    f = 512
    shapes = [(2, 1), (2, 2), (3, 1)] + ([(3, 2)] if not ctx.quick() else [])
    for R, G in shapes:
        for tree in (True, False):
            for pats in itertools.product(range(len(PAT)), repeat=R * G):
                yield _grid_case(R, G, tree, pats, f)
    if ctx.quick():     # a sample of the large shape
        for _ in range(ctx.n(150, 0)):
            yield _grid_case(3, 2, ctx.rng.random() < 0.5, [ctx.rng.randrange(3) for _ in range(6)], f)


def _grid_case(R, G, tree, pats, f):
    evs, uid = [], 0
    for r in range(R):
        base = 1000 * (r + 1) * f
        evs.append(syn_host(uid, r, "hostwork", 5 + r % 2, 3)); uid += 1
        evs.append(syn_dev(uid, r, "mm Cmpt Exec", 7, [base, base, base + f, base + 3 * f, base + 3 * f], f)); uid += 1
        for g in range(G):
            a, b = PAT[pats[r * G + g]]
            cgname = f"AllReduce_all_reduce_{g}" if tree else f"AllReduce_ar_{g}"
            t0 = base + (10 + 10 * g) * f
            cnt = [t0, t0 + a * f, t0 + a * f, t0 + a * f, t0 + b * f]
            nm = f"Send_{g} [sync={cgname}_x] " + ("DmaO" if (r + g) % 2 == 0 else "DmaI")
            evs.append(syn_dev(uid, r, nm, 20 + 10 * g, cnt, f, cg=cgname)); uid += 1
    return {"kind": "synthetic", "events": evs, "wellformed": True, "tag": f"grid R{R} G{G}", "freq": f}


def random_synthetic(rng, malformed):
    f = rng.choice([256, 512, 1024])
    R = rng.randint(1, 5)
    G = rng.randint(0, 3)
    pids = list(range(R))
    if malformed and rng.random() < 0.3 and R >= 2:
        pids[rng.randrange(1, R)] = rng.choice([R, R + 2, 7])      # gap in the rank numbering
    cgs = []
    for g in range(G):
        k = rng.random()
        cgs.append(f"AllReduce_all_reduce_{g}" if k < 0.4 else f"AllReduce_ar_{g}" if k < 0.75 else f"AllGather_{g}")
    evs, uid = [], 0
    for r, pid in enumerate(pids):
        base = rng.randrange(0, 1 << 20) * f
        for _ in range(rng.randint(0, 2)):
            evs.append(syn_host(uid, pid, "hostwork", rng.randint(0, 6), rng.randint(1, 4))); uid += 1
        for _ in range(rng.randint(0, 2)):
            c0 = base + rng.randint(0, 40) * f
            inc = [rng.randint(0, 2) * f // rng.choice([1, 2]) for _ in range(4)]
            cnt = [c0, c0 + inc[0], c0 + inc[0] + inc[1], c0 + sum(inc[:3]), c0 + sum(inc)]
            nm = "k" + rng.choice(KW + ["", " Cmpt Prep x DmaO", "Cmpt Exec"])
            evs.append(syn_dev(uid, pid, nm, rng.randint(0, 8), cnt, f)); uid += 1
        for g, cg in enumerate(cgs):
            if malformed and rng.random() < 0.12:
                continue                                       # rank without a queue for this group
            for _ in range(rng.randint(1, 3)):
                c0 = base + (50 + 20 * g) * f + rng.randint(0, 3) * f
                inc = [rng.randint(0, 2) * f for _ in range(4)]
                cnt = [c0, c0 + inc[0], c0 + inc[0] + inc[1], c0 + sum(inc[:3]), c0 + sum(inc)]
                nm = rng.choice([f"Send_{g} [sync={cg}_s] DmaO", f"Recv_{g} [sync={cg}_s] DmaI", f"Recv_{g} DmaI",
                                 f"{cg}_Add Cmpt Exec", f"plain_{g}"])
                evs.append(syn_dev(uid, pid, nm, rng.randint(10, 16), cnt, f, cg=cg,
                                   ph=("b" if malformed and rng.random() < 0.05 else "X"))); uid += 1
    if malformed:
        for _ in range(rng.randint(0, 2)):      # device / host events on odd pids
            c0 = rng.randrange(0, 1 << 20) * f
            evs.append(syn_dev(uid, rng.choice([-1, -2, R, R + 1, 0]), "odd DmaO", 3, [c0, c0, c0, c0, c0 + f], f)); uid += 1
        for e in evs:
            k = rng.random()
            if k < 0.03:
                del e["args"]
            elif k < 0.09:
                del e["dur"]
            elif k < 0.12 and "ts_dev" in e["args"]:
                del e["args"]["ts_dev"]
            elif k < 0.15 and "ts_dev" in e["args"]:
                e["args"]["ts_dev"] = e["args"]["ts_dev"][:rng.randint(0, 4)]
            elif k < 0.18:
                e["ph"] = rng.choice(["b", "e", "i", "C", "M"])
            elif k < 0.20 and "TS5" in e["args"]:
                del e["args"]["TS5"]
    rng.shuffle(evs)
    for i, e in enumerate(evs):
        if "args" in e and "uid" in e["args"]:
            e["args"]["uid"] = f"s{i}"
    return {"kind": "synthetic", "events": evs, "wellformed": not malformed, "freq": f,
            "tag": "random" + ("-malformed" if malformed else "")}


# ---------------------------------------------------------------------------------------------
# real code
# ---------------------------------------------------------------------------------------------

def _cli(freq):
    with quiet():
        st = stage.cli_stages(["--freq", str(freq)])
    _silence()
    names = [s["name"] for s in st]
    i = names.index("mp_sync_tight_v1")
    assert all(s["registered"] for s in st[:i + 1])
    return st, i


def prefix_events(files, freq):
    """real ingestion + every stage the CLI registers before mp_sync_tight_v1; returns (events, error)"""
    import aiu_trace_analyzer.ingest.ingestion as ingest
    tmp = tempfile.mkdtemp(prefix="aiuverif_c07_")
    _fresh_process_state()
    try:
        paths = []
        for n, evs in files.items():
            p = os.path.join(tmp, n)
            stage.write_trace(p, evs)
            paths.append(p)
        with quiet():
            imp = ingest.MultifileIngest(source_uri=",".join(paths), show_warnings=False, direct_data=None)
            raw = [e for e in imp]
        st, i = _cli(freq)
        pre = [(s["callback"], s["context"], s["kwargs"]) for s in st[:i]]
        out, err = stage.run_stages(pre, raw, deepcopy_input=False)
        return out, err
    finally:
        shutil.rmtree(tmp, ignore_errors=True)


def real_sync(events, freq=512):
    """the real stage on `events` (tagged with vuid); returns (output events, error class or None)"""
    st, i = _cli(freq)
    s = st[i]
    try:
        out, err = stage.run_stages([(s["callback"], s["context"], s["kwargs"])], events)
    except SystemExit:
        out, err = [], "SystemExit"
    return out, err


def tag(events):
    evs = copy.deepcopy(events)
    for i, e in enumerate(evs):
        e["vuid"] = i
    return evs


def case_events(case):
    """the stage input of a case (tagged), its freq, and the prefix error if any"""
    if case["kind"] == "synthetic":
        return tag(case["events"]), case.get("freq", 512), None
    files = build_files(case)
    evs, err = prefix_events(files, case["freq"])
    return tag(evs), case["freq"], err


# ---------------------------------------------------------------------------------------------
# protocol
# ---------------------------------------------------------------------------------------------

def _lst(v):
    if v is None:
        return "~"
    if len(v) == 0:
        return "!"
    return "|".join(rat(x) for x in v)


def _opt(v):
    return "~" if v is None else rat(v)


def ev_field(e):
    a = e.get("args")
    has = isinstance(a, dict)
    cg = a.get("CollGroup") if has else None
    return ",".join([
        str(e["vuid"]), enc(e["ph"]), str(int(e["pid"])), enc(e["name"]), rat(e["ts"]), _opt(e.get("dur")),
        "1" if has else "0", "~" if cg is None else enc(cg), "1" if has and "TS5" in a else "0",
        _lst(a.get("ts_dev") if has else None), _lst(a.get("ts_all") if has else None)])


def sync_line(events):
    return "c07 sync " + " ".join(ev_field(e) for e in events)


def canon_out(out):
    res = []
    for e in out:
        a = e.get("args") if isinstance(e.get("args"), dict) else {}
        res.append(":".join([str(e["vuid"]), _opt(e.get("ts")), _opt(e.get("dur")), _lst(a.get("ts_dev")), _lst(a.get("ts_all"))]))
    return res


def canon_real(out, err):
    if err:
        return "err:" + ERRMAP.get(err, "other-" + err)
    return "ok # " + " ".join(canon_out(out))


def split_model(ans):
    """-> (comparable string, info dict)"""
    if not ans.startswith("ok "):
        return ans, {}
    head, _, tail = ans.partition(" # ")
    info = dict(kv.split("=") for kv in head.split()[1:])
    return "ok # " + tail.strip(), info


# ---------------------------------------------------------------------------------------------
# oracle (from the statement; on the real output only)
# ---------------------------------------------------------------------------------------------

def phase_start_idx(name):
    for i, k in enumerate(KW):
        if k in name:
            return i
    return 0


def is_dev(e):
    return isinstance(e.get("args"), dict) and "TS5" in e["args"]


def _strip_scratch(e):
    e = copy.deepcopy(e)
    if isinstance(e.get("args"), dict):
        e["args"].pop("ts_dev", None)
        e["args"].pop("ts_all", None)
    return e


def oracle_stage(inp, out, err, freq, wellformed):
    """inp/out: tagged events before/after the real stage. Returns (classifier, desc) or None."""
    if err:
        if wellformed:
            return ("mp-sync-raises", f"well-formed multi-rank scenario makes mp_sync_tight_v1 raise {err}")
        return None
    by_in = {e["vuid"]: e for e in inp}
    if sorted(e["vuid"] for e in out) != sorted(by_in):
        return ("mp-sync-lost-event", "events lost or duplicated by the alignment stage")
    pids = {e["pid"] for e in inp}
    any_coll = any(isinstance(e.get("args"), dict) and "CollGroup" in e["args"] for e in inp)
    offs = {}
    for e in out:
        i = by_in[e["vuid"]]
        if not is_dev(i):
            if e != i:
                return ("mp-sync-host-touched", f"host-only event {i.get('name')} pid={i.get('pid')} changed: {i} -> {e}")
            continue
        if e.get("dur") != i.get("dur"):
            return ("mp-sync-dur-changed", f"duration of {i['name']} pid={i['pid']} changed {i.get('dur')} -> {e.get('dur')}")
        if _strip_scratch({**e, "ts": 0}) != _strip_scratch({**i, "ts": 0}):
            return ("mp-sync-event-changed", f"fields other than ts/ts_dev/ts_all of {i['name']} changed")
        if len(pids) <= 1 or not any_coll:
            if e.get("ts") != i.get("ts"):
                return ("mp-sync-shift-without-alignment",
                        f"single-rank or collective-free trace, yet {i['name']} pid={i['pid']} moved {i['ts']} -> {e['ts']}")
            continue
        if wellformed and "true_TS" in i["args"] and "ts" in e:
            tsa = Fraction(i["args"]["true_TS"][phase_start_idx(i["name"])], 1) / Fraction(freq)
            offs.setdefault(e["pid"], {}).setdefault(Fraction(e["ts"]) - tsa, i["name"])
    for pid, d in offs.items():
        if len(d) > 1:
            (o1, n1), (o2, n2) = list(d.items())[:2]
            return ("mp-sync-not-rigid", f"rank {pid}: ts - TSa/f is {rat(o1)} for '{n1}' but {rat(o2)} for '{n2}' "
                    f"({len(d)} distinct offsets)")
    return None


def oracle_pair_stage(case, r, K):
    """prefix + real stage on the scenario and on its epoch-shifted twin; identical placement expected"""
    res = []
    for spec in (case, with_epoch_shift(case, r, K)):
        evs, perr = prefix_events(build_files(spec), spec["freq"])
        if perr:
            return None      # the prefix pipeline is not this property's business
        evs = tag(evs)
        out, err = real_sync(evs, spec["freq"])
        # identity across the two runs: the generator's uid (vuid order may differ if the prefix order differs)
        res.append((err, [(e["args"].get("uid"), rat(e["ts"]), rat(e["dur"])) for e in out]))
    (e1, p1), (e2, p2) = res
    if e1 != e2:
        return ("mp-sync-epoch-dependent", f"adding {K} cycles to all counters of rank {r}: error {e1} vs {e2}")
    if p1 != p2:
        d1, d2 = dict((u, (t, d)) for u, t, d in p1), dict((u, (t, d)) for u, t, d in p2)
        diff = [(u, d1[u], d2.get(u)) for u in d1 if d1[u] != d2.get(u)]
        what = f"{len(diff)} slices placed differently, e.g. {diff[:2]}" if diff else "same placement, different emitted order"
        return ("mp-sync-epoch-dependent", f"adding {K} cycles to all counters of rank {r} changes the aligned output: {what}")
    return None


def export_view(events):
    seq = []
    for e in events:
        seq.append((e.get("ph"), e.get("name"), e.get("pid"), e.get("tid"), rat(e["ts"]) if "ts" in e else None,
                    rat(e["dur"]) if "dur" in e else None))
    return seq


def oracle_e2e(case, files, res):
    """rigid shift / untouched host slices / durations on the exported JSON of one run"""
    if res["error"] or res["rc"] != 0 or res["events"] is None:
        if case.get("wellformed"):
            return ("e2e-fails", f"acelyzer fails on a well-formed scenario: rc={res['rc']} {res['error']}")
        return None
    f = Fraction(case["freq"])
    host_in = {}
    for evs in files.values():
        for b, e in zip(evs[::2], evs[1::2]):
            if "args" in b:
                host_in[b["args"]["uid"]] = (b["ts"], e["ts"] - b["ts"])
    offs = {}
    single = case["R"] <= 1 or case["G"] == 0 or len(files) <= 1
    for e in res["events"]:
        if e.get("ph") != "X" or "uid" not in e.get("args", {}):
            continue
        a = e["args"]
        if "true_TS" in a:
            nm = a.get("orig_name", e["name"])
            k = phase_start_idx(nm)
            tt = a["true_TS"]
            pe = k + 1 if any(kw in nm for kw in KW) else 4
            if Fraction(e["dur"]) != Fraction(tt[pe] - tt[k]) / f:
                return ("e2e-dur", f"exported dur of {nm} rank {e['pid']} is {e['dur']}, cycle delta/f is {float(Fraction(tt[pe]-tt[k])/f)}")
            if not single:
                offs.setdefault(e["pid"], {}).setdefault(Fraction(e["ts"]) - Fraction(tt[k]) / f, nm)
        else:
            if (e["ts"], e["dur"]) != host_in.get(a["uid"]):
                return ("e2e-host-touched", f"host-only slice {e['name']} rank {e['pid']}: exported {(e['ts'], e['dur'])}, input {host_in.get(a['uid'])}")
    for pid, d in offs.items():
        if len(d) > 1:
            (o1, n1), (o2, n2) = list(d.items())[:2]
            return ("e2e-not-rigid", f"exported rank {pid}: ts - TSa/f is {rat(o1)} for '{n1}' but {rat(o2)} for '{n2}'")
    return None


def oracle_pair_e2e(case, r, K, argv=()):
    argv = ["--freq", str(case["freq"]), *argv]
    runs = []
    for spec in (case, with_epoch_shift(case, r, K)):
        files = build_files(spec)
        _fresh_process_state()
        with quiet():
            res = stage.e2e(argv, files)
        _silence()
        v = oracle_e2e(spec, files, res)
        if v:
            return v
        runs.append(res)
    a, b = runs
    if a["events"] is None or b["events"] is None:
        return None
    va, vb = export_view(a["events"]), export_view(b["events"])
    if va != vb:
        n = next((i for i, (x, y) in enumerate(zip(va, vb)) if x != y), min(len(va), len(vb)))
        return ("e2e-epoch-dependent", f"adding {K} cycles to all counters of rank {r} changes the exported timeline "
                f"(first difference at event {n}: {va[n] if n < len(va) else None} vs {vb[n] if n < len(vb) else None}; "
                f"{len(va)} vs {len(vb)} events)")
    return None


# ---------------------------------------------------------------------------------------------
# check
# ---------------------------------------------------------------------------------------------

def oracle_on_case(ctx: Ctx, case, verbose=False):
    """run the REAL code on one case; returns (tagged input, real output, error, freq)"""
    if case["kind"] == "pair":
        spec, r, K = case["spec"], case["rank"], case["K"]
        v = oracle_pair_e2e(spec, r, K, case.get("argv", ())) if case.get("e2e") else oracle_pair_stage(spec, r, K)
        if verbose:
            print("pair verdict:", v)
        if v:
            ctx.violation(v[0], v[1], case)
        return None
    inp, freq, perr = case_events(case)
    if perr:
        if case.get("wellformed"):
            ctx.notes.append(f"prefix pipeline raised {perr} on a generated scenario (not a C07 matter)")
        return None
    out, err = real_sync(inp, freq)
    v = oracle_stage(inp, out, err, freq, case.get("wellformed", False))
    if verbose:
        print("stage error:", err)
        for e in out[:40]:
            print(" ", e.get("vuid"), e.get("pid"), e.get("name"), e.get("ts"), e.get("dur"))
        print("verdict:", v)
    if v:
        ctx.violation(v[0], v[1], case)
    return inp, out, err, freq


NAME_GRID = ["", "x", "Cmpt Prep", "a Cmpt Prep", "a Cmpt Exec", "a DmaI", "a DmaO", "a DmaO b DmaI", "a Cmpt Exec Cmpt Prep",
             "DmaI", "a  DmaI", "a Cmpt  Prep", "SenRdmaSend_1 [sync=AllReduce_all_reduce_1_s0_r1_0] DmaO", " DmaO DmaO",
             "a Cmpt PrepX", "a dmai", "x DmaIx DmaO"]


def run(ctx: Ctx):
    from aiu_trace_analyzer.pipeline.timesync import get_opIds_from_event
    _silence()
    cases = []
    cases += list(grid_cases(ctx))
    ctx.extra["exhaustive_grid"] = "R in {2,3} x G in {1,2} x tree/chain x all (TS2,TS5) tie patterns" + \
        (" (R3xG2 sampled)" if ctx.quick() else "")
    for _ in range(ctx.n(400, 4000)):
        cases.append(random_synthetic(ctx.rng, malformed=False))
    for _ in range(ctx.n(600, 6000)):
        cases.append(random_synthetic(ctx.rng, malformed=True))
    scen = special_specs(ctx.rng)
    for _ in range(ctx.n(140, 800)):
        scen.append(random_spec(ctx.rng))
    cases += scen

    lines, keep, conv_lines, conv_real = [], [], [], []
    for case in cases:
        r = oracle_on_case(ctx, case)
        if r is None:
            continue
        inp, out, err, freq = r
        lines.append(sync_line(inp))
        keep.append((case, canon_real(out, err), err))
        if case["kind"] == "scenario":
            devs = [e for e in inp if is_dev(e) and "ts_dev" in e["args"]]
            for e in ctx.rng.sample(devs, min(12, len(devs))):
                conv_lines.append(f"c07 conv {freq} " + "|".join(str(int(e["args"][f"TS{i}"])) for i in range(1, 6)))
                conv_real.append(_lst(e["args"]["ts_dev"]))
            ctx.count("scenario_ranks_%d" % case["R"])
            if any(d + (1 << 22) >= M32 for d in case["dev_epochs"]):
                ctx.count("scenario_with_counter_wrap")

    # paired runs (oracle only): epoch shift of one rank, stage level for every multi-rank scenario, e2e for a sample
    multi = [s for s in scen if s["R"] >= 2 and s.get("wellformed") and s.get("only_ranks") is None]
    n_e2e = ctx.n(60, 300)
    for k, spec in enumerate(multi):
        r = ctx.rng.randrange(spec["R"])
        K = ctx.rng.choice([512 * ctx.rng.randrange(1, 1 << 20), ctx.rng.randrange(1, 1 << 30), -512 * ctx.rng.randrange(1, 1000)])
        if spec["dev_epochs"][r] + K < 0:
            K = -K
        pc = {"kind": "pair", "spec": spec, "rank": r, "K": K, "e2e": False}
        oracle_on_case(ctx, pc)
        ctx.count("pair_stage")
        ctx.case_done(pc, key=("pair", k), nontrivial=spec["G"] > 0)
        if k < n_e2e:
            pe = dict(pc, e2e=True, argv=[[], ["--keep_prep"], ["--flow"], ["--keep_prep", "-O", "drop"], ["--drop_globals"], ["-t"],
                                            ["--drop_globals", "--keep_prep"], ["--power-stats"]][k % 8])
            oracle_on_case(ctx, pe)
            ctx.count("pair_e2e")
            ctx.case_done(pe, key=("pair-e2e", k), nontrivial=spec["G"] > 0)
    # single-rank / collective-free end to end
    for spec in [s for s in scen if s["R"] <= 1 or s["G"] == 0 or s.get("only_ranks") is not None]:
        files = build_files(spec)
        _fresh_process_state()
        with quiet():
            res = stage.e2e(["--freq", str(spec["freq"]), "--keep_prep"], files)
        _silence()
        v = oracle_e2e(spec, files, res)
        if v:
            ctx.violation(v[0], v[1], spec)
        ctx.count("e2e_single_or_collective_free")

    if ctx.search_mode or not ctx.driver or not ctx.driver.ok:
        for case, real, err in keep:
            ctx.case_done(case if case["kind"] == "scenario" else {"kind": "synthetic", "tag": case["tag"]}, key=real,
                          nontrivial=True)
        return
    name_lines = ["c07 opid " + enc(n) for n in NAME_GRID]
    answers = ctx.driver.ask(lines + conv_lines + name_lines)
    a_sync, a_conv, a_names = answers[:len(lines)], answers[len(lines):len(lines) + len(conv_lines)], answers[len(lines) + len(conv_lines):]
    for (case, real, err), line, ans in zip(keep, lines, a_sync):
        model, info = split_model(ans)
        small = case if case["kind"] == "scenario" else {"kind": "synthetic", "tag": case["tag"], "events": case["events"]}
        ctx.compare("mp_sync model vs real mp_sync_tight_v1 + MpSyncTightContext (error class / emitted uid,ts,dur,ts_dev,ts_all)",
                    small, model, real)
        acted = info.get("act") == "1"
        ctx.count("act" if acted else ("error:" + model[4:] if model.startswith("err:") else "no_action"))
        if acted:
            ctx.count("tree" if info.get("tree") == "1" else "chain")
            ctx.count("np_%s" % info.get("np"))
            ctx.count("groups_%s" % info.get("ng"))
        sample = case if case["kind"] == "scenario" else {"kind": "synthetic", "tag": case["tag"], "n_events": len(case["events"])}
        ctx.case_done(sample, key=line, nontrivial=acted or model.startswith("err:"))
    for line, real, ans in zip(conv_lines, conv_real, a_conv):
        ctx.compare("convDev vs args.ts_dev produced by the real prefix pipeline", line, ans, real)
    for n, ans in zip(NAME_GRID, a_names):
        ctx.compare("opId vs get_opIds_from_event", n, ans, str(int(get_opIds_from_event({"name": n}))))
    ctx.count("conv_compared", len(conv_lines))


def shrink(ctx: Ctx, case, classifier):
    """greedy reduction on the real code: fewer events (synthetic) / smaller scenario (spec)"""
    probe = Ctx(ctx.id, ctx.tier, ctx.seed)
    probe.known = []

    def bad(c):
        probe.violations.clear()
        try:
            oracle_on_case(probe, c)
        except Exception:
            return False
        return any(v["classifier"] == classifier for v in probe.violations)

    if case["kind"] == "synthetic":
        evs = list(case["events"])
        changed = True
        while changed:
            changed = False
            for j in range(len(evs)):
                c2 = dict(case, events=evs[:j] + evs[j + 1:])
                if bad(c2):
                    evs, changed = c2["events"], True
                    break
        return dict(case, events=evs)
    spec = case["spec"] if case["kind"] == "pair" else case

    def wrap(s):
        return dict(case, spec=s) if case["kind"] == "pair" else s
    changed = True
    while changed:
        changed = False
        for key, lo in (("G", 1), ("kernels", 0), ("R", 2)):
            if spec[key] > lo:
                s2 = copy.deepcopy(spec)
                s2[key] -= 1
                if key == "R":
                    s2["dev_epochs"], s2["host_epochs"] = s2["dev_epochs"][:-1], s2["host_epochs"][:-1]
                    if case["kind"] == "pair" and case["rank"] >= s2["R"]:
                        continue
                s2["allgather"] = [g for g in s2.get("allgather", []) if g < s2["G"]]
                if bad(wrap(s2)):
                    spec, changed = s2, True
                    break
        for key in ("rjit", "ejit"):
            if spec.get(key):
                s2 = dict(copy.deepcopy(spec), **{key: False})
                if bad(wrap(s2)):
                    spec, changed = s2, True
    return wrap(spec)
