"""C09 — flow arrows connect each matched send to its receive, with unique paired ids.

Correspondence (stage level): generated streams of slices are run through the REAL
`flow_prepare_event_data -> flow_extraction -> flow_data_cleanup` (callbacks and the
CollectiveGroupingContext exactly as `Acelyzer.register_processing_functions` registers them for
`--flow`, inside a real EventProcessor driven by the real Engine.run) and through the Lean model
`Flow.runFlow`; the complete output streams (pass-through events, `s`/`f` events, their order, ids,
names, positions, error class) are diffed.  `flow_prepare_event_data` alone is diffed on a grid of
names/`args` (helper keys sync / Peers / Type / cat), and `detect_final` on permuted complete and
damaged groups through the real context's `insert` + `detect_final`.

Oracle (from the statement, on the real output only): every flow id on exactly one `s` and one `f`
with equal names; `s` at (pid, tid, ts) of a SingleCast / MultiCast XSEG slice and named by that
slice's sync tag; `f` (bp=e) on the peer the send names, inside the end of a WDone Barrier slice
with the same sync tag; for structurally complete chain-allreduce groups every such send with a
completed matching receive has exactly one pair; no ph=F event in the output.  The same oracle runs
end to end on the exported JSON of `acelyzer --flow` for generated multi-rank scenarios.

Open known finding reproduced and classified, not hidden: classifier "flow-prefix-final" — in a
structurally complete chain group the only arrows missing are multicast-segment (XSEG) arrows, the
group was emitted while a later event of the same CollGroup still arrives (stage level: its s/f
events precede a later slice of the group in the output stream; end to end: some of its arrows are
exported), and the input shows the situation of the finding: an event of another group arrives
strictly after the end of everything of the group seen so far while more of the group follows.
Any other missing arrow is "flow-missing-arrow" (a VIOLATION).

Tolerant fields (non-dyadic literal 0.001): `ts` of `f` events only (1e-9 relative).  Everything
else is compared exactly on the exact grid (integer / 1/16 us times below 2^32).
"""
from __future__ import annotations

import copy
import itertools
import re
from fractions import Fraction

import json
from lib.core import Ctx, enc, rat
from lib import stage

ID = "C09"
NEEDS_GEN = True
LEAN_TARGETS = ["AiuVerif.Props.C09", "AiuVerif.Props.Order"]
THEOREMS = [
    "AiuVerif.C09.ids_paired",
    "AiuVerif.C09.f_has_s",
    "AiuVerif.C09.placement",
    "AiuVerif.C09.no_helper_out",
    "AiuVerif.C09.extraction_consumes_helpers",
    "AiuVerif.C09.complete_group_detected",
    "AiuVerif.C09.every_send_paired_partial",
    "AiuVerif.C09.prefix_final_loses_multicast",
    "AiuVerif.Order.flow_order",   # registration order / guards, re-decided on the generated sites
]
RULE = ("stage-level streams: (i) exhaustive histories up to a length bound over a 14-symbol alphabet of helper "
        "slices (two CollGroups, chain/multicast sync groups, short and covering durations); (ii) random chain-"
        "allreduce scenarios, 2..8 ranks, 1..5 groups, receives pre-posted or just-in-time, sequential or "
        "interleaved groups with foreign events in the gap before the multicast part, truncated trailing groups, "
        "duplicated sync tags, stale gaps, locally permuted arrival, compute slices in between; (ii-b) 2..3 complete "
        "pre-posted groups whose starts differ by 0..8 us (several groups complete at the same incoming event) followed "
        "by a later group, exhaustive offsets + random; (iii) malformed "
        "streams for the error branches; (iv) a grid of names x args for flow_prepare_event_data; (v) permuted "
        "complete / damaged groups for detect_final; (vi) end-to-end acelyzer --flow runs. A case is non-trivial "
        "when at least one flow pair is created or an error branch / stale drop fires; distinct = distinct "
        "canonical input")
TRUSTED = ["hash() of CollGroup / sync strings assumed injective (dict keys of the real code are hashes)",
           "the stage-level run uses the three flow stages only; mp_calc_bw / calculate_stats, which the default "
           "CLI registers between flow_extraction and flow_data_cleanup, are covered by the end-to-end oracle only",
           "event names contain no newline and only ASCII (regex `.`/`$`/`\\s`/`\\d` corner cases not modelled)",
           "copy.deepcopy = value copy"]
ASSUMPTIONS = ["-R / build_coll_event is outside the model (flow pairs are built before that branch)",
               "drain against 1e30: a never-final group with latest_ts >= ~1e30 makes the real loop spin; the "
               "model has an explicit `hang` branch, the generators never reach it"]
NOT_YET_PROVED = [
    "completeness for ALL complete groups (every single-cast / multicast-segment send with a completed matching receive "
    "gets exactly one pair): false of the current code - open finding flow-prefix-final, Lean witness "
    "prefix_final_loses_multicast. Proved as every_send_paired_partial under NoPrefixFinal (no strict prefix of the "
    "group's events satisfies detect_final) and WithinStaleWindow (trace shorter than 4 x drop_threshold = 20 s, a "
    "sufficient condition for 'no stale drop'; the weaker 'gaps < 4*max(duration, 5 s)' is covered by the "
    "correspondence run only)",
    "end-to-end clause 'with --flow ... exported': the three stages are modelled; the stages registered between them and "
    "the final sort (mp_calc_bw, calculate_stats, tb refinement, export) are covered by the end-to-end oracle only",
]

SEND_TYPES = ("SingleCast", "MultiCast XSEG")
TID_SEND, TID_RECV, TID_CMPT = 1300, 1400, 1500
_sync_re = re.compile(r" \[sync=(.*)\]")


# ---------------------------------------------------------------------------------------------
# encoding for the model
# ---------------------------------------------------------------------------------------------

def _peer_enc(v):
    if v is None:
        return "n"
    if isinstance(v, str):
        return "s:" + enc(v)
    if isinstance(v, bool):
        raise TypeError
    if isinstance(v, int):
        return f"i:{v}"
    if isinstance(v, list):
        return "l:" + ",".join(("s:" + enc(x)) if isinstance(x, str) else f"i:{x}" for x in v)
    raise TypeError(type(v))


def _opt_s(v):
    return "n" if v is None else "s:" + enc(v)


def enc_ev(e: dict) -> str:
    a = e.get("args")
    if a is None:
        args = "n"
    else:
        args = "~".join([_peer_enc(a.get("Peer")), _peer_enc(a.get("Peers")), _opt_s(a.get("Type")),
                         _opt_s(a.get("CollGroup")), "1" if "Bytes" in a else "0",
                         "n" if "jobhash" not in a else str(a["jobhash"])])
    return ";".join([enc(e["ph"]), str(e["pid"]), str(e["tid"]), rat(e["ts"]),
                     "n" if "dur" not in e else rat(e["dur"]), enc(e["name"]), _opt_s(e.get("cat")),
                     str(e["vuid"]), args])


def canon_real(e: dict) -> list:
    a = e.get("args")
    pk = "-" if a is None else ("1" if "Peer" in a else "0") + ("1" if "Peers" in a else "0")
    flow = e["ph"] in ("s", "f")
    return [enc(e["ph"]), str(e["pid"]), str(e["tid"]), rat(e["ts"]), "n" if "dur" not in e else rat(e["dur"]),
            enc(e["name"]), _opt_s(e.get("cat")), "-" if flow else str(e["vuid"]),
            "n" if "id" not in e else str(e["id"]), _opt_s(e.get("bp")), pk]


def canon_helper(e: dict) -> list:
    return canon_real(e) + [enc(e["cat"]), enc(e["sync"]), ",".join(str(p) for p in e["Peers"]) or "-", str(e["Type"])]


ERRMAP = {"AssertionError": "err:assert", "KeyError": "err:key", "ValueError": "err:value", "IndexError": "err:index"}


def tolerant_merge(model_rows, real_rows):
    """replace the tolerant field (ts of f events) of the real rows by the model's string when it agrees to 1e-9"""
    out = []
    for i, r in enumerate(real_rows):
        r = list(r)
        if i < len(model_rows) and r[0] == "f" and model_rows[i][0] == "f" and len(model_rows[i]) == len(r):
            try:
                a, b = Fraction(r[3]), Fraction(model_rows[i][3])
                if abs(a - b) <= Fraction(1, 10 ** 9) * max(1, abs(b)):
                    r[3] = model_rows[i][3]
            except (ValueError, ZeroDivisionError):
                pass
        out.append(r)
    return out


# ---------------------------------------------------------------------------------------------
# real code
# ---------------------------------------------------------------------------------------------

_STAGES = {}


def flow_stages():
    """(callback, pristine context) of the three flow stages exactly as the CLI registers them for --flow"""
    if not _STAGES:
        rec = stage.cli_stages(["--flow"])
        for r in rec:
            if r["name"] in ("flow_prepare_event_data", "flow_extraction", "flow_data_cleanup") and r["registered"]:
                _STAGES[r["name"]] = (r["callback"], r["context"], r["kwargs"])
        names = [r["name"] for r in rec if r["registered"]]
        _STAGES["_order"] = names
    return _STAGES


def registration_ok():
    """the registration clause: prepare < extraction < cleanup, all three present with --flow"""
    st = flow_stages()
    o = st["_order"]
    try:
        return o.index("flow_prepare_event_data") < o.index("flow_extraction") < o.index("flow_data_cleanup")
    except ValueError:
        return False


def run_real(events):
    st = flow_stages()
    p, x, c = st["flow_prepare_event_data"], st["flow_extraction"], st["flow_data_cleanup"]
    ctx = copy.deepcopy(x[1])
    out, err = stage.run_stages([(p[0], p[1], p[2]), (x[0], ctx, x[2]), (c[0], c[1], c[2])], events)
    stale = ctx.stale_drop
    ctx.stale_drop = 0
    ctx.problem_count = 0
    return out, err, stale


def run_real_prep(event):
    st = flow_stages()
    p = st["flow_prepare_event_data"]
    return stage.run_stages([(p[0], p[1], p[2])], [event])


def real_detect_final(events):
    """real flow_prepare_event_data on every event, real ctx.insert on the helpers, real ctx.detect_final"""
    st = flow_stages()
    ctx = copy.deepcopy(st["flow_extraction"][1])
    gid = None
    for e in events:
        out, err = run_real_prep(e)
        if err:
            return ERRMAP.get(err, "err:other")
        for h in out:
            if h["ph"] == "F":
                try:
                    gid = ctx.insert(h)
                except Exception as ex:  # noqa: BLE001
                    return ERRMAP.get(type(ex).__name__, "err:other")
    if gid is None:
        return "final=0"
    groups = list(ctx.queues.keys())
    if len(groups) != 1:
        return "final=?"
    r = ctx.detect_final(groups[0])
    ctx.queues.clear()
    return "final=1" if r else "final=0"


# ---------------------------------------------------------------------------------------------
# oracle (from the statement; never calls the model)
# ---------------------------------------------------------------------------------------------

def sync_of(name):
    m = _sync_re.findall(name)
    return m[0] if m else None


def peers_of(args):
    v = args.get("Peer", args.get("Peers"))
    if v is None:
        return []
    try:
        if isinstance(v, str):
            return [int(p) for p in v.split(",")]
        if isinstance(v, list):
            return [int(p) for p in v]
        return [int(v)]
    except ValueError:
        return []


def slices_of(events, e2e=False):
    """the send/receive/… slices a user sees: ph X with args; name = original name"""
    out = []
    for e in events:
        if e.get("ph") != "X" or "args" not in e:
            continue
        a = e["args"]
        name = a.get("orig_name", e["name"]) if e2e else e["name"]
        s = sync_of(name)
        if s is None:
            continue
        out.append({"pid": e["pid"], "tid": e["tid"], "ts": e["ts"], "dur": e.get("dur"), "name": name,
                    "sync": s, "type": a.get("Type"), "peers": peers_of(a), "cg": a.get("CollGroup", "")})
    return out


def complete_groups(slices):
    """CollGroups that are structurally one complete chain all-reduce of R>=2 ranks: R-1 SingleCast sends
    r->r+1 each with one WDone Barrier receive on the peer, one Set BCList on the last rank naming the R-1
    others, R-1 MultiCast XSEG sends (one per other rank), one MultiCast, R-1 WDone Barrier receives."""
    res = {}
    by_g = {}
    for s in slices:
        by_g.setdefault(s["cg"], []).append(s)
    for g, evs in by_g.items():
        if g == "":
            continue
        by_sync = {}
        for s in evs:
            by_sync.setdefault(s["sync"], []).append(s)
        chain, mc = [], []
        ok = True
        for tag, l in by_sync.items():
            types = sorted(x["type"] or "" for x in l)
            if types == ["SingleCast", "WDone Barrier"]:
                snd = next(x for x in l if x["type"] == "SingleCast")
                rcv = next(x for x in l if x["type"] == "WDone Barrier")
                if len(snd["peers"]) != 1 or snd["peers"][0] != rcv["pid"] or rcv["pid"] == snd["pid"] \
                        or rcv["peers"] != [snd["pid"]]:
                    ok = False
                chain.append((snd["pid"], rcv["pid"]))
            elif "Set BCList" in types:
                mc.append(l)
            else:
                ok = False
        if not ok or len(mc) != 1:
            continue
        R = len(chain) + 1
        if R < 2 or sorted(chain) != [(r, r + 1) for r in range(R - 1)]:
            continue
        l = mc[0]
        last = R - 1
        others = list(range(R - 1))
        bc = [x for x in l if x["type"] == "Set BCList"]
        xs = [x for x in l if x["type"] == "MultiCast XSEG"]
        md = [x for x in l if x["type"] == "MultiCast"]
        rc = [x for x in l if x["type"] == "WDone Barrier"]
        if len(bc) != 1 or len(md) != 1 or len(bc) + len(xs) + len(md) + len(rc) != len(l):
            continue
        if bc[0]["pid"] != last or sorted(bc[0]["peers"]) != others or md[0]["pid"] != last or md[0]["peers"]:
            continue
        if any(x["pid"] != last or len(x["peers"]) != 1 for x in xs) or sorted(x["peers"][0] for x in xs) != others:
            continue
        if sorted(x["pid"] for x in rc) != others or any(x["peers"] != [last] for x in rc):
            continue
        res[g] = evs
    return res


def gap_with_foreign_event(slices, g, arrival_order=False):
    """input-side description of the open finding: an event of another group arrives strictly after the end of
    everything of `g` that arrived before it, while a later event of `g` still arrives.  Order: the global
    (ts, -dur) sort in front of the flow stages (end to end) or the given arrival order (stage level)."""
    order = list(range(len(slices)))
    if not arrival_order:
        order.sort(key=lambda i: (slices[i]["ts"], -(slices[i]["dur"] or 0)))
    pos_g = [pos for pos, i in enumerate(order) if slices[i]["cg"] == g]
    if not pos_g:
        return False
    last_pos = pos_g[-1]
    seen_end = None
    for pos, i in enumerate(order):
        s = slices[i]
        if s["cg"] == g:
            end = s["ts"] + (s["dur"] or 0)
            seen_end = end if seen_end is None else max(seen_end, end)
        elif seen_end is not None and pos < last_pos and s["ts"] > seen_end:
            return True
    return False


def input_slices(files):
    """the communication slices of the INPUT files (one B/E pair or X event per slice; pid = rank)"""
    out = []
    for evs in files.values():
        for e in evs:
            a = e.get("attr", e.get("args"))
            if e.get("ph") not in ("B", "X") or not isinstance(a, dict):
                continue
            s = sync_of(e["name"])
            if s is None:
                continue
            out.append({"pid": e["pid"], "tid": e["tid"], "ts": e["ts"], "dur": e.get("dur"), "name": e["name"],
                        "sync": s, "type": a.get("Type"), "peers": peers_of(a), "cg": a.get("CollGroup", "")})
    return out


def oracle(slices, flows, stream=None, e2e=False, ids_only=False, in_slices=None):
    """returns list of (classifier, description).  `stream` (stage level) = the captured output in emission order.
    `ids_only`: the input contains events that are not valid slices (malformed stream); only the id clause applies.
    `in_slices` (end to end): the communication slices of the input; a group that is a complete chain all-reduce
    in the INPUT is complete whatever the run did to its slices on the way to the export."""
    v = []
    tol = 1e-6 if e2e else 1e-9
    # -- ids -----------------------------------------------------------------------------------
    by_id = {}
    for f in flows:
        by_id.setdefault(f.get("id"), []).append(f)
    pairs = []
    for i, l in by_id.items():
        ss = [x for x in l if x["ph"] == "s"]
        ff = [x for x in l if x["ph"] == "f"]
        if i is None or len(ss) != 1 or len(ff) != 1:
            v.append(("flow-id-pairing", f"flow id {i} occurs on {len(ss)} 's' and {len(ff)} 'f' events"))
            continue
        if ss[0]["name"] != ff[0]["name"]:
            v.append(("flow-id-pairing", f"flow id {i}: names differ {ss[0]['name']!r} / {ff[0]['name']!r}"))
            continue
        pairs.append((ss[0], ff[0]))
    if ids_only:
        return v
    # -- placement -----------------------------------------------------------------------------
    used = {}
    for s, f in pairs:
        cands = [x for x in slices if x["type"] in SEND_TYPES and x["pid"] == s["pid"] and x["tid"] == s["tid"]
                 and x["ts"] == s["ts"] and x["sync"] == s["name"]]
        if not cands:
            v.append(("flow-placement", f"'s' id {s['id']} name {s['name']!r} at pid {s['pid']} tid {s['tid']} ts {s['ts']} "
                      "is not at the start of a send slice with that sync tag"))
            continue
        good = None
        why = ""
        for snd in cands:
            if f.get("bp") != "e":
                why = f"'f' id {f['id']} has bp={f.get('bp')!r}"
                continue
            if not snd["peers"] or f["pid"] != snd["peers"][0]:
                why = f"'f' id {f['id']} on pid {f['pid']} but the send names peer {snd['peers'][:1]}"
                continue
            rc = [x for x in slices if x["type"] == "WDone Barrier" and x["pid"] == f["pid"] and x["tid"] == f["tid"]
                  and x["sync"] == s["name"] and x["dur"] is not None
                  and abs((x["ts"] + x["dur"] - 0.001) - f["ts"]) <= tol * max(1.0, abs(f["ts"]))
                  and (x["dur"] < 0.001 or x["ts"] <= f["ts"] <= x["ts"] + x["dur"])]
            if not rc:
                why = (f"'f' id {f['id']} at pid {f['pid']} tid {f['tid']} ts {f['ts']} is not 1 ns inside the end of a "
                       f"WDone Barrier slice with sync tag {s['name']!r}")
                continue
            good = snd
            break
        if good is None:
            v.append(("flow-placement", why))
            continue
        k = (good["pid"], good["tid"], good["ts"], good["sync"])
        used[k] = used.get(k, 0) + 1
    # -- completeness for complete chain groups ------------------------------------------------------
    cg = complete_groups(slices)
    if in_slices is not None:
        for g in complete_groups(in_slices):
            if g not in cg:
                cg[g] = [x for x in slices if x["cg"] == g]
                n_in = sum(1 for x in in_slices if x["cg"] == g and x["type"] in SEND_TYPES)
                n_out = sum(1 for x in cg[g] if x["type"] in SEND_TYPES)
                if n_out < n_in:
                    v.append(("flow-missing-arrow", f"group {g} is a complete chain all-reduce in the input; only {n_out} "
                              f"of its {n_in} single-cast / multicast-segment sends are exported at all"))
    for g, evs in cg.items():
        missing, extra = [], []
        for snd in evs:
            if snd["type"] not in SEND_TYPES:
                continue
            has_recv = any(x["type"] == "WDone Barrier" and x["sync"] == snd["sync"] and snd["peers"]
                           and x["pid"] == snd["peers"][0] for x in evs)
            if not has_recv:
                continue
            n = used.get((snd["pid"], snd["tid"], snd["ts"], snd["sync"]), 0)
            if n == 0:
                missing.append(snd)
            elif n > 1:
                extra.append(snd)
        for snd in extra:
            v.append(("flow-duplicate-arrow", f"group {g}: send {snd['name']!r} on pid {snd['pid']} has more than one pair"))
        if not missing:
            continue
        all_mc = all(m["type"] == "MultiCast XSEG" for m in missing)
        if stream is not None:
            first_flow = next((i for i, e in enumerate(stream) if e["ph"] in ("s", "f") and e.get("cat") == g), None)
            later = first_flow is not None and any(
                e["ph"] == "X" and e.get("args", {}).get("CollGroup") == g for e in stream[first_flow + 1:])
            early = later and gap_with_foreign_event(slices, g, arrival_order=True)
        else:
            some_emitted = any(f.get("cat") == g for f in flows)
            early = some_emitted and gap_with_foreign_event(slices, g)
        names = sorted({m["sync"] for m in missing})
        if all_mc and early:
            v.append(("flow-prefix-final",
                      f"group {g}: emitted while later events of the same CollGroup still arrive; "
                      f"{len(missing)} multicast-segment arrow(s) missing ({names})"))
        else:
            v.append(("flow-missing-arrow",
                      f"group {g} is a complete chain all-reduce but {len(missing)} send(s) with a completed matching "
                      f"receive have no arrow ({names}; types {sorted({m['type'] for m in missing})})"))
    return v


# ---------------------------------------------------------------------------------------------
# generators
# ---------------------------------------------------------------------------------------------

class Builder:
    """slices as they arrive at flow_prepare_event_data (ph X, args with jobhash), exact grid times"""

    def __init__(self):
        self.ev = []
        self.uid = 0

    def add(self, pid, tid, ts, dur, name, args=None, ph="X", cat=None):
        self.uid += 1
        e = {"ph": ph, "pid": pid, "tid": tid, "ts": float(ts), "name": name, "vuid": self.uid}
        if dur is not None:
            e["dur"] = float(dur)
        if args is not None:
            a = dict(args)
            e["args"] = a
        if cat is not None:
            e["cat"] = cat
        self.ev.append(e)
        return e

    def sorted(self):
        # what the global (ts, -dur) sort in front of the flow stages delivers (stable)
        return sorted(self.ev, key=lambda e: (e["ts"], -e.get("dur", 0.0)))


def chain_group(b: Builder, R, cg, t, mode="pre", pause=0, xfer=50, nbytes=4096, bytes_arg=True, jobhash=7,
                dup_tag=False, seq0=1000):
    """one chain all-reduce; mode 'pre': receives pre-posted at t (as tests/test_data/allreduce_tp4.json and
    gen/scenario.py chain_allreduce); 'jit': receives posted with the matching send.  `pause` us before the
    multicast part.  Returns (end time, start of multicast part)."""
    def args(extra):
        a = {"CollGroup": cg, "jobhash": jobhash}
        a.update(extra)
        return a
    post = t
    cur = t + 1
    for r in range(R - 1):
        tag = f"{cg}_s{r}_r{r+1}_{2*r}" if not (dup_tag and r == 1) else f"{cg}_s0_r1_0"
        s0, s1 = cur, cur + xfer
        ex = {"Bytes": str(nbytes)} if bytes_arg else {}
        b.add(r, TID_SEND, s0, xfer, f"SenRdmaSend_{seq0+r} [sync={tag}] DmaO",
              args({"Peer": str(r + 1), "Type": "SingleCast", **ex}))
        r0 = post if mode == "pre" else s0
        b.add(r + 1, TID_RECV, r0, s1 + 1 - r0, f"SenRdmaReceive_{seq0+10+r} [{nbytes}B] [sync={tag}] DmaI",
              args({"Peer": str(r), "Type": "WDone Barrier", **ex}))
        b.add(r + 1, TID_CMPT, s1 + 2, 20, f"{cg}_Add_{2*r+1} Cmpt Exec", args({}))
        cur = s1 + 24
    cur += pause
    mstart = cur
    last = R - 1
    tag = f"{cg}_s{last}_r0x7_{2*last}"
    sq = seq0 + 30
    b.add(last, TID_SEND, cur, 10, f"SenRdmaSend_{sq} - Set BcList [sync={tag}] DmaO",
          args({"Peers": ",".join(str(p) for p in range(R - 1)), "Type": "Set BCList"}))
    for p in range(R - 1):
        b.add(last, TID_SEND + 1 + p, cur + 1 + p, 10, f"SenRdmaSend_{sq} - Xseg to rank {p} [sync={tag}] DmaO",
              args({"Peer": str(p), "Type": "MultiCast XSEG"}))
    d_end = cur + R + xfer + 20
    b.add(last, TID_SEND, cur + R, d_end - cur - R, f"SenRdmaSend_{sq} Data [sync={tag}] DmaO",
          args({"Type": "MultiCast", **({"Bytes": str(nbytes)} if bytes_arg else {})}))
    for p in range(R - 1):
        r0 = post if mode == "pre" else cur
        b.add(p, TID_RECV, r0, d_end + 1 + p - r0, f"SenRdmaReceive_{seq0+40+p} [{nbytes}B] [sync={tag}] DmaI",
              args({"Peer": str(last), "Type": "WDone Barrier", **({"Bytes": str(nbytes)} if bytes_arg else {})}))
    return d_end + R + 2, mstart


def gen_scenario(rng, force=None):
    """random structured scenario; returns (events in arrival order, tags)"""
    b = Builder()
    tags = set()
    R = rng.choice([2, 3, 3, 4, 4, 5, 6, 8])
    kind = force or rng.choice(["seq_pre", "seq_pre", "seq_jit", "inter_jit", "inter_jit", "inter_pre", "trunc", "dup",
                                "stale", "mixed", "skew", "skew"])
    tags.add(kind)
    t = float(rng.randrange(100, 5000))
    ng = rng.randint(1, 4)
    gid = 0
    for _ in range(ng):
        gid += 1
        cg = f"AllReduce_all_reduce_{gid}"
        mode = "pre" if kind in ("seq_pre", "inter_pre") else "jit" if kind in ("seq_jit", "inter_jit") else rng.choice(["pre", "jit"])
        if kind in ("inter_jit", "inter_pre", "mixed") and rng.random() < 0.8:
            # a second group runs entirely inside the pause before this group's multicast part
            R2 = rng.choice([2, 3, 4])
            inner_len = 200 * R2 + 200
            n0 = len(b.ev)
            end, mstart = chain_group(b, R, cg, t, mode=mode, pause=inner_len + 40, bytes_arg=rng.random() < 0.7,
                                      seq0=1000 * gid)
            gid += 1
            chain_group(b, R2, f"AllReduce_all_reduce_{gid}", mstart - inner_len - 20, mode=rng.choice(["pre", "jit"]),
                        seq0=1000 * gid)
            del n0
            t = end + rng.choice([5, 50, 500])
        else:
            end, _ = chain_group(b, R, cg, t, mode=mode, pause=rng.choice([0, 0, 30, 300]),
                                 bytes_arg=rng.random() < 0.7, dup_tag=(kind == "dup" and R >= 3), seq0=1000 * gid)
            t = end + rng.choice([1, 5, 50, 500])
        # compute slices between groups: with args/no sync, without args
        for r in range(R):
            if rng.random() < 0.5:
                b.add(r, TID_CMPT, t + r, 10, f"mm_{gid} Cmpt Exec", {"jobhash": 7} if rng.random() < 0.7 else None)
        t += 20
    if kind == "skew":
        # one rank's clock runs ahead of the others by milliseconds (no clock alignment, -M): every group stays
        # partly collected while the other ranks' events of LATER groups arrive; far below the 20 s stale window
        rs = rng.randrange(R)
        skew = float(rng.choice([1500, 6000, 6000, 100000]))
        for e in b.ev:
            if e["pid"] == rs:
                e["ts"] += skew
    evs = b.sorted()
    if kind == "trunc":
        # incomplete trailing group: cut the stream somewhere inside the last group
        last_cg = f"AllReduce_all_reduce_{gid}"
        idx = [i for i, e in enumerate(evs) if e.get("args", {}).get("CollGroup") == last_cg]
        if len(idx) > 2:
            cut = rng.choice(idx[1:])
            evs = evs[:cut] + [e for e in evs[cut:] if e.get("args", {}).get("CollGroup") != last_cg]
    if kind == "stale":
        # an incomplete group, then an event more than 4*5 s later -> the stale branch
        b2 = Builder()
        b2.uid = 100000
        cg = "AllReduce_all_reduce_77"
        b2.add(0, TID_SEND, 10.0, 5, f"SenRdmaSend_1 [sync={cg}_s0_r1_0] DmaO",
               {"CollGroup": cg, "jobhash": 7, "Peer": "1", "Type": "SingleCast"})
        shift = 30_000_000.0 if rng.random() < 0.7 else 10_000_000.0
        for e in evs:
            e["ts"] += shift
        evs = b2.ev + evs
    if kind == "mixed" and rng.random() < 0.5 and len(evs) > 4:
        # locally permuted arrival (the flow stages themselves do not require sorted input)
        i = rng.randrange(0, len(evs) - 2)
        evs[i], evs[i + 1] = evs[i + 1], evs[i]
        tags.add("permuted")
    return evs, tags


def tight_scenario(R, offsets, later_gap=2000, later_mode="pre", tail=True, t=1000.0):
    """2..3 complete PRE-POSTED chain groups whose starts differ by the small `offsets` (us), so that no sync-tagged
    event starts between the end of the earlier and the end of the later group, followed by a later group: its first
    event finds SEVERAL groups complete at once (flow_extraction builds the first candidate and returns; the next
    candidate is built at the next helper event).  Every arrow of every group is due; no prefix situation."""
    b = Builder()
    end = t
    for i, off in enumerate([0] + list(offsets)):
        e, _ = chain_group(b, R, f"AllReduce_all_reduce_{i+1}", t + off, mode="pre", seq0=1000 * (i + 1))
        end = max(end, e)
    n = len(offsets) + 2
    chain_group(b, R, f"AllReduce_all_reduce_{n}", end + later_gap, mode=later_mode, seq0=1000 * n)
    if tail:
        b.add(0, TID_CMPT, end + later_gap + 5000, 10, "mm_9 Cmpt Exec", {"jobhash": 7})
    return b.sorted()


def tight_grid(ctx: Ctx):
    """exhaustive: 2 tight groups with every offset 0..8, 3 tight groups with every offset pair from {0,1,4,8}^2,
    R in {2,3}, later group pre-posted / just in time"""
    for R in (2, 3):
        for later_mode in ("pre", "jit"):
            for o in range(0, 9):
                yield tight_scenario(R, [o], later_mode=later_mode), f"R{R}+o{o}+{later_mode}"
            for o1 in (0, 1, 4, 8):
                for o2 in (0, 1, 4, 8):
                    yield tight_scenario(R, [o1, o2], later_mode=later_mode), f"R{R}+o{o1}_{o2}+{later_mode}"


def tight_random(rng):
    R = rng.choice([2, 3, 3, 4, 5, 6, 8])
    offs = [float(rng.choice([0, 0.5, 1, 2, 3, 4, 5, 6, 7, 8])) for _ in range(rng.choice([1, 1, 2]))]
    if rng.random() < 0.5:
        offs = sorted(offs)
    return tight_scenario(R, offs, later_gap=rng.choice([100, 2000, 50000]), later_mode=rng.choice(["pre", "jit"]),
                          tail=rng.random() < 0.5, t=float(rng.randrange(100, 5000)))


def malformed(rng):
    evs, _ = gen_scenario(rng, force=rng.choice(["seq_pre", "seq_jit"]))
    cand = [i for i, e in enumerate(evs) if "args" in e and sync_of(e["name"])]
    i = rng.choice(cand)
    e = evs[i]
    k = rng.choice(["nojobhash", "badtype", "badpeer", "emptypeer", "spacepeer", "listpeer", "intpeer", "nodur", "zerodur",
                    "nopeer", "sendnopeer", "emptyph", "bph", "bothpeer", "recvname", "negpeer", "underscore"])
    a = e["args"]
    if k == "nojobhash":
        a.pop("jobhash", None)
    elif k == "badtype":
        a["Type"] = rng.choice(["Bogus", "singlecast", "WDone  Barrier", ""])
    elif k == "badpeer":
        a["Peer"] = rng.choice(["x", "1,,2", "1.0", "", "1 2", "0x1", "--1", "_1", "1_", "1__2"])
        a.pop("Peers", None)
    elif k == "emptypeer":
        a["Peers"] = []
        a.pop("Peer", None)
    elif k == "spacepeer":
        a["Peer"] = rng.choice([" 1 ", "+1", "01", "\t2", "1 , 0"])
    elif k == "listpeer":
        a["Peers"] = rng.choice([["1"], [1, "0"], ["1", "2", "0"], ["x"]])
        a.pop("Peer", None)
    elif k == "intpeer":
        a["Peer"] = rng.choice([0, 1, 2])
    elif k == "nodur":
        e.pop("dur", None)
    elif k == "zerodur":
        e["dur"] = rng.choice([0.0, -1.0])
    elif k == "nopeer":
        a.pop("Peer", None)
        a.pop("Peers", None)
    elif k == "sendnopeer":
        a.pop("Peer", None)
        a.pop("Peers", None)
        a["Type"] = "SingleCast"
        e["name"] = f"SenRdmaSend_12 Data [sync={sync_of(e['name'])}] DmaO"
    elif k == "emptyph":
        e["ph"] = ""
    elif k == "bph":
        e["ph"] = rng.choice(["b", "e", "B", "i"])
    elif k == "bothpeer":
        a["Peer"] = "1"
        # the runtime's own string, or the list that --comm_summarize_seq writes (the union of the parts' peers)
        a["Peers"] = rng.choice(["0,2", ["0", "2"], ["1", "2", "0"], []])
    elif k == "recvname":
        a.pop("Peer", None)
        a.pop("Peers", None)
        e["name"] = rng.choice(["Recv_3_x", "rEcV_12_ Recv_4_", "Recv_x_ Recv_5_y", "Recv_7"]) + f" [sync={sync_of(e['name'])}] DmaI"
    elif k == "negpeer":
        a["Peer"] = "-1"
    elif k == "underscore":
        a["Peer"] = "1_0"
    return evs, k


ALPHA_T = {  # symbol -> (pid, type, peers, sync suffix)
    "s01": (0, "SingleCast", "1", "a"), "r1": (1, "WDone Barrier", "0", "a"),
    "s12": (1, "SingleCast", "2", "b"), "r2": (2, "WDone Barrier", "1", "b"),
    "bc": (2, "Set BCList", "0,1", "m"), "x0": (2, "MultiCast XSEG", "0", "m"), "x1": (2, "MultiCast XSEG", "1", "m"),
    "md": (2, "MultiCast", None, "m"), "q0": (0, "WDone Barrier", "2", "m"), "q1": (1, "WDone Barrier", "2", "m"),
}


def alpha_events(word):
    """word: list of (symbol, group, long) -> events at ts 10*i; long: False = 5 us (ends before the next event),
    True = 1000 us (covers everything), "touch" = 10 us (ends exactly at the next event's ts: the `<` of
    group_candidates)"""
    b = Builder()
    for i, (sym, g, lng) in enumerate(word):
        pid, typ, peers, sfx = ALPHA_T[sym]
        cg = f"G{g}"
        a = {"CollGroup": cg, "jobhash": 7, "Type": typ}
        if peers is not None:
            a["Peer" if "," not in peers else "Peers"] = peers
        nm = ("SenRdmaSend_3 Data" if typ == "MultiCast" else "SenRdmaSend_3") if typ != "WDone Barrier" else "SenRdmaReceive_4"
        b.add(pid, TID_SEND if typ != "WDone Barrier" else TID_RECV, 10.0 * (i + 1), 10.0 if lng == "touch" else 1000.0 if lng else 5.0,
              f"{nm} [sync={cg}_{sfx}] Dma" + ("I" if typ == "WDone Barrier" else "O"), a)
    return b.ev


def grid_words(ctx: Ctx):
    """exhaustive: all words up to the bound over {chain symbols of group 1} x {foreign short event of group 2}"""
    base = [("s01", 1, False), ("r1", 1, False), ("s12", 1, False), ("r2", 1, False), ("x0", 1, False), ("q0", 1, False),
            ("bc", 1, False), ("md", 1, False), ("s01", 2, False), ("r1", 2, False), ("r1", 1, True), ("q0", 1, True),
            ("r2", 1, "touch"), ("r1", 2, "touch")]
    L = 3 if ctx.quick() else 4
    for n in range(0, L + 1):
        for w in itertools.product(base, repeat=n):
            yield list(w)
    ctx.extra["exhaustive_word_len"] = L
    ctx.extra["exhaustive"] = True
    # the complete 3-rank group with a foreign event at every position, short / covering receives
    full = ["s01", "r1", "s12", "r2", "bc", "x0", "x1", "md", "q0", "q1"]
    # short / covering / touching receives ("touch": the receive ends exactly at the next event's ts, so a foreign
    # event right behind it arrives at ts == latest_ts of the group: the strict `<` of group_candidates)
    for lng in (False, True, "touch"):
        for pos in range(len(full) + 1):
            w = [(s, 1, lng if s in ("r1", "r2", "q0", "q1") else False) for s in full]
            w.insert(pos, ("s01", 2, False))
            w.append(("r1", 2, False))
            yield w


PREP_NAMES = [
    "SenRdmaSend_1 [sync=a_b] DmaO", "SenRdmaSend_1 [4B] [sync=a_b] DmaO", "X [12b] [sync=q] [3B] DmaI", "X [B] [sync=q]",
    "SenRdmaSend_12 Data [sync=a] DmaO", "Send Data [sync=a] DmaO", "Send_ Data  DmaO [sync=a]", "Send_1 Data [sync=a]  DmaO",
    "aSend_1_2 Data [sync=a]x DmaO", "Send_1 Data [sync=a] DmaO ", "Recv_3_ [sync=a]", "xrecv_44_y RECV_5_ [sync=[a]] b]",
    "Recv_3 [sync=a]", "Recv__ [sync=a]", "no sync here", "[sync=a]", " [sync=]", " [sync=a", " [sync=a] [sync=b]",
    "mm Cmpt Prep", "mm Cmpt Exec [sync=z]", "A [1B] [22B][3B] [sync=t]", "rec Recv_007_ [sync= s p ]", "Send_1 Data x\ty DmaO [sync=u]",
]


def prep_cases(ctx: Ctx):
    argsets = [
        None, {}, {"jobhash": 1}, {"jobhash": 1, "Peer": "3"}, {"jobhash": 1, "Peers": "0,1"}, {"jobhash": 1, "Peer": "2", "Peers": "0,1"},
        {"jobhash": 1, "Peer": "1", "Type": "SingleCast", "CollGroup": "G"}, {"jobhash": 1, "Type": "MultiCast", "CollGroup": "G"},
        {"jobhash": 1, "Peer": "1", "Type": "MultiCast XSEG"}, {"jobhash": 1, "Peers": ["0", 1], "Type": "Set BCList"},
        {"jobhash": 1, "Peer": 4, "Type": "WDone Barrier", "Bytes": "9"}, {"jobhash": 1, "Peer": "x"}, {"Peer": "1"},
        {"jobhash": 1, "Type": "Nope", "Peer": "1"}, {"jobhash": 1, "Peer": " 1 , +2,-3 ", "Bytes": "1"}, {"jobhash": 1, "Peers": []},
    ]
    n = 0
    for name in PREP_NAMES:
        for a in argsets:
            for ph in (("X",) if n % 5 else ("X", "b", "C", "", "Xb")):
                n += 1
                e = {"ph": ph, "pid": 1, "tid": 2, "ts": 16.0, "name": name, "vuid": n}
                if ph in ("X", "Xb", ""):
                    e["dur"] = 4.0
                if a is not None:
                    e["args"] = copy.deepcopy(a)
                if n % 7 == 0:
                    e["cat"] = "user_annotation"
                yield e


def final_cases(ctx: Ctx):
    """permuted complete groups and damaged ones for detect_final"""
    rng = ctx.rng
    for _ in range(ctx.n(400, 4000)):
        b = Builder()
        R = rng.choice([2, 3, 4, 5, 8])
        chain_group(b, R, "G", 100.0, mode=rng.choice(["pre", "jit"]))
        evs = [e for e in b.ev if sync_of(e["name"])]
        rng.shuffle(evs)
        dmg = rng.choice(["none", "none", "drop", "dup", "prefix", "retag"])
        if dmg == "drop":
            evs.pop(rng.randrange(len(evs)))
        elif dmg == "dup":
            evs.append(copy.deepcopy(rng.choice(evs)))
        elif dmg == "prefix":
            evs = sorted(evs, key=lambda e: e["ts"])[:rng.randrange(1, len(evs))]
        elif dmg == "retag":
            e = rng.choice(evs)
            e["name"] = e["name"].replace("[sync=G_", "[sync=H_")
        for i, e in enumerate(evs):
            e["vuid"] = i + 1
        yield evs, dmg, R


# ---------------------------------------------------------------------------------------------
# end-to-end scenarios (input files for acelyzer --flow)
# ---------------------------------------------------------------------------------------------

def chain_allreduce_jit(ranks, gid, t, seq0, nbytes=524288, xfer=50, pause=0, prepost=False, lane=0):
    """like gen/scenario.py chain_allreduce but the receives are posted just in time; optional pause
    before the multicast part (design_probes/e9.py).  `prepost`: receives posted at `t` instead (as in
    allreduce_tp4.json); `lane`: offset of the send/receive tids, so that two groups overlapping in time do not
    exhaust the overlap stage's tid budget of one lane."""
    from gen.scenario import TID_SEND, TID_RECV
    TS, TR = TID_SEND + lane, TID_RECV + lane
    post = t - 1
    R = len(ranks)
    cg = f"AllReduce_all_reduce_{gid}"
    cur = t
    for r in range(R - 1):
        sync = f"{cg}_s{r}_r{r+1}_{2*r}"
        s0, s1 = cur, cur + xfer
        ranks[r].dev_event(f"SenRdmaSend_{seq0+r} [sync={sync}] DmaO", TS, [s0 - 1, s0 - 1, s0, s0, s1],
                           {"Bytes": str(nbytes), "CollGroup": cg, "Peer": str(r + 1), "Type": "SingleCast"})
        ranks[r + 1].dev_event(f"SenRdmaReceive_{seq0+10+r} [{nbytes}B] [sync={sync}] DmaI", TR,
                               [post if prepost else s0, s1, s1 + 1, s1 + 1, s1 + 2],
                               {"Bytes": str(nbytes), "CollGroup": cg, "Peer": str(r), "Type": "WDone Barrier"})
        cur = s1 + 5
    cur += pause
    mstart = cur
    last = R - 1
    sync = f"{cg}_s{last}_r0x7_{2*last}"
    peers = ",".join(str(p) for p in range(R - 1))
    sq = seq0 + 30
    # BC list, the R-1 segments and the data send follow each other on the send lane (no overlap: more than five
    # overlapping slices on one lane exhaust the overlap stage's tid budget, which is not this property's business)
    ranks[last].dev_event(f"SenRdmaSend_{sq} - Set BcList [sync={sync}] DmaO", TS, [cur - 1, cur - 1, cur, cur, cur + 1],
                          {"CollGroup": cg, "Peers": peers, "Type": "Set BCList"})
    for p in range(R - 1):
        ranks[last].dev_event(f"SenRdmaSend_{sq} - Xseg to rank {p} [sync={sync}] DmaO", TS,
                              [cur - 1, cur - 1, cur + 1 + 2 * p, cur + 1 + 2 * p, cur + 2 + 2 * p],
                              {"CollGroup": cg, "Peer": str(p), "Type": "MultiCast XSEG"})
    d_end = cur + 2 * R + xfer + 20
    ranks[last].dev_event(f"SenRdmaSend_{sq} Data [sync={sync}] DmaO", TS, [cur - 1, cur - 1, cur + 2 * R, cur + 2 * R, d_end],
                          {"Bytes": str(nbytes), "CollGroup": cg, "Type": "MultiCast"})
    for p in range(R - 1):
        ranks[p].dev_event(f"SenRdmaReceive_{seq0+40+p} [{nbytes}B] [sync={sync}] DmaI", TR,
                           [post if prepost else cur, d_end, d_end + 1, d_end + 1, d_end + 2],
                           {"Bytes": str(nbytes), "CollGroup": cg, "Peer": str(last), "Type": "WDone Barrier"})
    return d_end + 2, mstart


def e2e_files(spec):
    """spec: {"R":…, "layout": "pre"|"jit_seq"|"jit_inter"|"tight", "groups": n, "trunc": bool, "tight_off": us}"""
    from gen import scenario as sc
    R, layout, ng = spec["R"], spec["layout"], spec["groups"]
    # hskew: the ranks' host clocks are some tens of microseconds apart (what the clock alignment is there for)
    hs = spec.get("hskew") or [0] * R
    ranks = [sc.Rank(r, 512.0, 1_000_000_000.0 + hs[r % len(hs)], 512 * 1000 * (r + 1)) for r in range(R)]
    for r in range(R):
        sc.kernel(ranks[r], "mm_0", 100.0)
    t = 300.0
    gid = 0
    for _ in range(ng):
        gid += 1
        if layout == "tight":
            # two pre-posted groups starting `tight_off` us apart (complete at the same later event), then the next pair
            end1 = chain_allreduce_jit(ranks, gid, t, 1000 * gid, prepost=True, lane=0)[0]
            gid += 1
            end2 = chain_allreduce_jit(ranks, gid, t + spec.get("tight_off", 4), 1000 * gid, prepost=True, lane=7)[0]
            t = max(end1, end2) + 100
        elif layout == "pre":
            t = sc.chain_allreduce(ranks, gid, t, 1000 * gid) + 50
        elif layout == "jit_seq":
            t = chain_allreduce_jit(ranks, gid, t, 1000 * gid)[0] + 50
        else:
            inner = 62 * R + 150
            end, mstart = chain_allreduce_jit(ranks, gid, t, 1000 * gid, pause=inner + 40)
            gid += 1
            chain_allreduce_jit(ranks, gid, mstart - inner - 20, 1000 * gid)
            t = end + 50
    if spec.get("trunc"):
        # incomplete trailing group: only the first single cast and its receive
        gid += 1
        cg = f"AllReduce_all_reduce_{gid}"
        ranks[0].dev_event(f"SenRdmaSend_{9000} [sync={cg}_s0_r1_0] DmaO", sc.TID_SEND, [t, t, t + 1, t + 1, t + 51],
                           {"Bytes": "64", "CollGroup": cg, "Peer": "1", "Type": "SingleCast"})
        t += 100
    for r in range(R):
        sc.kernel(ranks[r], "final_9", t + 100)
    return {f"trace_rank_{rk.r}.json": rk.event_list() for rk in ranks}


def run_e2e(spec):
    import contextlib
    import gc
    import io
    with contextlib.redirect_stdout(io.StringIO()):     # the contexts print statistics from __del__
        # -M: an incomplete trailing group makes the collective-based rank alignment refuse the input
        # the statement holds for every other switch: vary switches that register further stages around the flow
        # stages (derived from the scenario so that a case replays identically); -F keeps every event type here
        extras = [[], [], ["-F", "XsfCM"], ["-t"], ["--keep_prep"], ["--drop_globals"], ["-F", "XsfCM", "-t"], ["-S"], ["-k"],
                  ["-S", "--drop_globals"]]
        extra = extras[spec["xi"] % 10] if "xi" in spec else extras[len(json.dumps(spec, sort_keys=True)) % 7]
        res = stage.e2e(["--flow", "--freq", "512"] + (["-M"] if spec.get("trunc") else []) + extra, e2e_files(spec))
        gc.collect()
    return res


# ---------------------------------------------------------------------------------------------
# check
# ---------------------------------------------------------------------------------------------

def parse_rows(s):
    return [] if s == "-" else [x.split(";") for x in s.split("|")]


def parse_model_run(ans):
    """-> (rows | error string, stats dict)"""
    if ans.startswith("err:"):
        return ans, {}
    assert ans.startswith("ok "), ans
    parts = ans.split(" ")
    stats = dict(p.split("=") for p in parts[1:-1] if "=" in p)
    return parse_rows(parts[-1]), {k: int(v) for k, v in stats.items()}


def oracle_stage(ctx: Ctx, case, events, out, err, verbose=False):
    """evaluate the property on one real stage-level execution"""
    if err is not None:
        return []
    flows = [e for e in out if e["ph"] in ("s", "f")]
    vs = oracle(slices_of(events), flows, stream=out, ids_only=not case.get("wellformed", True))
    if any(e["ph"] == "F" for e in out):
        vs.append(("flow-helper-in-output", "a ph=F helper event leaves flow_data_cleanup"))
    for c, d in vs:
        if verbose:
            print("oracle:", c, d)
        ctx.violation(c, d, case)
    return vs


def oracle_on_case(ctx: Ctx, case, verbose=False):
    kind = case.get("kind")
    if kind == "stage":
        events = case["events"]
        out, err, stale = run_real(events)
        if verbose:
            print("error:", err, "stale drops:", stale)
            for e in out:
                if e["ph"] in ("s", "f"):
                    print("flow:", {k: e.get(k) for k in ("ph", "id", "name", "cat", "pid", "tid", "ts", "bp")})
        vs = oracle_stage(ctx, case, events, out, err, verbose)
        return out, err, stale, vs
    if kind == "e2e":
        res = run_e2e(case["spec"])
        ins = input_slices(e2e_files(case["spec"]))
        if res["rc"] != 0 or res["events"] is None:
            ctx.violation("flow-e2e-run-failed", f"acelyzer --flow failed: rc={res['rc']} {res['error']}", case)
            return res, None, 0, []
        ev = res["events"]
        flows = [e for e in ev if e["ph"] in ("s", "f")]
        vs = oracle(slices_of(ev, e2e=True), flows, stream=None, e2e=True, in_slices=ins)
        if any(e["ph"] == "F" for e in ev):
            vs.append(("flow-helper-in-output", "a ph=F helper event is exported"))
        for c, d in vs:
            if verbose:
                print("oracle:", c, d)
            ctx.violation(c, d, case)
        if verbose:
            print("exported flows:", len(flows))
        return res, None, 0, vs
    if kind == "prep":
        out, err = run_real_prep(case["event"])
        if verbose:
            print(out, err)
        if err is None and any(e["ph"] == "F" and not all(k in e for k in ("sync", "Peers", "Type", "cat")) for e in out):
            ctx.violation("flow-helper-incomplete", "helper event without sync/Peers/Type/cat", case)
        return out, err, 0, []
    if kind == "final":
        r = real_detect_final(case["events"])
        if verbose:
            print(r)
        if case.get("complete") and r != "final=1":
            ctx.violation("flow-complete-group-not-final",
                          f"detect_final is {r} on a permutation of a complete {case.get('R')}-rank chain group", case)
        return r, None, 0, []
    raise ValueError(kind)


def run(ctx: Ctx):
    if not registration_ok():
        ctx.violation("flow-registration", "flow_prepare_event_data < flow_extraction < flow_data_cleanup not registered "
                      "in this order for --flow", {"kind": "registration", "order": flow_stages()["_order"]})
    lines, pending = [], []

    def stage_case(events, label, extra=None):
        case = {"kind": "stage", "label": label, "events": events}
        if extra:
            case.update(extra)
        out, err, stale, vs = oracle_on_case(ctx, case)
        nflows = sum(1 for e in out if e["ph"] == "s")
        ctx.count("stage_cases")
        ctx.count("flow_pairs_real", nflows)
        ctx.count("stale_drops_real", stale)
        if err:
            ctx.count("real_" + ERRMAP.get(err, "err:other"))
        for c, _ in vs:
            ctx.count("oracle_" + c)
        key = "|".join(enc_ev(e) for e in events)
        ctx.case_done({"kind": "stage", "label": label, "n_events": len(events),
                       "events": events if len(events) <= 12 else events[:12] + ["..."]},
                      key=key, nontrivial=(nflows > 0 or err is not None or stale > 0))
        lines.append("c09 run " + (key or "-"))
        pending.append(("run", case, out, err, stale))

    # (i) exhaustive small histories
    for w in grid_words(ctx):
        stage_case(alpha_events(w), "grid")
    # (ii) random structured scenarios
    for i in range(ctx.n(1500, 12000)):
        evs, tags = gen_scenario(ctx.rng)
        for t in tags:
            ctx.count("scenario_" + t)
        stage_case(evs, "scenario:" + "+".join(sorted(tags)))
    # (ii-b) several groups complete at the same incoming event: tightly overlapping pre-posted groups + a later group
    for evs, lab in tight_grid(ctx):
        ctx.count("tight_grid")
        stage_case(evs, "tight-grid:" + lab)
    for i in range(ctx.n(150, 1500)):
        ctx.count("tight_random")
        stage_case(tight_random(ctx.rng), "tight-random")
    # (iii) malformed
    for i in range(ctx.n(600, 4000)):
        evs, k = malformed(ctx.rng)
        ctx.count("malformed_" + k)
        stage_case(evs, "malformed:" + k, {"wellformed": k not in ("bph", "emptyph", "nodur", "zerodur", "recvname")})
    # (iv) prepare grid
    for e in prep_cases(ctx):
        case = {"kind": "prep", "event": e}
        out, err, _, _ = oracle_on_case(ctx, case)
        ctx.case_done(case, key="prep|" + enc_ev(e), nontrivial=(err is not None or len(out) == 2))
        ctx.count("prep_cases")
        lines.append("c09 prep " + enc_ev(e))
        pending.append(("prep", case, out, err, 0))
    # (v) detect_final on permuted complete / damaged groups
    for evs, dmg, R in final_cases(ctx):
        case = {"kind": "final", "events": evs, "complete": dmg == "none", "R": R, "damage": dmg}
        r, _, _, _ = oracle_on_case(ctx, case)
        ctx.case_done({"kind": "final", "R": R, "damage": dmg, "n_events": len(evs)},
                      key="final|" + "|".join(enc_ev(e) for e in evs), nontrivial=True)
        ctx.count("final_" + dmg)
        ctx.count("final_true", int(r == "final=1"))
        lines.append("c09 final " + "|".join(enc_ev(e) for e in evs))
        pending.append(("final", case, r, None, 0))
    # (vi) end to end
    specs = []
    for R in ((2, 3, 4) if ctx.quick() else (2, 3, 4, 5, 6, 8)):
        for layout in ("pre", "jit_seq", "jit_inter"):
            if layout == "pre" and R > 5:
                continue    # gen/scenario.py chain_allreduce overlaps R+1 sends on one lane: beyond the overlap tid budget
            specs.append({"R": R, "layout": layout, "groups": 2 if ctx.quick() else 3, "trunc": (R + len(layout)) % 2 == 0})
    for R, off in (((2, 4), (3, 4), (3, 0)) if ctx.quick() else ((2, 0), (2, 4), (3, 0), (3, 4), (3, 8), (4, 4))):
        specs.append({"R": R, "layout": "tight", "groups": 2, "tight_off": off, "trunc": False})
    if ctx.search_mode:
        specs = specs[:6] + [sp for sp in specs if sp["layout"] == "tight"][:2]
    # the same scenarios once more with skewed host clocks, under the alignment variants (-S: v2 alignment)
    SKEW = [0, 40, -25, 13, 7, -3, 21, 5]
    specs = specs + [dict(sp, hskew=SKEW, xi=[7, 0, 9, 5][k % 4]) for k, sp in enumerate(specs) if not sp["trunc"]]
    for k, spec in enumerate(specs):
        if "xi" not in spec:
            spec["xi"] = k          # round robin over the switch sets (kept in the case for replay)
        case = {"kind": "e2e", "spec": spec}
        res, _, _, vs = oracle_on_case(ctx, case)
        nfl = sum(1 for e in (res.get("events") or []) if e["ph"] == "s")
        ctx.count("e2e_runs")
        ctx.count("e2e_flow_pairs", nfl)
        for c, _ in vs:
            ctx.count("e2e_oracle_" + c)
        ctx.case_done(case, nontrivial=nfl > 0)

    if ctx.search_mode or not ctx.driver or not ctx.driver.ok:
        return
    answers = ctx.driver.ask(lines)
    for (kind, case, out, err, stale), ans in zip(pending, answers):
        if kind == "run":
            model, stats = parse_model_run(ans)
            if err is not None:
                real = ERRMAP.get(err, "err:other")
            else:
                real = [canon_real(e) for e in out]
                if isinstance(model, list):
                    real = tolerant_merge(model, real)
            ok = ctx.compare("flow model vs flow_prepare_event_data -> flow_extraction -> flow_data_cleanup (output stream)",
                             case, model, real)
            if ok and stats:
                ctx.compare("flow model vs real context: stale_drop counter (stream drops + groups dropped at drain)", case,
                            stats.get("stale", 0) + stats.get("drained", 0), stale)
                ctx.count("model_stale", stats.get("stale", 0))
                ctx.count("model_dropped_at_drain", stats.get("drained", 0))
                ctx.count("model_flow_ids", stats.get("ids", 0))
            if isinstance(model, str):
                ctx.count("model_" + model)
        elif kind == "prep":
            if err is not None:
                real = ERRMAP.get(err, "err:other")
            else:
                real = "ok " + "|".join(";".join(canon_helper(e) if e["ph"] == "F" and "sync" in e else canon_real(e)) for e in out)
            ctx.compare("prepare model vs flow_prepare_event_data (helper keys)", case, ans, real)
        elif kind == "final":
            ctx.compare("detectFinal model vs CollectiveGroupingContext.detect_final", case, ans, out)


def shrink(ctx: Ctx, case, classifier):
    if case.get("kind") != "stage":
        return case
    events = list(case["events"])

    def bad(evs):
        probe = Ctx(ctx.id, ctx.tier, ctx.seed)
        probe.known = []
        try:
            out, err, _ = run_real(evs)
            vs = oracle_stage(probe, {"kind": "stage", "events": evs}, evs, out, err)
        except Exception:  # noqa: BLE001
            return False
        return any(c == classifier for c, _ in vs)
    if not bad(events):
        return case
    # drop whole CollGroups first, then single events
    groups = sorted({e.get("args", {}).get("CollGroup") for e in events if "args" in e} - {None})
    for g in groups:
        trial = [e for e in events if e.get("args", {}).get("CollGroup") != g]
        if len(trial) < len(events) and bad(trial):
            events = trial
    changed = True
    while changed and len(events) > 1:
        changed = False
        for j in range(len(events)):
            trial = events[:j] + events[j + 1:]
            if bad(trial):
                events, changed = trial, True
                break
    return {"kind": "stage", "label": case.get("label", "") + " (shrunk)", "events": events}


LEVEL_TEXT = ("Lean theorems over an executable model of flow_prepare_event_data, CollectiveGroupingContext (insert, "
              "group_candidates, detect_final, check_drop_group, build_flows, find_recv_partner, "
              "create_flow_events_from_pair, drain), flow_extraction and flow_data_cleanup, for all input streams (any "
              "length, order, ranks, groups): every flow id of the output is on exactly one s and one f event with equal "
              "names (ids_paired; invariant: strictly increasing id counter); every s event sits at the (pid, tid, ts) of a "
              "SEND-typed slice and is named by its sync tag, and its f partner (same id, bp=e) sits on the first peer the "
              "send names at end - 1/1000 of a DONE-typed slice with the same sync tag, inside it when it lasts >= 1 ns "
              "(placement); no ph=F event leaves the stages (no_helper_out, extraction_consumes_helpers); detect_final "
              "holds of every permutation of the events of a complete chain group of any R >= 2 ranks "
              "(complete_group_detected); a group judged final as a whole, with no strict prefix judged final, in a trace "
              "shorter than the stale window, yields exactly one pair per send with a DONE receive on its peer and is "
              "emitted once (every_send_paired_partial). The unrestricted completeness clause is false of the current "
              "code: prefix_final_loses_multicast is a concrete 12-event history (decide) on which both multicast-"
              "segment arrows are lost.")
LEVEL_NOTE = ("Trusted: Lean kernel; axioms propext, Classical.choice, Quot.sound; the hand-written model is validated against "
              "the real stages by differential runs only (exhaustive short histories + random chain-allreduce scenarios + "
              "malformed streams + a name/args grid + permuted groups); regex corner cases outside ASCII/no-newline names, "
              "-R, and the stages registered between flow_extraction and flow_data_cleanup are outside the model; f.ts is "
              "compared with 1e-9 relative tolerance; the completeness clause holds only under NoPrefixFinal (open finding).")
TECHNIQUE = "Lean 4 proof (induction over the event stream with an id-counter invariant) + model/implementation correspondence run"
