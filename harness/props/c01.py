"""C01 — every input slice is exported exactly once unless a documented rule removes it.

Tie to /repo:
 (1) translator: the registration sites are regenerated from the source; `site_classes_total`,
     `filters_are_documented`, `out_of_domain_is_conditional` are re-decided on them;
 (2) per-stage class contracts observed on REAL runs: with `-I` the analyzer dumps the stream
     behind every registered stage, so for each stage its real input and output slice uids are
     known; they must relate as the stage's slice-flow class (Lean table `classOf`, asked from the
     driver) says: pass = same multiset, filter/merge = sub-multiset;
 (3) e2e correspondence: exported slice uids of real acelyzer runs vs the Lean `specKept` of the
     same input slices and options (option sets whose rules are decided by other properties —
     -O drop, --comm_summarize_seq — are compared by the oracle only).
Oracle (from the statement): no uid exported twice, no unknown uid, every positive-duration input
slice exported unless one of the documented rules applies to it, user-supplied argument keys
still present with their values.  Tolerant fields: none.
"""
from __future__ import annotations

import ast
import collections
import json
import os
import re
import shutil

from lib import stage, par
from lib.core import Ctx, REPO

ID = "C01"
NEEDS_GEN = True
LEAN_TARGETS = ["AiuVerif.Props.C01", "AiuVerif.Props.C01Args", "AiuVerif.Props.C01Bw", "AiuVerif.Props.C01Stages"]
THEOREMS = [
    "AiuVerif.C01.pipeline_conserves",
    "AiuVerif.C01.exported_once",
    "AiuVerif.C01.all_pass_nothing_lost",
    "AiuVerif.C01.site_classes_total",
    "AiuVerif.C01.filters_are_documented",
    "AiuVerif.C01.out_of_domain_is_conditional",
    "AiuVerif.C01.specKept_iff",
    "AiuVerif.C01.default_keeps_all",
    "AiuVerif.C01.sort_is_pass",
    "AiuVerif.C01.barrier_is_pass",
    "AiuVerif.C01.overlap_tid_conserves",
    "AiuVerif.C01.overlap_drop_conserves",
    "AiuVerif.C01.prep_stage_conserves",
    "AiuVerif.C01.limit_filter_stage_conserves",
    "AiuVerif.C01.comm_stage_non_members",
    "AiuVerif.C01.perEvent_pass",
    "AiuVerif.C01.syntactic_pass_sites",
    "AiuVerif.C01.syntactic_pass_classes",
    # the clause "still carrying its user-supplied argument keys" at the export step (convert_events + event classes)
    "AiuVerif.C01.unknown_top_entry_exported",
    "AiuVerif.C01.args_entry_exported",
    "AiuVerif.C01.exported_entry_has_source",
    # the bandwidth stage of the default counter set (mp_calc_bw, Model/CalcBw.lean): hold-all, nothing lost at drain
    "AiuVerif.C01.bw_step_holds",
    "AiuVerif.C01.bw_counters_synth",
    "AiuVerif.C01.bw_drain_shape",
    "AiuVerif.C01.bw_conserves",
    "AiuVerif.C01.bw_conserves_perm",
    "AiuVerif.C01.bw_error_only_zerodiv",
    "AiuVerif.C01.bw_no_bytes_total",
    # map_tid_to_range, drop_global_events, processing_filter (Model/SmallStages.lean)
    "AiuVerif.C01.lookup_injective",
    "AiuVerif.C01.mapAll_spec",
    "AiuVerif.C01.tidmap_pass",
    "AiuVerif.C01.tidmap_lanes",
    "AiuVerif.C01.tidmap_lanes_pidtid",
    "AiuVerif.C01.tidmap_total",
    "AiuVerif.C01.registered_tid_ctx_ok",
    "AiuVerif.C01.registered_tid_ctx_inv",
    "AiuVerif.C01.init_inv",
    "AiuVerif.C01.dropGlobals_spec",
    "AiuVerif.C01.dropGlobals_sublist",
    "AiuVerif.C01.glb_names_documented",
    "AiuVerif.C01.pfilter_spec",
    "AiuVerif.C01.pfilter_sublist",
    "AiuVerif.C01.recombine_only_tid",
    "AiuVerif.C01.recombine_device_untouched",
    "AiuVerif.C01.recombine_pass",
]
RULE = ("random rich scenarios (gen/rich.py: 1..4 ranks, chain all-reduce groups, kernels, host slices as X and B/E, ties, "
        "nesting, staggered partial overlaps up to the 5-extra-lane budget, zero/negative durations, 1/16 us device slices, "
        "--drop_globals names, metadata, counter epochs near the 2^32 wrap, user keys) x option sets; non-trivial = at "
        "least one slice is removed by a documented rule and at least one is kept; distinct = distinct (scenario, options)")
TRUSTED = ["uid-based slice identity injected by the generator (args.uid / attr.uid)",
           "the class of each real stage (pass/filter/merge) is validated on the real per-stage streams of -I runs, not proved"]
ASSUMPTIONS = ["-O drop removals and --comm_summarize_seq merges are judged by the oracle with the rules of C04 / C20 "
               "(partial overlap on the lane in the stream entering the overlap stage; another part of the same send sequence "
               "exported); --event_limit is exercised with time windows only (skip/count are C17's)",
               "switches outside the claimed domain (-S -s -R --flex_ts_fix -O async/shift/warn, bandwidth counter) are not generated"]
NOT_YET_PROVED = ["class_conserves for the stages WITHOUT a Lean model (observed on the real -I streams of every run instead); proved for "
                  "sort_events, pipeline_barrier, the overlap sub-pipeline (-O tid / -O drop), queueing_counter, normalize_phase1 and "
                  "communication_event_apply via the models of C08, C03, C04, C13, C17, C20, and for mp_calc_bw (bandwidth stage: "
                  "bw_conserves, bw_no_bytes_total), map_tid_to_range (tidmap_pass, tidmap_lanes), drop_global_events "
                  "(dropGlobals_spec) and processing_filter (pfilter_spec) via Model/CalcBw.lean and Model/SmallStages.lean, each "
                  "compared with the real callback + the context object the CLI registers",
                  "user argument keys: proved for the export step (C01Args: unknown_top_entry_exported, args_entry_exported, "
                  "exported_entry_has_source over Model/ExportArgs.lean, compared with the real convert_events + event classes); "
                  "that the STAGES in front of the export leave the args entries of a slice alone is decided by the end-to-end "
                  "oracle only (null-valued, nested and same-named entries included)"]
LEVEL_TEXT = ("Lean theorem pipeline_conserves: for ANY pipeline of slice-conserving stages, any input and any amount of buffering in "
              "sorts, barriers, clock alignment or bandwidth stages, exported uids ++ (uids removed by filter-class stages) is a "
              "permutation of the input uids and pass-class stages remove nothing (via C03.run_eq_runSpec); exported_once; the class "
              "table is total on the site list generated from the source and its filter-class stages are exactly the documented rules "
              "(decide +kernel, re-run on every check). specKept states the documented rules; real exports are compared with it.")
LEVEL_NOTE = ("Trusted: Lean kernel + standard axioms, translator, uid injection. Modelled-not-verified: that each real stage obeys its "
              "class contract — checked on every real -I run of the check (all stages, real streams), a violation there is reported with "
              "the stage name; for sort_events, pipeline_barrier, the overlap stages, queueing_counter, normalize_phase1, "
              "communication_event_apply, mp_calc_bw, map_tid_to_range, recombine_cpu_events, drop_global_events and processing_filter the "
              "contract is a theorem over a model that is compared with the real callback + registered context.")
TECHNIQUE = "Lean 4 proof (permutation invariant through the engine equation) over source-generated sites + correspondence run"

PREP_RE = re.compile(r"Cmpt Prep$")
DEFAULT_COUNTERS = "power_ts4 coll_bw prep_queue rcu_util"

OPTION_SETS = [
    [], ["--keep_prep"], ["--drop_globals"], ["-O", "drop"], ["-F", "X"], ["-F", "C"],
    ["-C", "power_ts4", "coll_bw", "rcu_util"], ["--flow"], ["-M"], ["--comm_summarize_seq"], ["-t"],
    ["--disable_tb"], ["--power-stats"], ["-c", "$COMPLOG"], ["--event_filter", "name:hostop_a,args.usr_note:^h0$"],
    # an attribute that differs between slices of one name on one lane: the verdict is per slice, not per kind of slice
    ["--event_filter", "args.uid:x[0-3]$"],
    ["--event_limit", "$WINDOW"], ["--drop_globals", "--keep_prep", "--flow"], ["-k"], ["--time_unit", "ms"],
    ["-C", "power_ts3", "prep_queue"], ["-C"], ["-O", "drop", "--keep_prep"], ["-O", "shift"], ["-O", "warn"],
]


# the --drop_globals name fragments (the documented rule; a run that drops a slice with another name loses it)
DOCUMENTED_GLOBALS = ["Execute graph", "SenFusedDeviceNode", "AIU Roundtrip", "Flex RoundTrip",
                      "PostKeys", "FetchKeys", "Callback", "HostPrep", "AllocateFrame of", "Update CBs"]


def glb_names():
    return list(DOCUMENTED_GLOBALS)


def _glb_names_from_source():
    src = (REPO / "src/aiu_trace_analyzer/pipeline/drop_global_event.py").read_text()
    for node in ast.walk(ast.parse(src)):
        if isinstance(node, ast.Assign) and any(isinstance(t, ast.Name) and t.id == "glb_names" for t in node.targets):
            return [ast.literal_eval(e) for e in node.value.elts]
    return ["Execute graph", "SenFusedDeviceNode", "AIU Roundtrip", "Flex RoundTrip"]


def expand_opts(opts):
    from gen import rich
    out = []
    for o in opts:
        if o == "$COMPLOG":
            out.append(str(REPO / "tests/test_data/sample_comp_log_ideal.txt"))
        elif o == "$WINDOW":
            out.append(json.dumps({"ts_start": rich.HOST_EPOCH + 15.0, "ts_end": rich.HOST_EPOCH + 330.0}))
        else:
            out.append(o)
    return out


def opt_view(opts):
    """what the documented rules need to know about the option set"""
    o = list(opts)
    counters = DEFAULT_COUNTERS
    if "-C" in o:
        i = o.index("-C")
        cs = []
        for x in o[i + 1:]:
            if x.startswith("-"):
                break
            cs.append(x)
        counters = cs
    prepq = ("prep_queue" in counters) and (any(counters) if not isinstance(counters, str) else True)
    filt = o[o.index("-F") + 1] if "-F" in o else None
    efilter = []
    if "--event_filter" in o:
        for part in o[o.index("--event_filter") + 1].split(","):
            k, rx = part.split(":")
            efilter.append((k, re.compile(rx)))
    window = None
    if "--event_limit" in o:
        from gen import rich
        window = (rich.HOST_EPOCH + 15.0, rich.HOST_EPOCH + 330.0)
    return {"prepq": prepq, "keep_prep": "--keep_prep" in o, "drop_globals": "--drop_globals" in o, "F": filt,
            "efilter": efilter, "window": window, "odrop": "-O" in o and o[o.index("-O") + 1] == "drop",
            "comm": "--comm_summarize_seq" in o}


def slice_flags(s, ov, globals_):
    """the fields of Model/Conserve.lean `Slice`, from the raw input slice and the statement's rules"""
    args_view = {"usr_note": s["user_keys"]["usr_note"], "uid": s["uid"]}
    filtered = False
    for k, rx in ov["efilter"]:
        val = s["name"] if k == "name" else args_view.get(k.split(".", 1)[1]) if k.startswith("args.") else None
        if val is not None and rx.search(str(val)):
            filtered = True
    in_limit = True
    if ov["window"]:
        in_limit = (s["ts"] + s["dur"] >= ov["window"][0]) and (s["ts"] <= ov["window"][1])
    return {"durPos": s["dur"] > 1e-9, "inLimit": in_limit, "filtered": filtered,
            "isPrep": bool(PREP_RE.search(s["name"])), "isGlobal": any(g in s["name"] for g in globals_)}


def uid_of(e):
    a = e.get("args") if isinstance(e.get("args"), dict) else None
    u = a.get("uid") if a else None
    if u is None and isinstance(e.get("attr"), dict):
        u = e["attr"].get("uid")
    return u


PREDECESSORS = [["--event_limit", '{"count": 3}'], ["--event_limit", '{"skip": 2, "ts_end": 1000000100.0}'],
                ["--event_filter", "name:hostop"], ["-F", "C"], ["--drop_globals"], ["-O", "drop"], ["--keep_prep"],
                ["$ABORT"], ["$ABORT"]]


def aborting_input():
    """a well-formed trace on which the default -O tid run ABORTS during the drain (seven staircase slices on one
    lane exceed the five spare lanes): what such a run leaves behind must not reach the next run"""
    return {"abort.json": [{"ph": "X", "name": f"stair_{k}", "pid": 0, "tid": 3, "ts": 50.0 + k, "dur": 12.0,
                            "args": {"uid": f"abort{k}"}} for k in range(7)]}


def e2e_job(job):
    from gen import rich
    spec, opts, with_I = job[:3]
    pre = job[3] if len(job) > 3 else None
    files, slices = rich.build(spec)
    if pre is not None:
        # an earlier run of the documented API in the SAME process, with other options: whatever it leaves behind
        # must not remove (or duplicate) a slice of the run under test
        if pre == ["$ABORT"]:
            stage.e2e(["--freq", "512"], aborting_input())
        else:
            stage.e2e(["--freq", "512"] + expand_opts(pre), files)
    argv = ["--freq", "512"] + expand_opts(opts) + (["-I"] if with_I else [])
    r = stage.e2e(argv, files, keep_dir=with_I)
    res = {"rc": r["rc"], "error": r["error"], "exported": None, "stages": None}
    if r["events"] is not None:
        res["exported"] = [(uid_of(e), {k: (e.get("args") or {}).get(k, "<absent>")
                                         for k in ("usr_note", "custom_top", "usr_args", "usr_null", "usr_nest")})
                           for e in r["events"] if e.get("ph") == "X" and uid_of(e) is not None]
    if with_I and r.get("dir"):
        d = r["dir"]
        try:
            st = []
            for f in sorted(x for x in os.listdir(d) if x.startswith("out.json_")):
                with open(os.path.join(d, f)) as fh:
                    j = json.load(fh)
                evs = j["traceEvents"] if isinstance(j, dict) else j
                name = f[len("out.json_"):][3:]
                rec = {"name": name, "uids": [uid_of(e) for e in evs if e.get("ph") == "X" and uid_of(e) is not None]}
                if name == "assert_ts_sequence" or name == "detect_partial_overlap_tids" or name == "pipeline_barrier":
                    rec["lanes"] = [(uid_of(e), e["pid"], e.get("tid"), e["ts"], e["dur"]) for e in evs
                                    if e.get("ph") == "X" and uid_of(e) is not None]
                st.append(rec)
            res["stages"] = st
        finally:
            shutil.rmtree(d, ignore_errors=True)
    return res, slices


SEQ_RE = re.compile(r"SenRdmaSend_(\d+)")


def judge(case, res, slices, globals_):
    """the oracle. returns list of (classifier, description)"""
    ov = opt_view(case["opts"])
    out = []
    if res["exported"] is None:
        return out            # a failing run is C02's business
    ex = collections.Counter(u for u, _ in res["exported"])
    known = {s["uid"]: s for s in slices}
    for u, c in ex.items():
        if u not in known:
            out.append(("slice-invented", f"exported slice uid {u} is not an input slice"))
        elif c > 1:
            out.append(("slice-duplicated", f"input slice {u} ({known[u]['name']}) exported {c} times"))
    # stream entering the overlap-drop stage, if dumped
    pre_overlap = None
    if res.get("stages"):
        names = [s["name"] for s in res["stages"]]
        if "detect_partial_overlap_events" in names:
            i = names.index("detect_partial_overlap_events")
            if i > 0 and "lanes" in res["stages"][i - 1]:
                pre_overlap = res["stages"][i - 1]["lanes"]
    seq_exported = collections.Counter()
    for u in ex:
        if u in known:
            m = SEQ_RE.search(known[u]["name"])
            if m:
                seq_exported[(known[u]["rank"], m.group(1))] += 1
    for s in slices:
        if ex.get(s["uid"], 0) >= 1:
            continue
        f = slice_flags(s, ov, globals_)
        why = None
        if not f["durPos"]:
            why = "zero or negative duration"
        elif not f["inLimit"]:
            why = "--event_limit"
        elif f["filtered"]:
            why = "--event_filter"
        elif ov["F"] is not None and "X" not in ov["F"]:
            why = "-F"
        elif f["isPrep"] and ov["prepq"] and not ov["keep_prep"]:
            why = "Prep slice, prep_queue counter active, no --keep_prep"
        elif f["isGlobal"] and ov["drop_globals"]:
            why = "--drop_globals"
        elif ov["odrop"]:
            if pre_overlap is None:
                why = "-O drop (stream entering the overlap stage not dumped in this run: not judged)"
            else:
                me = [x for x in pre_overlap if x[0] == s["uid"]]
                if me:
                    _, pid, tid, ts, dur = me[0]
                    for (u2, p2, t2, ts2, d2) in pre_overlap:
                        if u2 != s["uid"] and p2 == pid and t2 == tid and ts2 < ts + dur and ts < ts2 + d2 and \
                                not (ts2 <= ts and ts + dur <= ts2 + d2) and not (ts <= ts2 and ts2 + d2 <= ts + dur):
                            why = "-O drop: partially overlaps another slice of its lane"
                            break
        if why is None and ov["comm"]:
            m = SEQ_RE.search(s["name"])
            if m and seq_exported[(s["rank"], m.group(1))] >= 1:
                why = "--comm_summarize_seq: merged into the exported slice of its send sequence"
        if why is None:
            out.append(("slice-lost", f"input slice {s['uid']} ({s['name']}, rank {s['rank']}, dur {s['dur']}) is not exported "
                                      f"and no documented rule removes it (options {case['opts']})"))
    for u, keys in res["exported"]:
        if u in known:
            for k, v in known[u]["user_keys"].items():
                if keys.get(k) != v:
                    out.append(("user-key-lost", f"exported slice {u} lost or changed user key {k}: {keys.get(k)!r} != {v!r}"))
                    break
    return out


def export_args_correspondence(ctx):
    """ExportArgs.exportArgs vs the real EventProcessor.convert_events + event class: the args dictionary of the
    exported slice (keys in order, values as JSON text) for random events with user entries in args and at top level,
    null / nested / list values, an entry named alike in both places, args absent or empty"""
    import copy as _copy
    from aiu_trace_analyzer.core.processing import EventProcessor
    rng = ctx.rng
    vals = [7, "a", None, {"n": None, "k": 1}, [1, None], 0, "", 2.5, True]
    tok = lambda v: json.dumps(v, sort_keys=True).encode().hex()      # noqa: E731
    cases, lines = [], []
    for _ in range(ctx.n(300, 3000)):
        ev = {"ph": "X", "ts": 1.0, "dur": 2.0, "pid": 0, "tid": 1, "name": "n"}
        if rng.random() < 0.3:
            ev["cat"] = "c"
        for k in rng.sample(["custom_top", "note", "cname", "sf", "usr_null", "tts"], rng.randint(0, 3)):
            ev[k] = rng.choice(vals)
        if rng.random() < 0.85:
            ev["args"] = {k: rng.choice(vals) for k in rng.sample(["uid", "note", "usr_null", "usr_nest", "k", "custom_top"],
                                                                   rng.randint(0, 4))}
        keys = list(ev)
        rng.shuffle(keys)
        ev = {k: ev[k] for k in keys}
        top = ",".join(f"{k}:{tok(v)}" for k, v in ev.items() if k != "args") or "%"
        a = "-" if "args" not in ev else (",".join(f"{k}:{tok(v)}" for k, v in ev["args"].items()) or "%")
        lines.append(f"c01 xargs {top} {a}")
        cases.append(ev)
    outs = ctx.driver.ask(lines)
    for ev, o in zip(cases, outs):
        try:
            real = EventProcessor().convert_events([_copy.deepcopy(ev)])[0].json()["args"]
            real = [[k, json.dumps(v, sort_keys=True)] for k, v in real.items()]
        except Exception as e:  # noqa: BLE001
            real = f"raises {type(e).__name__}"
        model = [] if o == "%" else [[w.split(":")[0], bytes.fromhex(w.split(":")[1]).decode()] for w in o.split(",")] \
            if o != "bad-op" else o
        ctx.compare("ExportArgs.exportArgs vs convert_events + event class json(): args of the exported slice (entries in order)",
                    {"event": ev}, model, real)


def small_stages_correspondence(ctx):
    """Model/CalcBw.lean and Model/SmallStages.lean vs the real callbacks with the context objects the CLI registers
    (`mp_calc_bw`, `map_tid_to_range`, `drop_global_events`, `processing_filter`), each run through a real
    EventProcessor.  Compared: which events leave (by uid, in order), the synthesized counters (name, pid, ts exact;
    value = some rounding of the model's exact quotient to 3 decimals), the new tids and the context's two lists, the
    exception class."""
    import copy as _copy
    import contextlib as _cl
    import io as _io
    from fractions import Fraction
    from lib.core import enc, rat
    rng = ctx.rng
    reg = {r["name"]: r for r in stage.cli_stages(["--drop_globals", "-F", "XC"]) if r["registered"]}
    lines, pend = [], []

    # ---- mp_calc_bw ------------------------------------------------------------------------------------------
    bw = reg.get("mp_calc_bw")
    names = ["k Cmpt Exec", "AllReduce SenRdmaSend", "AllReduce SenRdmaRecv", "x SenRdmaSend and SenRdmaRecv", "host work",
             "q Cmpt Prep"]
    groups = [None, None, "AllReduce_all_reduce_1", "AllReduce_all_reduce_2", "AllGather_3", "Other_4"]

    def bw_event(uid, ph=None, **kw):
        e = {"ph": ph or rng.choice(["X"] * 8 + ["b", "C", "M", "i"]), "pid": rng.randint(0, 2), "tid": 0,
             "ts": rng.randint(0, 40) / 4, "name": rng.choice(names)}
        if e["ph"] in ("X", "b"):
            e["dur"] = rng.randint(1, 16) / 4
        if rng.random() < 0.9:
            e["args"] = {"uid": uid}
            g = rng.choice(groups)
            if g is not None:
                e["args"]["CollGroup"] = g
            if rng.random() < 0.4:
                e["args"]["Bytes"] = rng.choice([8, 4096, "1024", 1000000])
        e.update(kw)
        if "args" in e:
            e["args"]["uid"] = uid
        else:
            e["uid_top"] = uid
        return e

    def bw_window(uid0):
        """a complete all-reduce window: a slice in front, sends with Bytes, receives, a closing kernel"""
        R = rng.randint(1, 3)
        t = rng.randint(0, 8) / 4
        evs = [{"ph": "X", "pid": 0, "tid": 0, "ts": t, "dur": 0.5, "name": "k Cmpt Exec", "args": {}}] if rng.random() < 0.8 else []
        t += rng.choice([0.5, 1.0, 1.0])
        g = f"AllReduce_all_reduce_{rng.randint(1, 9)}"
        for r in range(R):
            evs.append({"ph": "X", "pid": r, "tid": 1, "ts": t + r / 4, "dur": 1.0, "name": "AllReduce SenRdmaSend",
                        "args": {"CollGroup": g, **({"Bytes": rng.choice([4096, "65536", 1000])} if rng.random() < 0.85 else {})}})
            for _ in range(rng.randint(0, 2)):
                evs.append({"ph": "X", "pid": r, "tid": 2, "ts": t + rng.randint(0, 8) / 4, "dur": rng.randint(1, 8) / 4,
                            "name": "AllReduce SenRdmaRecv", "args": {"CollGroup": g}})
        tail = max(e["ts"] + e["dur"] for e in evs) + rng.choice([0.0, 0.25, 1.0])
        if rng.random() < 0.3:
            evs.append({"ph": "X", "pid": 0, "tid": 1, "ts": tail, "dur": 0.5, "name": "gather SenRdmaSend",
                        "args": {"CollGroup": "AllGather_1"}})
        evs.append({"ph": "X", "pid": rng.randint(0, R - 1), "tid": 0, "ts": tail, "dur": rng.choice([0.25, 0.5]),
                    "name": "k Cmpt Exec", "args": {}})
        for i, e in enumerate(evs):
            e["args"]["uid"] = uid0 + i
        return evs

    def bw_line(evs):
        toks = []
        for e in evs:
            a = e.get("args")
            uid = a["uid"] if a is not None else e["uid_top"]
            cg = "-" if a is None or "CollGroup" not in a else enc(a["CollGroup"])
            by = "-" if a is None or "Bytes" not in a else str(int(a["Bytes"]))
            toks.append(",".join([str(uid), enc(e["ph"]), str(e["pid"]), rat(e["ts"]), rat(e.get("dur", 0)),
                                  "1" if a is not None else "0", cg, by, enc(e["name"])]))
        return "c01 bw " + (";".join(toks) or "%")

    if bw is not None:
        for k in range(ctx.n(400, 4000)):
            kind = k % 4
            if kind == 0:
                evs = [bw_event(i) for i in range(rng.randint(0, 8))]
            elif kind == 1:
                evs = bw_window(0)
                if rng.random() < 0.5:
                    rng.shuffle(evs)
            elif kind == 2:
                evs = bw_window(0)
                evs += bw_window(len(evs)) if rng.random() < 0.6 else [bw_event(len(evs) + i) for i in range(3)]
                for i, e in enumerate(evs):
                    (e["args"] if "args" in e else e)["uid" if "args" in e else "uid_top"] = i
            else:
                # the degenerate windows: first slice of the stream opens the window (L[i-1] is the LAST end), empty window
                evs = [{"ph": "X", "pid": 0, "tid": 0, "ts": 0.0, "dur": 2.0, "name": "x SenRdmaSend and SenRdmaRecv",
                        "args": {"uid": 0, "CollGroup": "AllReduce_all_reduce_1", "Bytes": 8}},
                       {"ph": "X", "pid": 0, "tid": 0, "ts": rng.choice([0.0, 1.0]), "dur": rng.choice([2.0, 1.0, 3.0]),
                        "name": "k Cmpt Exec", "args": {"uid": 1}}]
            lines.append(bw_line(evs))
            pend.append(("bw", evs))

    # ---- map_tid_to_range ------------------------------------------------------------------------------------
    from aiu_trace_analyzer.types import GlobalIngestData, InputDialectFLEX, InputDialectTORCH
    g = GlobalIngestData()
    before = dict(GlobalIngestData._jobmap)
    jf = g.add_job_info("/aiuverif/c01/small_flex.json", InputDialectFLEX())
    jt = g.add_job_info("/aiuverif/c01/small_torch_x.json", InputDialectTORCH())
    if jt == jf:
        jt = g.add_job_info("/aiuverif/c01/small_torch_y.json", InputDialectTORCH())
    junk = next(h for h in range(10000, 20000) if h not in GlobalIngestData._jobmap)
    tm = reg.get("map_tid_to_range")

    def tid_events():
        pool = rng.sample(range(0, 4000), rng.choice([2, 5, 33, 40, 40]))
        evs = []
        for i in range(rng.randint(0 if rng.random() < 0.3 else 2 * len(pool), 3 * len(pool))):
            e = {"ph": rng.choice(["X"] * 6 + ["C", "M"]), "pid": rng.randint(0, 2), "ts": float(i), "dur": 1.0, "name": "n",
                 "args": {"uid": i}}
            if rng.random() < 0.93:
                e["tid"] = rng.choice(pool)
            r = rng.random()
            if r < 0.8:
                e["args"]["jobhash"] = jf
            elif r < 0.88:
                e["args"]["jobhash"] = jt
            elif r < 0.94:
                e["args"]["jobhash"] = junk
            evs.append(e)
        return evs

    def tid_line(head, evs):
        toks = []
        for e in evs:
            jh = e["args"].get("jobhash")
            toks.append(",".join([str(e["args"]["uid"]), "1" if e["ph"] == "X" else "0", str(e["tid"]) if "tid" in e else "-",
                                  "1" if jh == jf else "0", str(e["pid"])]))
        return head + " " + (";".join(toks) or "%")

    if tm is not None:
        for k in range(ctx.n(150, 1500)):
            evs = tid_events()
            if k % 3 == 0:
                size, start, step = rng.choice([0, 1, 2, 30]), rng.choice([0, 1000, -5]), rng.choice([100, 1, -3])
                lines.append(tid_line(f"c01 tidmap0 {size} {start} {step}", evs))
                pend.append(("tid", evs, type(tm["context"])(size, start, step)))
            else:
                lines.append(tid_line("c01 tidmap", evs))
                pend.append(("tid", evs, _copy.deepcopy(tm["context"])))

    # ---- drop_global_events / processing_filter ----------------------------------------------------------------
    parts = _glb_names_from_source() + ["execute graph", "Execute  graph", "Callbac", "k Cmpt Exec", "Update CB", "Flex", ""]
    dg = reg.get("drop_global_events")
    if dg is not None:
        for _ in range(ctx.n(40, 400)):
            nm = []
            for _i in range(rng.randint(1, 12)):
                a, b_ = rng.choice(parts), rng.choice(parts)
                nm.append(rng.choice([a, a + " 17", "pre " + a, a[:-1], a + b_, a[1:], "kernel_" + str(rng.randint(0, 9))]) or "x")
            lines.append("c01 dropg " + ";".join(enc(n) for n in nm))
            pend.append(("dropg", nm))
    rc_ = reg.get("recombine_cpu_events")
    if rc_ is not None:
        cpu_tid = rc_["kwargs"].get("cpu_stream_tid", 1000)
        for _ in range(ctx.n(60, 600)):
            evs = []
            for i in range(rng.randint(1, 12)):
                e = {"ph": rng.choice(["X"] * 6 + ["C", "M", "i"]), "pid": rng.randint(0, 2), "ts": float(i), "dur": 1.0,
                     "name": rng.choice(["host op", "AIU Roundtrip", "pre AIU Roundtrip 3", "k Cmpt Exec", "Aiu roundtrip"]),
                     "args": {"uid": i}}
                if rng.random() < 0.9:
                    e["tid"] = rng.choice([5, 77, 1000, 1100])
                if rng.random() < 0.4:
                    e["args"]["TS1"] = "100"
                r = rng.random()
                if r < 0.8:
                    e["args"]["jobhash"] = jf
                elif r < 0.9:
                    e["args"]["jobhash"] = jt
                elif r < 0.95:
                    e["args"]["jobhash"] = junk
                evs.append(e)
            toks = [",".join([str(e["args"]["uid"]), enc(e["ph"]), "1" if e["args"].get("jobhash") == jf else "0",
                              "1" if "TS1" in e["args"] else "0", enc(e["name"]), str(e["pid"]), str(e["tid"]) if "tid" in e else "-"])
                    for e in evs]
            lines.append(f"c01 recomb {cpu_tid} " + ";".join(toks))
            pend.append(("recomb", evs))
    pf = reg.get("processing_filter")
    if pf is not None:
        for _ in range(ctx.n(40, 400)):
            pat = rng.choice(["X", "XC", "C", "M", "XCMsf", "bX", "", "Xi", "sf"])
            phs = [rng.choice(["X", "C", "M", "s", "f", "i", "b", "e", "XC"]) for _i in range(rng.randint(1, 10))]
            lines.append(f"c01 pfilter {enc(pat) if pat else '%00'} " + ";".join(enc(p) for p in phs))
            pend.append(("pf", pat, phs))

    outs = ctx.driver.ask(lines)
    try:
        for item, o in zip(pend, outs):
            if item[0] == "bw":
                evs = item[1]
                with _cl.redirect_stdout(_io.StringIO()):
                    got, err = stage.run_stages([(bw["callback"], type(bw["context"])(), None)], evs)
                ctx.count("bw_cases")
                if err is not None:
                    real = {"ZeroDivisionError": "err:zerodiv"}.get(err, "raises " + err)
                    ctx.count("bw_zero_division", int(err == "ZeroDivisionError"))
                    ctx.compare("CalcBw.drain vs real mp_calc_bw + MpCalcBwContext: exception", {"events": evs}, o, real)
                    continue
                real_tok, vals = [], []
                for e in got:
                    a = e.get("args")
                    u = a.get("uid") if isinstance(a, dict) and "uid" in a else e.get("uid_top")
                    if u is not None:
                        real_tok.append(f"u{u}")
                    else:
                        real_tok.append(",".join(["c", str(e.get("name")).replace(" ", "_"), str(e.get("pid")), rat(e["ts"])]))
                        vals.append(e["args"]["Unit GBps"])
                mod_tok, mvals = [], []
                for w in ([] if o == "%" else o.split(";")):
                    if w.startswith("c,"):
                        f = w.split(",")
                        mod_tok.append(",".join(f[:4]))
                        mvals.append(Fraction(f[4]))
                    else:
                        mod_tok.append(w)
                ctx.count("bw_counters_generated", len(vals))
                ctx.compare("CalcBw.drain vs real mp_calc_bw + MpCalcBwContext: events handed on by drain() (input events by uid "
                            "back to front, synthesized counters with name, pid, ts)", {"events": evs}, mod_tok, real_tok)
                if len(vals) == len(mvals):
                    NPm = len({e["pid"] for e in evs})
                    okv = all(abs(Fraction(rv) - mv) <= Fraction(1, 2000) * max(1, 2 * abs(NPm - 1)) + Fraction(1, 10**9)
                              for rv, mv in zip(vals, mvals))
                    ctx.compare("CalcBw: counter values are a rounding of the exact quotient to 3 decimals", {"events": evs},
                                True, okv)
            elif item[0] == "tid":
                _, evs, cobj = item
                with _cl.redirect_stdout(_io.StringIO()):
                    got, err = stage.run_stages([(tm["callback"], cobj, None)], evs)
                ctx.count("tidmap_cases")
                ctx.count("tidmap_beyond_table", int(len({e["tid"] for e in evs if e["ph"] == "X" and "tid" in e
                                                             and e["args"].get("jobhash") == jf}) > 30))
                # the context's two lists are compared where the object shows them (they are internals: an implementation that
                # keeps its table differently is compared on the new tids alone)
                internals = hasattr(cobj, "tid_original") and hasattr(cobj, "tid_remap")
                if not internals and not o.startswith("err:"):
                    o = o.split("|")[0]
                    ctx.count("tidmap_internals_not_observable")
                if err is not None:
                    real = {"IndexError": "err:indexerror"}.get(err, "raises " + err)
                else:
                    real = ",".join(f"{e['args']['uid']}:{e['tid'] if 'tid' in e else '-'}" for e in got) or "%"
                    if internals:
                        real += "|" + (",".join(map(str, cobj.tid_original)) or "%") + "|" + (",".join(map(str, cobj.tid_remap)) or "%")
                    # the clause of the statement the stage could break: nothing but the tid changes
                    for a, b_ in zip(evs, got):
                        if {k: v for k, v in a.items() if k != "tid"} != {k: v for k, v in b_.items() if k != "tid"}:
                            ctx.compare("map_tid_to_range changes nothing but the tid", {"events": evs}, a, b_)
                ctx.compare("Small.mapAll vs real map_tid_to_range + TIDMappingContext: new tids | tid_original | tid_remap",
                            {"events": evs}, o, real)
            elif item[0] == "recomb":
                evs = item[1]
                with _cl.redirect_stdout(_io.StringIO()):
                    got, err = stage.run_stages([(rc_["callback"], rc_["context"], rc_["kwargs"])], evs)
                real = ",".join(f"{e['args']['uid']}:{e['tid'] if 'tid' in e else '-'}" for e in got) if err is None else "raises " + err
                ctx.count("recombine_events", len(evs))
                for a, b_ in zip(evs, got):
                    if {k: v for k, v in a.items() if k != "tid"} != {k: v for k, v in b_.items() if k != "tid"}:
                        ctx.compare("recombine_cpu_events changes nothing but the tid", {"events": evs}, a, b_)
                ctx.compare("Small.recombine vs real recombine_cpu_events (registered cpu_stream_tid): tid per event", {"events": evs}, o, real)
            elif item[0] == "dropg":
                nm = item[1]
                evs = [{"ph": "X", "pid": 0, "tid": 0, "ts": float(i), "dur": 1.0, "name": n, "args": {"uid": i}} for i, n in enumerate(nm)]
                got, err = stage.run_stages([(dg["callback"], dg["context"], dg["kwargs"])], evs)
                kept = {e["args"]["uid"] for e in got}
                real = ",".join("1" if i in kept else "0" for i in range(len(nm))) if err is None else "raises " + err
                ctx.count("dropg_names", len(nm))
                ctx.compare("Small.isGlobal over Gen.glbNames vs real drop_global_events: kept (1) / removed (0) per name",
                            {"names": nm}, o, real)
            else:
                _, pat, phs = item
                evs = [{"ph": p, "pid": 0, "tid": 0, "ts": float(i), "dur": 1.0, "name": "n", "args": {"uid": i}} for i, p in enumerate(phs)]
                got, err = stage.run_stages([(pf["callback"], pf["context"], {"filter_pattern": pat})], evs)
                kept = {e["args"]["uid"] for e in got}
                real = ",".join("1" if i in kept else "0" for i in range(len(phs))) if err is None else "raises " + err
                ctx.count("pfilter_events", len(phs))
                ctx.compare("Small.keepPh vs real processing_filter: kept (1) / removed (0) per event", {"pattern": pat, "ph": phs},
                            o, real)
    finally:
        GlobalIngestData._jobmap.clear()
        GlobalIngestData._jobmap.update(before)


def spec_line(case, slices, globals_):
    ov = opt_view(case["opts"])
    uid_ix = {s["uid"]: i for i, s in enumerate(slices)}
    toks = []
    for s in slices:
        f = slice_flags(s, ov, globals_)
        b = lambda x: "1" if x else "0"   # noqa: E731
        toks.append(f"{uid_ix[s['uid']]}:{b(f['durPos'])}:{b(f['inLimit'])}:{b(f['filtered'])}:{b(f['isPrep'])}:{b(f['isGlobal'])}:0")
    o = f"{int(ov['prepq'])}:{int(ov['keep_prep'])}:{int(ov['drop_globals'])}:{ov['F'] if ov['F'] is not None else '-'}"
    return f"c01 spec {o} {','.join(toks) or ','}", uid_ix


def stage_contract_lines(res):
    return [f"c01 class {s['name']}" for s in res["stages"]]


def check_stage_contracts(ctx, case, res, classes):
    prev = None
    for s, cls in zip(res["stages"], classes):
        cur = collections.Counter(s["uids"])
        if prev is not None:
            rel = "equal" if cur == prev else "sub" if all(prev[k] >= v for k, v in cur.items()) else "other"
            ok = (cls == "pass" and rel == "equal") or (cls in ("filter", "merge") and rel in ("equal", "sub")) or \
                 cls == "outOfDomain"
            ctx.count(f"stage_obs_{cls}_{rel}")
            ctx.compare(f"slice-flow class of stage {s['name']} (Lean classOf) vs its real in/out slice uids",
                        dict(case, stage=s["name"]), cls if ok else f"{cls} (model)", cls if ok else f"observed relation: {rel}")
        prev = cur


def oracle_on_case(ctx: Ctx, case, verbose=False):
    res, slices = e2e_job((case["spec"], case["opts"], case.get("with_I", False), case.get("pre")))
    vs = judge(case, res, slices, glb_names())
    if verbose:
        print({"rc": res["rc"], "error": res["error"], "exported": len(res["exported"] or []), "violations": vs[:5]})
    for cl, d in vs[:3]:
        ctx.violation(cl, d, case)
    return res, slices


def run(ctx: Ctx):
    from gen import rich
    rng = ctx.rng
    globals_ = glb_names()
    jobs, cases = [], []
    nsc = ctx.n(9, 120)
    rest = OPTION_SETS[1:]
    rng.shuffle(rest)
    for s in range(nsc):
        spec = rich.random_spec(rng)
        if s == 0:
            spec.update(sub_ns=True, bad_dur=True, short=True, overlap_depth=5, origin=True)
        if s == 1:
            spec.update(layout="subdirs", dma_only=True, R=max(2, spec["R"]))
        if s == 2:
            spec.update(R=2, groups=max(1, spec["groups"]), stale=True)
        # quick: the option sets go round-robin over the scenarios, so every set runs at least twice per check
        osets = OPTION_SETS if not ctx.quick() else \
            [OPTION_SETS[0]] + [rest[(s * 6 + j) % len(rest)] for j in range(6)]
        for oi, o in enumerate(osets):
            with_I = (oi % 4 == 0) or (o[:2] == ["-O", "drop"])
            pre = rng.choice(PREDECESSORS) if oi % 3 == 1 else None
            cases.append({"spec": spec, "opts": o, "with_I": with_I, "pre": pre})
            jobs.append((spec, o, with_I, pre))
    results = par.pmap(e2e_job, jobs)
    lines, pending = [], []
    for case, (res, slices) in zip(cases, results):
        vs = judge(case, res, slices, globals_)
        for cl, d in vs[:3]:
            ctx.violation(cl, d, case)
        if res["exported"] is None:
            ctx.count("runs_failed")
            if len(ctx.notes) < 5:
                ctx.notes.append(f"run failed (judged by C02): {case['opts']} rc={res['rc']} {res['error']}"[:300])
        ov = opt_view(case["opts"])
        n_removed = len(slices) - len(res["exported"] or [])
        ctx.count("runs")
        ctx.count("runs_after_an_in_process_predecessor", int(case.get("pre") is not None))
        ctx.count("input_slices", len(slices))
        ctx.count("exported_slices", len(res["exported"] or []))
        ctx.case_done(case, key=json.dumps(case, sort_keys=True), nontrivial=bool(res["exported"]) and n_removed > 0)
        if ctx.search_mode or res["exported"] is None:
            continue
        if not ov["odrop"] and not ov["comm"]:
            line, uid_ix = spec_line(case, slices, globals_)
            lines.append(line)
            pending.append(("spec", case, sorted(uid_ix[u] for u, _ in res["exported"] if u in uid_ix), None))
        if res.get("stages"):
            for l in stage_contract_lines(res):
                lines.append(l)
            pending.append(("stages", case, res, len(res["stages"])))
    if ctx.search_mode or not ctx.driver or not ctx.driver.ok:
        return
    export_args_correspondence(ctx)
    small_stages_correspondence(ctx)
    outs = ctx.driver.ask(lines)
    pos = 0
    for kind, case, payload, n in pending:
        if kind == "spec":
            got = sorted(int(x) for x in outs[pos].split(",") if x)
            pos += 1
            ctx.compare("specKept (documented rules) vs exported slice uids of the real run", case, got, payload)
        else:
            classes = outs[pos:pos + n]
            pos += n
            check_stage_contracts(ctx, case, payload, classes)
