"""C03 — stage pipeline delivers every event exactly once, in order, honouring barriers.

Correspondence: random and exhaustive stage graphs are registered as real callbacks + contexts
in the real EventProcessor and run through the real Engine.run (list importer, recording
exporter); the Lean driver interprets the same graph description with `BStage.run`.
Compared: exported ids and the global delivery log.  Oracle (from the statement): per-stage
received sequence == emissions of the previous stage in time order, drain order == registration
order, nothing reaches a stage behind a barrier before every earlier stage saw all its input.
"""
from __future__ import annotations

import copy
import itertools

from lib.core import Ctx

ID = "C03"
LEAN_TARGETS = ["AiuVerif.Props.C03", "AiuVerif.Props.C03G"]
THEOREMS = [
    "AiuVerif.C03.delivery_exact_global",   # arbitrary sharing of contexts (global store), Props/C03G.lean
    "AiuVerif.C03.run_eq_runSpec",
    "AiuVerif.C03.received_eq_emitted",
    "AiuVerif.C03.received_succ",
    "AiuVerif.C03.barrier_separates",
    "AiuVerif.C03.shared_barrier_ok",
    "AiuVerif.C03.shared_barrier_batch",
]
RULE = ("stage graphs over {pass,drop,dup,expand,dropall,hold,rev,delay,gen,barrier} and, for the global-store model, "
        "{collect,apply} sharing ONE two-phase context object drained once per registration: exhaustive up to a length "
        "bound x inputs of length 0..3, plus random graphs up to length 12 with inputs up to 30; a case is "
        "non-trivial when at least one event is delivered to a stage behind a holding/barrier stage or "
        "a stage changes the event count; distinct = distinct (graph, input)")
TRUSTED = ["aliasing of one dict object between two emitted events is not modelled",
           "Python list/dict semantics of EventProcessor (pop(0), +=) as documented"]
ASSUMPTIONS = ["callbacks are deterministic functions of (event, context state)"]
NOT_YET_PROVED = []

KINDS = ["pass", "drop", "dup", "twice", "expand", "dropall", "hold", "rev", "delay", "gen", "barrier"]
# a two-phase context written against the developer README: ONE context object shared by every `collect` and
# `apply` stage of a graph; it is drained once per registration (first drain ends the collection phase, later
# drains release what the applying stages hold).  Covered by the global-store engine model (Props/C03G.lean).
KINDS_G = KINDS + ["collect", "apply"]
SIMPLE = ("pass", "drop", "dup", "twice", "expand", "dropall", "hold", "rev", "delay", "gen")


# ---------------------------------------------------------------------------------------------
# real code
# ---------------------------------------------------------------------------------------------

def _mk_event(i):
    if i % 7 == 0 and i < 9000:
        # metadata events travel through the stages (and wait at barriers) like any other event
        return {"ph": "M", "ts": 0.0, "pid": 0, "tid": 0, "name": "process_name", "args": {"id": i, "name": "p"}}
    # the order of the timestamps differs from the order of arrival: the engine hands events on as they come
    return {"ph": "X", "ts": float((i * 7) % 5 + 1), "dur": 1.0, "pid": 0, "tid": 0, "name": "n", "args": {"id": i}}


def _with_id(ev, i):
    e = copy.deepcopy(ev)
    e["args"]["id"] = i
    return e


STATELESS = ("pass", "drop", "dup", "twice", "expand", "dropall")


class Runaway(Exception):
    pass


_PROFILES = {}


def run_real(kinds, inp, shared=False, off=()):
    """returns dict(out=[ids], log=[(stage label,id)], emis={stage:[ids...]}, drains=[stage...]).
    shared=True: every stateless behaviour is ONE callback object registered without a context (a
    stateless stage written against the developer README and registered more than once); its
    deliveries are logged under the behaviour's name because the callback cannot know its position."""
    import aiu_trace_analyzer.pipeline as ep
    import aiu_trace_analyzer.pipeline.barrier as barrier_mod
    from aiu_trace_analyzer.core.processing import EventProcessor
    from aiu_trace_analyzer.core.engine import Engine
    from aiu_trace_analyzer.core.stage_profile import StageProfile
    from aiu_trace_analyzer.pipeline.context import AbstractContext

    # `off`: positions whose profile entry is disabled - the registration is requested but must be skipped; the
    # result is reported in the numbering of the ENABLED stages (a delivery to a disabled one shows as -1-i)
    off = set(off or ())
    log, emis, drains = [], {i: [] for i in range(len(kinds))}, []
    tick = [0]
    # upper bound on what ONE stage can be handed if every event is delivered once: dup doubles, expand triples,
    # a gen context adds one event; anything beyond it is delivered more than once (a changed engine or base
    # context can make that grow without bound - stop instead of running out of memory)
    ub, fac = len(inp) + 1, 1
    for k in kinds:
        f = {"dup": 2, "twice": 2, "expand": 3}.get(k, 1)
        ub, fac = ub * f + 1, fac * f
    limit = (len(kinds) + 1) * ub + 64
    n_tp = sum(k in ("collect", "apply") for k in kinds)
    if n_tp:
        # the test two-phase context releases what `apply` held at EVERY drain after its first one, so held
        # events legitimately pass the later stages once more per registration of that context
        limit = min((len(kinds) + 1) * (len(inp) + len(kinds) + 1) * fac ** (n_tp + 1) + 64, 400_000)

    def guard(n):
        if n > limit:
            raise Runaway(f"more than {limit} deliveries in a pipeline whose stages can be handed at most {ub} events each")

    class Ctx0(AbstractContext):
        def __init__(self, idx, kind):
            super().__init__()
            self.idx, self.kind, self.h = idx, kind, []

        def drain(self):
            # the idiom of the built-in contexts (mp_sync_tight, mp_calc_bw, flow_launch, ...): take what the base
            # class returns and extend it in place; a context without a buffer just hands on the base class' list
            drains.append(self.idx)
            r = super().drain()
            guard(len(r) + len(self.h))
            if self.h:
                r += self.h
                self.h = []
            if self.kind == "gen":
                g = _mk_event(9000)            # an event synthesized at drain time
                nxt = self.idx + 1
                if len(inp) % 2 == 1 and not shared and nxt < len(kinds) and nxt not in off and kinds[nxt] in SIMPLE:
                    # ... as a record that the NEXT stage completes (no `ts` yet): the entry check of the pipeline
                    # applies to input events, not to what a context releases
                    g.pop("ts", None)
                r.append(g)
            emis[self.idx] += [e["args"]["id"] for e in r]
            return r

    def mk(kind, i):
        ctx = Ctx0(i, kind)

        def cb(event, context):
            x = event["args"]["id"]
            log.append((i, x))
            guard(len(log))
            event.setdefault("ts", 5.0)        # completes a record that was released without a time stamp
            if kind == "pass":
                r = [event]
            elif kind == "drop":
                r = [] if x % 2 == 0 else [event]
            elif kind == "dup":
                r = [event, _with_id(event, x + 1000)]
            elif kind == "twice":
                r = [event, copy.deepcopy(event)]       # pipeline/template.py: the event and an equal copy
            elif kind == "expand":
                r = [_with_id(event, x + 2000), event, _with_id(event, x + 3000)]
            elif kind == "dropall":
                r = []
            elif kind == "hold":
                context.h.append(event)
                r = []
            elif kind == "rev":
                context.h.insert(0, event)
                r = []
            elif kind == "delay":
                r = context.h
                context.h = [event]
            elif kind == "gen":
                r = [event]
            else:
                raise ValueError(kind)
            emis[i] += [e["args"]["id"] for e in r]
            return r
        cb.__name__ = f"{kind}{i}"
        return cb, ctx

    shared_cbs = {}

    def mk_shared(kind):
        if kind not in shared_cbs:
            def cb(event, context):
                x = event["args"]["id"]
                log.append((kind, x))
                guard(len(log))
                if kind == "pass":
                    return [event]
                if kind == "drop":
                    return [] if x % 2 == 0 else [event]
                if kind == "dup":
                    return [event, _with_id(event, x + 1000)]
                if kind == "twice":
                    return [event, copy.deepcopy(event)]
                if kind == "expand":
                    return [_with_id(event, x + 2000), event, _with_id(event, x + 3000)]
                return []
            cb.__name__ = kind
            shared_cbs[kind] = cb
        return shared_cbs[kind]

    tp_idx = [i for i, k in enumerate(kinds) if k in ("collect", "apply") and i not in off]
    tp_drained = [0]

    class TwoPhase(barrier_mod.TwoPhaseWithBarrierContext):
        """a two-phase context on the real base class: its drain flips the phase, the second drain releases what
        the application phase held"""
        def __init__(self):
            super().__init__()
            self.count, self.held = 0, []

        def drain(self):
            i = tp_idx[tp_drained[0]]
            tp_drained[0] += 1
            drains.append(i)
            was_collecting = self.collection_phase()
            r = super().drain()
            if not was_collecting:
                r += self.held
                self.held = []
            emis[i] += [e["args"]["id"] for e in r]
            return r
    tp = TwoPhase()

    def mk_tp(kind, i):
        def cb(event, context):
            x = event["args"]["id"]
            log.append((i, x))
            guard(len(log))
            if kind == "collect":
                context.count += 1
                r = [event]
            else:
                context.held.append(_with_id(event, x + context.count))
                r = []
            emis[i] += [e["args"]["id"] for e in r]
            return r
        cb.__name__ = f"{kind}{i}"
        return cb

    names = ["pipeline_barrier" if k == "barrier" else (k if shared and k in STATELESS else f"{k}{i}")
             for i, k in enumerate(kinds)]
    prof_data = {"stages": [{n: (i not in off)} for i, n in enumerate(names)]}
    # a history: ONE StageProfile object drives every pipeline of this process that asks for the same stage list
    # (the developer README builds processors from a profile object; nothing says the object is single-use)
    pkey = repr(prof_data)
    if names and pkey not in _PROFILES:
        _PROFILES[pkey] = StageProfile(copy.deepcopy(prof_data), copy.deepcopy(prof_data))
    profile = _PROFILES[pkey] if names else None
    if profile is None:
        class _P:  # an empty profile: StageProfile cannot be built from an empty stage list
            profile = []
        profile = _P()
    proc = EventProcessor(profile=profile)
    bctx = barrier_mod._main_barrier_context
    bctx.hold = []
    cur_barrier = [None]
    orig_drain = type(bctx).drain

    # which barrier registration is being drained: the engine pops stages front to back
    barrier_idx = [i for i, k in enumerate(kinds) if k == "barrier" and i not in off]
    drained_barriers = [0]

    in_cb = [False]

    def logged_drain():
        if in_cb[0] or drained_barriers[0] >= len(barrier_idx):
            # not the engine's drain after the last input event: whatever is released here is released by the
            # callback (or by an extra drain) and is judged as such by the oracle
            return orig_drain(bctx)
        i = barrier_idx[drained_barriers[0]]
        drained_barriers[0] += 1
        drains.append(i)
        r = orig_drain(bctx)
        emis[i] += [e["args"]["id"] for e in r]
        return r
    if barrier_idx:
        bctx.drain = logged_drain
    try:
        for i, k in enumerate(kinds):
            if k == "barrier":
                def b(event, context, i=i):
                    log.append((i, event["args"]["id"]))
                    guard(len(log))
                    in_cb[0] = True
                    try:
                        r = ep.pipeline_barrier(event, context)
                    finally:
                        in_cb[0] = False
                    emis[i] += [e["args"]["id"] for e in r]
                    return r
                b.__name__ = "pipeline_barrier"
                proc.register_stage(b, bctx)
            elif k in ("collect", "apply"):
                proc.register_stage(mk_tp(k, i), tp)
            elif shared and k in STATELESS:
                proc.register_stage(mk_shared(k), None)
            else:
                cb, c = mk(k, i)
                proc.register_stage(cb, c)
        out = []

        class Exp:
            def export(self, evs):
                out.extend(e.args["id"] for e in evs)

            def flush(self):
                pass
        rc = Engine([_mk_event(i) for i in inp], proc, Exp()).run()
        assert rc == 0
    finally:
        if "drain" in bctx.__dict__:
            del bctx.drain
        bctx.hold = []
    del tick, cur_barrier
    if off:
        eff = {}
        for i in range(len(kinds)):
            if i not in off:
                eff[i] = len(eff)
        ren = lambda i: eff.get(i, -1 - i) if isinstance(i, int) else i     # noqa: E731
        log = [(ren(i), x) for i, x in log]
        emis = {ren(i): v for i, v in emis.items() if i in eff or v}
        drains = [ren(i) for i in drains]
    return {"out": out, "log": log, "emis": emis, "drains": drains}


# ---------------------------------------------------------------------------------------------
# oracle (from the statement, on what the real callbacks observed)
# ---------------------------------------------------------------------------------------------

def compose(kinds, inp):
    """the statement applied to stateless stages: each returned event is handed once, in order, to the next"""
    xs = list(inp)
    for k in kinds:
        ys = []
        for x in xs:
            ys += {"pass": [x], "drop": [] if x % 2 == 0 else [x], "dup": [x, x + 1000], "twice": [x, x],
                   "expand": [x + 2000, x, x + 3000], "dropall": []}[k]
        xs = ys
    return xs


def oracle(kinds, inp, r, shared=False):
    n = len(kinds)
    if all(k in STATELESS for k in kinds) and r["out"] != compose(kinds, inp):
        return ("engine-delivery", f"stateless pipeline {kinds} exported {r['out']}, the composition of its stages gives "
                                   f"{compose(kinds, inp)}")
    if shared:
        return None   # per-stage bookkeeping is ambiguous when one callback object serves several positions
    recv = {i: [x for (j, x) in r["log"] if j == i] for i in range(n)}
    if n == 0:
        return None if r["out"] == list(inp) else ("engine-delivery", "empty pipeline does not export its input")
    if recv[0] != list(inp):
        return ("engine-delivery", f"stage 0 received {recv[0]} for input {list(inp)}")
    for i in range(n - 1):
        if recv[i + 1] != r["emis"][i]:
            return ("engine-delivery", f"stage {i+1} received {recv[i+1]} but stage {i} emitted {r['emis'][i]} (in order)")
    if r["out"] != r["emis"][n - 1]:
        return ("engine-delivery", f"exported {r['out']} but last stage emitted {r['emis'][n-1]}")
    if r["drains"] != list(range(n)):
        return ("engine-drain-order", f"contexts drained in order {r['drains']}")
    # the built-in barrier hands on exactly what it was handed (all registrations share one hold list, so the
    # multiset is taken over all of them; a single barrier also keeps the order)
    bs = [b for b, k in enumerate(kinds) if k == "barrier"]
    if bs:
        got, want = sorted(x for b in bs for x in r["emis"][b]), sorted(x for b in bs for x in recv[b])
        if got != want:
            return ("engine-barrier", f"the barrier stages were handed {want} but released {got}")
        if len(bs) == 1 and r["emis"][bs[0]] != recv[bs[0]]:
            return ("engine-barrier", f"barrier {bs[0]} was handed {recv[bs[0]]} but released {r['emis'][bs[0]]} (order)")
    idxs = [j for (j, _) in r["log"]]
    for b, k in enumerate(kinds):
        if k == "barrier":
            lastpre = max([p for p, j in enumerate(idxs) if j <= b], default=-1)
            firstpost = min([p for p, j in enumerate(idxs) if j > b], default=10 ** 9)
            if not lastpre < firstpost:
                return ("engine-barrier", f"a stage behind barrier {b} received an event before all earlier deliveries")
    return None


def nontrivial(kinds, inp, r):
    return (len(inp) > 0 or "gen" in kinds) and \
        any(k in ("hold", "rev", "delay", "barrier", "dup", "expand", "drop", "dropall", "gen") for k in kinds) \
        and len(r["log"]) > len(inp)


# ---------------------------------------------------------------------------------------------

def line(kinds, inp):
    return "c03 " + (",".join(kinds) or ",") + " " + (",".join(map(str, inp)) or ",")


def parse_model(s):
    assert s.startswith("out="), s
    o, l = s.split(" log=")
    out = [int(x) for x in o[4:].split(",") if x]
    log = [tuple(int(y) for y in x.split(":")) for x in l.split(",") if x]
    return {"out": out, "log": log}


def gen_cases(ctx: Ctx):
    L = 3 if ctx.quick() else 4
    for n in range(0, L + 1):
        for kinds in itertools.product(KINDS, repeat=n):
            for m in range(0, 4):
                yield list(kinds), list(range(1, m + 1)), False
    # the same behaviour registered at several positions with ONE callback object and no context
    for n in range(1, 4):
        for kinds in itertools.product(KINDS, repeat=n):
            if len(set(k for k in kinds if k in STATELESS)) < len([k for k in kinds if k in STATELESS]):
                yield list(kinds), [1, 2, 3], True
    # graphs with the shared two-phase context (global-store model only)
    for n in range(1, 4):
        for kinds in itertools.product(KINDS_G, repeat=n):
            if "collect" in kinds or "apply" in kinds:
                yield list(kinds), [1, 2], False
    for _ in range(ctx.n(600, 8000)):
        n = ctx.rng.randint(2, 10)
        kinds = [ctx.rng.choice(KINDS_G if ctx.rng.random() < 0.5 else ["collect", "apply", "hold", "barrier", "dup", "gen"]) for _ in range(n)]
        if "collect" in kinds or "apply" in kinds:
            yield kinds, [ctx.rng.randint(1, 99) for _ in range(ctx.rng.randint(0, 12))], False
    ctx.extra["exhaustive_upto_len"] = L
    # long streams: a barrier holds back however many events arrive (thousands, beyond any plausible buffer size)
    for kinds, size in ((["pass", "barrier", "pass"], 4500), (["hold", "barrier", "pass", "barrier", "pass"], 5000),
                        (["pass", "barrier", "delay"], 9000)):
        yield kinds, list(range(1, size + 1)), False
    for _ in range(ctx.n(1500, 30000)):
        n = ctx.rng.randint(1, 12)
        kinds = [ctx.rng.choice(KINDS if ctx.rng.random() < 0.7 else ["pass", "dup", "hold", "barrier", "delay"]) for _ in range(n)]
        inp = [ctx.rng.randint(1, 99) for _ in range(ctx.rng.randint(0, 30))]
        yield kinds, inp, ctx.rng.random() < 0.3


# ---------------------------------------------------------------------------------------------
# the shared barrier across runs of the documented API (built-in pipeline)
# ---------------------------------------------------------------------------------------------

def _hist_slices(prefix, n):
    return [{"name": f"{prefix}{i}", "ph": "X", "pid": 0, "tid": 1, "ts": 100.0 + 10 * i, "dur": 5.0,
             "args": {"uid": f"{prefix}{i}"}} for i in range(n)]


def run_history(shape):
    """histories in which one run aborts while the first barrier already holds events.
    returns (exported slice uids of the run under test, uids exported by the same run alone)"""
    import contextlib
    import io
    import json
    import os
    import shutil
    import tempfile
    import aiu_trace_analyzer.logger as aiulog
    from aiu_trace_analyzer.core.acelyzer import Acelyzer
    from lib import stage
    tmp = tempfile.mkdtemp(prefix="aiuverif_")
    broken = {"name": "broken", "ph": "X", "pid": 0, "tid": 1, "ts": "oops", "dur": 5}

    def uids(path):
        with open(path) as fh:
            return sorted(e["args"]["uid"] for e in json.load(fh)["traceEvents"] if e.get("ph") == "X" and "uid" in e.get("args", {}))

    def quiet(fn):
        saved = sys_argv_guard()
        try:
            with contextlib.redirect_stdout(io.StringIO()):
                r = fn()
            aiulog.loglevel = -1
            return r
        except BaseException as e:  # noqa: BLE001
            return e
        finally:
            saved()
    try:
        fa, fb = os.path.join(tmp, "a.json"), os.path.join(tmp, "b.json")
        stage.write_trace(fb, _hist_slices("B", 3))
        if shape == "preconstructed":
            stage.write_trace(fa, _hist_slices("A", 3) + [broken])
            a = quiet(lambda: Acelyzer(["-i", fa, "-o", os.path.join(tmp, "oa.json"), "-D", "0"]))
            b = quiet(lambda: Acelyzer(["-i", fb, "-o", os.path.join(tmp, "ob.json"), "-D", "0"]))
            ra = quiet(a.run)
            assert isinstance(ra, BaseException), "the aborting run did not abort"
            quiet(b.run)
            got = uids(os.path.join(tmp, "ob.json"))
        else:   # retry on the same object after the input was repaired
            stage.write_trace(fb, _hist_slices("B", 3) + [broken])
            b = quiet(lambda: Acelyzer(["-i", fb, "-o", os.path.join(tmp, "ob.json"), "-D", "0"]))
            rb = quiet(b.run)
            assert isinstance(rb, BaseException), "the aborting run did not abort"
            stage.write_trace(fb, _hist_slices("B", 3))
            quiet(b.run)
            got = uids(os.path.join(tmp, "ob.json"))
        ref = quiet(lambda: Acelyzer(["-i", fb, "-o", os.path.join(tmp, "oref.json"), "-D", "0"]))
        quiet(ref.run)
        want = uids(os.path.join(tmp, "oref.json"))
        return got, want
    finally:
        shutil.rmtree(tmp, ignore_errors=True)


def sys_argv_guard():
    import sys
    saved = sys.argv
    sys.argv = ["acelyzer"]

    def restore():
        sys.argv = saved
    return restore


def eff_kinds(case):
    """the stages that are really part of the pipeline: those whose profile entry is enabled"""
    off = set(case.get("off") or ())
    return [k for i, k in enumerate(case["kinds"]) if i not in off]


def oracle_on_case(ctx: Ctx, case, verbose=False):
    if case.get("history"):
        got, want = run_history(case["history"])
        if verbose:
            print("history", case["history"], "exported", got, "alone", want)
        if got != want:
            ctx.violation("engine-barrier-leftover",
                          f"history '{case['history']}': a run of the built-in pipeline after a run that aborted while the first "
                          f"barrier held events exports slices {got}; the same run alone exports {want} (events delivered that no "
                          f"earlier stage of this pipeline returned / delivered twice)", case)
        return {"out": got, "log": [], "emis": {}, "drains": []}
    kinds, inp = eff_kinds(case), case["input"]
    try:
        if verbose:
            # a replay starts in a fresh process: run the pipeline once before, so that the judged run is - like in the
            # check - not the first one built from its StageProfile object
            run_real(case["kinds"], inp, case.get("shared", False), case.get("off"))
        r = run_real(case["kinds"], inp, case.get("shared", False), case.get("off"))
    except Runaway as ex:
        ctx.violation("engine-delivery", f"pipeline {kinds} on {len(inp)} input events: {ex} (events delivered more than "
                                         f"once / delivered that no stage returned)", case)
        return {"out": [], "log": [], "emis": {}, "drains": []}
    v = oracle(kinds, inp, r, case.get("shared", False))
    if verbose:
        print("real:", r)
    if v:
        ctx.violation(v[0], v[1], case)
    return r


def run(ctx: Ctx):
    for shape in ("preconstructed", "retry"):
        case = {"history": shape}
        oracle_on_case(ctx, case)
        ctx.case_done(case, key=("history", shape), nontrivial=True)
        ctx.count("barrier_history_cases")
    cases, reals = [], []
    for kinds, inp, shared in gen_cases(ctx):
        case = {"kinds": kinds, "input": inp, "shared": shared}
        if len(kinds) >= 2 and ctx.rng.random() < 0.2:
            # a profile that switches some of the requested stages off (also one of several same-named entries)
            case["off"] = sorted(ctx.rng.sample(range(len(kinds)), ctx.rng.randint(1, min(3, len(kinds) - 1))))
        r = oracle_on_case(ctx, case)
        ctx.case_done(case, key=(tuple(kinds), tuple(inp), shared, tuple(case.get("off", ()))),
                      nontrivial=nontrivial(eff_kinds(case), inp, r))
        ctx.count("graphs_with_disabled_stages", int(bool(case.get("off"))))
        ctx.count("shared_callback_cases", int(shared))
        ctx.count("graphs_with_barrier", int("barrier" in kinds))
        ctx.count("graphs_with_two_barriers", int(kinds.count("barrier") >= 2))
        ctx.count("graphs_with_holder_before_barrier", int(any(k in ("hold", "rev", "delay") for k in kinds[:kinds.index("barrier")]) if "barrier" in kinds else 0))
        ctx.count("deliveries", len(r["log"]))
        cases.append(case)
        reals.append(r)
    if ctx.search_mode or not ctx.driver or not ctx.driver.ok:
        return
    # every case against the global-store engine (GStage.run / runLog) ...
    outs_g = ctx.driver.ask([line(eff_kinds(c), c["input"]).replace("c03 ", "c03g ", 1) for c in cases])
    for case, r, o in zip(cases, reals, outs_g):
        m = parse_model(o)
        sh = case.get("shared", False)
        lab = [k if (sh and k in STATELESS) else i for i, k in enumerate(eff_kinds(case))]
        ctx.compare("global-store engine model (GStage) vs EventProcessor/Engine.run (exported ids + delivery log)", case,
                    {"out": m["out"], "log": [[lab[i], x] for (i, x) in m["log"]]},
                    {"out": r["out"], "log": [list(x) for x in r["log"]]})
        ctx.count("graphs_with_shared_two_phase_context", int("collect" in case["kinds"] or "apply" in case["kinds"]))
    # ... and the graphs without a two-phase context also against the private-state / shared-barrier engine
    pairs = [(c, r) for c, r in zip(cases, reals) if "collect" not in eff_kinds(c) and "apply" not in eff_kinds(c)]
    cases, reals = [c for c, _ in pairs], [r for _, r in pairs]
    outs = ctx.driver.ask([line(eff_kinds(c), c["input"]) for c in cases])
    for case, r, o in zip(cases, reals, outs):
        m = parse_model(o)
        sh = case.get("shared", False)
        lab = [k if (sh and k in STATELESS) else i for i, k in enumerate(eff_kinds(case))]
        ctx.compare("engine model vs EventProcessor/Engine.run (exported ids + delivery log)", case,
                    {"out": m["out"], "log": [[lab[i], x] for (i, x) in m["log"]]},
                    {"out": r["out"], "log": [list(x) for x in r["log"]]})


def shrink(ctx: Ctx, case, classifier):
    if case.get("history"):
        return case
    kinds, inp = list(case["kinds"]), list(case["input"])
    sh = case.get("shared", False)

    def bad(k, i):
        try:
            r = run_real(k, i, sh)
        except Exception:
            return False
        v = oracle(k, i, r, sh)
        return v is not None and v[0] == classifier
    changed = True
    while changed:
        changed = False
        for j in range(len(kinds)):
            k2 = kinds[:j] + kinds[j + 1:]
            if bad(k2, inp):
                kinds, changed = k2, True
                break
        for j in range(len(inp)):
            i2 = inp[:j] + inp[j + 1:]
            if bad(kinds, i2):
                inp, changed = i2, True
                break
    return {"kinds": kinds, "input": inp, "shared": sh}

LEVEL_TEXT = ("delivery_exact_global: for ARBITRARILY shared contexts (every callback and drain reads and writes one global "
              "store; contexts may be drained several times) stage 0 receives exactly the input, every later stage exactly what "
              "its predecessor emitted from callback or drain, in order, and the exporter exactly what the last stage emitted. "
              "Further, Lean theorems over a model of EventProcessor/Engine for arbitrary stage callbacks, states, pipeline "
              "lengths and inputs: the streaming engine equals sequential batch composition (run_eq_runSpec); the "
              "sequence delivered to stage i is exactly the batch output of the stages before it (received_eq_emitted: "
              "exactly once, emission order, held-back events traverse all later stages); a non-emitting stage splits "
              "the global delivery log (barrier_separates); barriers sharing the module-level hold list behave like "
              "private ones (shared_barrier_ok). Tied to the code by running the real Engine.run/EventProcessor and the "
              "compiled model on the same stage graphs and diffing exported ids and the full delivery log.")
LEVEL_NOTE = ("Trusted: Lean kernel; axioms propext, Classical.choice, Quot.sound; the hand-written engine model is validated "
              "against the real code by differential runs only (exhaustive short graphs + random long ones); dict aliasing "
              "between emitted events and exceptions inside callbacks are outside the model.")
TECHNIQUE = "Lean 4 proof (induction over pipeline and input) + model/implementation correspondence run"
