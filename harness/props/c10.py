"""C10 — the Power counter is the energy-conserving derivative of the charge counter.

Real code driven: the three stages `extract_power_event -> sort_events -> compute_power` with the
contexts the CLI registers for the default `power_ts4` counter (taken from the real registration via
`lib.stage.cli_stages`, deep-copied fresh per case; `-k` for the skip-events variant), inside a real
EventProcessor/Engine.run (`lib.stage.run_stages`).  Ops: `pipe` (all three), and each stage alone
(`extract`, `sort`, `compute`).  A few complete CLI runs (`lib.stage.e2e` on `gen.scenario` traces
with wrapping charge counters) check the exported `Power` counters of the final JSON.

Correspondence (model = lean/AiuVerif/Model/Power.lean): exact on the dyadic grid (wall-clock times
multiples of 1/16 us, charge readings integers).  The exported value is the double
`12 * dq * (1/512) / dt`: the two products are exact, the quotient is ONE correctly rounded IEEE
division of exactly represented operands, so it is compared *exactly* against the correctly rounded
double of the model's rational (`float(Fraction)`), not with a tolerance.  The `> 100` and `< 0`
decisions are taken on values that are far from the threshold on this grid (|x - 100| >= 1/(8 m) for
dt = m/16).  Errors are mapped to `err:keyerror` / `err:overflow`.

Oracle (from the statement, never calls the model): per rank, the power samples are the non-Prep
X slices with a Power reading and dur > 0.1 us, at their TS4 wall-clock time, in time order (stable);
valid = non-zero reading, one per time stamp (the first).  Expected `Power` series: at t_i the value
clamp(12 * ((Q_i+1 - Q_i) mod 2^32) / 512 / (t_i+1 - t_i)), clamp(x) = 0 if x > 100; values >= 0; per
rank strictly increasing times; and, where nothing is clamped, sum(P_i * dt_i) = 12/512 * (unwrapped
charge delivered) using the generator's unwrapped ground truth.  The stage must not raise on such
input.  In the e2e runs times are compared as differences (mp_sync may shift a rank rigidly), values
with 1e-9 relative tolerance (the device times there are cycle counts / freq, converted by stages
that belong to C06).
Tolerant fields: none at stage level; e2e values 1e-9 relative.
"""
from __future__ import annotations

import contextlib
import copy
import io
import itertools
import os
from fractions import Fraction

from lib.core import Ctx, rat
from lib import stage

ID = "C10"
NEEDS_GEN = True
LEAN_TARGETS = ["AiuVerif.Props.C10", "AiuVerif.Props.Order"]
THEOREMS = [
    "AiuVerif.C10.clamp_spec",
    "AiuVerif.C10.clamp_at_bound",
    "AiuVerif.C10.power_refines_spec",
    "AiuVerif.C10.nonneg",
    "AiuVerif.C10.at_most_100",
    "AiuVerif.C10.never_raises",
    "AiuVerif.C10.energy_conserved",
    "AiuVerif.C10.charge_telescopes",
    "AiuVerif.C10.emitted_in_time_order",
    "AiuVerif.C10.rank_projection",
    "AiuVerif.C10.sort_stage_rank",
    "AiuVerif.C10.extract_establishes",
    "AiuVerif.C10.pipeline_refines_spec",
    "AiuVerif.C10.equal_readings_zero_power",
    "AiuVerif.C10.raises_on_out_of_range_reading",
    "AiuVerif.Order.power_order",   # registration order / guards / shared context, re-decided on the generated sites
]
RULE = ("ops pipe/extract/sort/compute. Exhaustive: every counter sequence of length <=3 (quick) / <=4 over readings "
        "{0, 2^32-1000, 2^32-500, 50, 2^31} x time steps {0,1,2,2^21} us (compute); every tie sequence of length <=3 over "
        "cat {Exec, Prep} (compute); every slice sequence of length <=2 (quick) / <=3 over name {Exec, Prep} x dur "
        "{2, 1/16} x TS4 {10, 12} x reading {0, 1000, 1500} (pipe). Random: 1-3 ranks interleaved, monotone unwrapped "
        "charge with wraps, ties in TS4, zero readings, short slices, Prep slices, missing keys, TS4 order differing "
        "from arrival order, out-of-range readings, skip-events flag. Non-trivial: at least one Power value emitted "
        "or an error branch taken. distinct = distinct canonical case")
TRUSTED = ["IEEE doubles: on the dyadic grid the products are exact and the single division is compared against the "
           "correctly rounded model value",
           "`hash(pid)` / `hash((pid, 0))` injective on the generated pids (per-pid state modelled as a function of pid)",
           "Python list.sort is stable (List.mergeSort is stable as well)"]
ASSUMPTIONS = ["charge readings are integers in [0, 2^32) (never_raises and the spec need it; out-of-range readings are a "
               "modelled OverflowError branch)",
               "of several samples with the same TS4 time the first (in arrival order) is the valid one"]
NOT_YET_PROVED = []

Q = Fraction
M32 = 1 << 32
EXEC, PREP = "fn_1 Cmpt Exec", "fn_1 Cmpt Prep"

_cache = {}


def fresh_stages(skip=False):
    """(extract, sort, compute) as (callback, fresh deep copy of the registered context, kwargs)"""
    key = "k" if skip else "d"
    if key not in _cache:
        with contextlib.redirect_stdout(io.StringIO()):
            rec = stage.cli_stages(["-k"] if skip else [])
        import aiu_trace_analyzer.logger as aiulog
        aiulog.loglevel = -1
        names = [s["name"] for s in rec]
        i = names.index("extract_power_event")
        trio = rec[i:i + 3]
        if [s["name"] for s in trio] != ["extract_power_event", "sort_events", "compute_power"] or \
                not all(s["registered"] for s in trio):
            raise RuntimeError(f"power sub-pipeline not registered as extract -> sort -> compute: {names[i:i+3]}")
        _cache[key] = trio
    return [(s["callback"], copy.deepcopy(s["context"]), s["kwargs"]) for s in _cache[key]]


def fl(x):
    q = Q(x)
    f = float(q)
    assert Q(f) == q, "generator left the exact grid"
    return f


# ---------------------------------------------------------------------------------------------
# real code
# ---------------------------------------------------------------------------------------------

def slice_dict(s):
    d = {"ph": s["ph"], "name": s["name"], "pid": s["pid"], "tid": 7, "ts": fl(s["ts3"])}
    if s["dur"] is not None:
        d["dur"] = fl(s["dur"])
    args = {}
    if s["power"] is not None:
        args["Power"] = s["power"] if s.get("power_repr") != "num" else fl(s["power"])
    if s.get("ts_all", True):
        t3, t4 = fl(s["ts3"]), fl(s["ts4"])
        args["ts_all"] = [t3, t3, t3, t4, t4]
    if s.get("args", True):
        d["args"] = args
    return d


def ctr_dict(c):
    return {"ph": "C", "name": "Power", "pid": c["pid"], "cat": c["cat"], "ts": fl(c["ts"]),
            "TS_cycles": fl(c["tsc"]), "args": {"Watts": fl(c["q"])}}


ERR = {"KeyError": "err:keyerror", "OverflowError": "err:overflow"}


def proj_out(evs):
    return [[e["pid"], rat(e["ts"]), rat(e["args"]["Watts"])] for e in evs
            if e.get("ph") == "C" and e.get("name") == "Power"]


def proj_ctr(evs):
    return [[e["pid"], e["cat"], rat(e["ts"]), rat(e["TS_cycles"]), rat(e["args"]["Watts"])] for e in evs
            if e.get("ph") == "C" and e.get("name") == "Power"]


def run_real(case):
    op = case["op"]
    st = fresh_stages(case.get("skip", False))
    if op == "pipe":
        out, err = stage.run_stages(st, [slice_dict(s) for s in case["slices"]])
        if err:
            return {"err": ERR.get(err, "err:other:" + err)}
        return {"out": proj_out(out), "passed": sum(1 for e in out if e.get("ph") != "C"),
                "cats": sorted({e.get("cat") for e in out if e.get("ph") == "C"}),
                "scratch": any("TS_cycles" in e for e in out)}
    if op == "extract":
        out, err = stage.run_stages(st[0:1], [slice_dict(s) for s in case["slices"]])
        return {"err": ERR.get(err, "err:other:" + err)} if err else {"out": proj_ctr(out)}
    if op == "sort":
        out, err = stage.run_stages(st[1:2], [ctr_dict(c) for c in case["ctrs"]])
        return {"err": ERR.get(err, "err:other:" + err)} if err else {"out": proj_ctr(out)}
    if op == "compute":
        out, err = stage.run_stages(st[2:3], [ctr_dict(c) for c in case["ctrs"]])
        return {"err": ERR.get(err, "err:other:" + err)} if err else {"out": proj_out(out)}
    raise ValueError(op)


# ---------------------------------------------------------------------------------------------
# oracle (from the statement)
# ---------------------------------------------------------------------------------------------

def clamp(x):
    return Q(0) if x > 100 else x


def expected_series(samples):
    """samples [(t, Q, U|None)] of ONE rank in arrival order -> (expected [(t_i, P_i)], energy claim | None)"""
    s = sorted(samples, key=lambda x: x[0])                     # stable
    s = [x for x in s if x[1] != 0]
    v = []
    for x in s:
        if v and v[-1][0] == x[0]:
            continue
        v.append(x)
    exp, clamped = [], False
    for a, b in zip(v, v[1:]):
        raw = Q(12 * ((b[1] - a[1]) % M32), 512) / (b[0] - a[0])
        clamped |= raw > 100
        exp.append((a[0], clamp(raw)))
    energy = None
    if v and not clamped and all(x[2] is not None for x in v) and \
            all(0 <= b[2] - a[2] < M32 for a, b in zip(v, v[1:])):
        energy = (Q(12, 512) * (v[-1][2] - v[0][2]), [b[0] - a[0] for a, b in zip(v, v[1:])])
    return exp, energy


def check_rank(pid, got, exp, energy, exact=True):
    """got [(ts, watts)] Fractions of one rank in emission order"""
    if any(w < 0 for _, w in got):
        return ("power-negative", f"rank {pid}: negative Power value emitted")
    if any(not a[0] < b[0] for a, b in zip(got, got[1:])):
        return ("power-time-order", f"rank {pid}: Power samples not emitted in strictly increasing time order: "
                                    f"{[float(t) for t, _ in got]}")
    if len(got) != len(exp):
        return ("power-formula", f"rank {pid}: {len(got)} Power samples emitted, {len(exp)} expected from the valid samples")
    for i, ((t, w), (te, we)) in enumerate(zip(got, exp)):
        if t != te:
            return ("power-formula", f"rank {pid}: sample {i} emitted at t={float(t)} instead of t_i={float(te)}")
        ok = (w == Q(float(we))) if exact else abs(w - we) <= abs(we) * Q(1, 10 ** 9)
        if not ok:
            return ("power-formula", f"rank {pid}: sample {i} at t={float(t)}: Power={float(w)!r}, expected "
                                     f"12*dQ/512/dt = {rat(we)} (= {float(we)!r})")
    if energy is not None and got:
        total, dts = energy
        e = sum(w * dt for (_, w), dt in zip(got, dts))
        if abs(e - total) > abs(total) * Q(1, 10 ** 9):
            return ("power-energy", f"rank {pid}: sum P*dt = {float(e)!r} but 12/512 * charge delivered = {float(total)!r}")
    return None


def is_sample(s):
    return s["ph"] in ("X", "b") and " Prep" not in s["name"] and s["power"] is not None and \
        s.get("ts_all", True) and s.get("args", True) and s["dur"] is not None and Q(s["dur"]) > Q(1, 10)


def pipe_in_domain(case):
    for s in case["slices"]:
        if s["ph"] in ("X", "b") and " Prep" not in s["name"] and s["power"] is not None and s.get("ts_all", True) \
                and s.get("args", True):
            if s["dur"] is None:
                return False
            p = Q(s["power"])
            if p.denominator != 1 or not 0 <= p < M32:
                return False
    return not case.get("skip", False)


def oracle_pipe(case, r):
    if not pipe_in_domain(case):
        return None
    if "err" in r:
        return ("power-raises", f"the power stages raised ({r['err']}) on well-formed slices")
    if r["passed"] != len(case["slices"]):
        return ("power-passthrough", "the device slices did not all pass through the power stages")
    pids = []
    for s in case["slices"]:
        if s["pid"] not in pids:
            pids.append(s["pid"])
    for pid in pids:
        samples = [(Q(s["ts4"]), int(Q(s["power"])), s.get("true_q")) for s in case["slices"]
                   if s["pid"] == pid and is_sample(s)]
        exp, energy = expected_series(samples)
        got = [(Q(t), Q(w)) for p, t, w in r["out"] if p == pid]
        v = check_rank(pid, got, exp, energy)
        if v:
            return v
    if any(p not in pids for p, _, _ in r["out"]):
        return ("power-formula", "Power sample for a pid without slices")
    return None


def compute_in_domain(case):
    if case.get("skip", False):
        return False
    last = {}
    for c in case["ctrs"]:
        q = Q(c["q"])
        if q.denominator != 1 or not 0 <= q < M32 or " Prep" in c["cat"] or c["ts"] != c["tsc"]:
            return False
        if c["pid"] in last and Q(c["tsc"]) < last[c["pid"]]:
            return False
        last[c["pid"]] = Q(c["tsc"])
    return True


def oracle_compute(case, r):
    if not compute_in_domain(case):
        return None
    if "err" in r:
        return ("power-raises", f"compute_power raised ({r['err']}) on time-sorted in-range counters")
    for pid in sorted({c["pid"] for c in case["ctrs"]}):
        samples = [(Q(c["tsc"]), int(Q(c["q"])), c.get("true_q")) for c in case["ctrs"] if c["pid"] == pid]
        exp, energy = expected_series(samples)
        got = [(Q(t), Q(w)) for p, t, w in r["out"] if p == pid]
        v = check_rank(pid, got, exp, energy)
        if v:
            return v
    return None


def oracle(case, r):
    if case["op"] == "pipe":
        return oracle_pipe(case, r)
    if case["op"] == "compute":
        return oracle_compute(case, r)
    if case["op"] == "e2e":
        return oracle_e2e(case, r)
    return None


# ---------------------------------------------------------------------------------------------
# end to end (complete CLI run on generated FLEX traces)
# ---------------------------------------------------------------------------------------------

def e2e_inputs(case):
    """build the scenario with explicit, wrapping charge readings; returns (files, truth per rank)"""
    from gen import scenario
    import random
    rnd = random.Random(case["seed"])
    ranks = scenario.build_ranks(R=case["R"], groups=case["groups"], freq=512.0, seed=case["seed"], kernels=2)
    truth = {}
    for rk in ranks:
        # two more kernels behind everything else whose NAMES contain "Prep" without being Prep slices
        t_last = max(p[0]["ts"] for p in rk.events) - rk.host_epoch + 200.0
        t_last = scenario.kernel(rk, "DataPrep_2", float(int(t_last)))
        scenario.kernel(rk, "MaskPrepare_5", t_last + 10)
    for rk in ranks:
        u = M32 - rnd.randrange(1000, 200000)          # the unwrapped charge passes 2^32 during the run
        pairs = sorted(rk.events, key=lambda p: p[0]["ts"])
        tr = []
        # charge is a function of the TS4 device time so that it is monotone in time
        t4s = sorted({p[0]["attr"]["true_TS"][3] for p in pairs if "attr" in p[0]})
        umap, prev = {}, None
        for c in t4s:
            if prev is not None:
                # charge units per us; above 4266 the value exceeds 100 W and is reported as 0
                rate = rnd.choice(case["rates"])
                u += int((c - prev) * rate) // 512
            umap[c] = u
            prev = c
        for b, _e in pairs:
            if "attr" not in b:
                continue
            c4 = b["attr"]["true_TS"][3]
            b["attr"]["Power"] = str(umap[c4] % M32)
            tr.append({"name": b["name"], "t4": Q(c4 - rk.dev_epoch, 512), "U": umap[c4]})
        truth[rk.r] = tr
    files = {f"trace_rank_{rk.r}.json": rk.event_list() for rk in ranks}
    return files, truth


# switches the Power series does not depend on (they register or leave out OTHER stages); chosen from the case
E2E_EXTRA = [[], ["--drop_globals"], ["-t"], ["--flow"], ["--disable_tb"], ["--keep_prep"], ["-M"], ["-C", "power_ts4"],
             ["--power-stats"], ["--drop_globals", "--flow", "-t"]]


def run_e2e(case):
    files, truth = e2e_inputs(case)
    extra = E2E_EXTRA[case["seed"] % len(E2E_EXTRA)]
    if case["R"] == 1:
        # a one-rank "collective" of the scenario builder has an empty peer list: not a well-formed flow input
        extra = [x for x in extra if x != "--flow"]
    res = stage.e2e(["--freq=512:1100"] + extra, files)
    if res["error"] or res["rc"] != 0 or res["events"] is None:
        return {"err": f"rc={res['rc']} {res['error']}", "truth": truth}
    out = {}
    for e in res["events"]:
        if e.get("ph") == "C" and e.get("name") == "Power":
            out.setdefault(e["pid"], []).append((Q(e["ts"]), Q(e["args"]["Watts"])))
    return {"out": out, "truth": truth}


def oracle_e2e(case, r):
    if "err" in r:
        return ("power-raises", f"acelyzer failed on a well-formed scenario: {r['err']}")
    for pid, tr in r["truth"].items():
        # samples: the non-Prep device slices (every generated device slice is longer than 0.1 us)
        samples = [(x["t4"], x["U"] % M32, x["U"]) for x in tr if " Prep" not in x["name"]]
        exp, energy = expected_series(samples)
        got = r["out"].get(pid, [])
        if not got and not exp:
            continue
        if len(got) != len(exp):
            return ("power-formula", f"e2e rank {pid}: {len(got)} Power samples exported, {len(exp)} expected")
        # rigid shift allowed: compare time differences
        g0, e0 = got[0][0], exp[0][0]
        gotn = [(t - g0 + e0, w) for t, w in got]
        if any(abs(a[0] - b[0]) > Q(1, 10 ** 4) for a, b in zip(gotn, exp)):
            return ("power-formula", f"e2e rank {pid}: Power sample times do not follow the TS4 times")
        gotn = [(b[0], a[1]) for a, b in zip(gotn, exp)]
        v = check_rank(pid, gotn, exp, energy, exact=False)
        if v:
            return (v[0], "e2e " + v[1])
    return None


# ---------------------------------------------------------------------------------------------
# protocol
# ---------------------------------------------------------------------------------------------

def enc(s):
    return "=" + "".join(ch if (ch.isascii() and ch.isalnum()) else "%%%02X" % ord(ch) for ch in s)


def opt(x):
    return "~" if x is None else rat(Q(x))


def slice_line(s):
    has_power = s["power"] is not None and s.get("ts_all", True) and s.get("args", True)
    return ",".join([enc(s["ph"]), enc(s["name"]), str(s["pid"]), opt(s["dur"]), rat(Q(s["ts3"])), rat(Q(s["ts4"])),
                     opt(s["power"]) if has_power else "~"])


def ctr_line(c):
    return ",".join([str(c["pid"]), enc(c["cat"]), rat(Q(c["ts"])), rat(Q(c["tsc"])), rat(Q(c["q"]))])


def line(case):
    op = case["op"]
    fl_ = "1" if case.get("skip") else "0"
    if op == "pipe":
        return f"c10 pipe {fl_} " + (";".join(slice_line(s) for s in case["slices"]) or "_")
    if op == "extract":
        return "c10 extract " + (";".join(slice_line(s) for s in case["slices"]) or "_")
    if op == "sort":
        return "c10 sort " + (";".join(ctr_line(c) for c in case["ctrs"]) or "_")
    if op == "compute":
        return f"c10 compute {fl_} " + (";".join(ctr_line(c) for c in case["ctrs"]) or "_")
    raise ValueError(op)


def dec(s):
    assert s.startswith("="), s
    out, i, s = [], 0, s[1:]
    while i < len(s):
        if s[i] == "%":
            out.append(chr(int(s[i + 1:i + 3], 16)))
            i += 3
        else:
            out.append(s[i])
            i += 1
    return "".join(out)


def parse_model(case, s):
    if s.startswith("err:") or s == "bad-op":
        return {"err": s}
    items = [] if s == "_" else [x.split(",") for x in s.split(";")]
    if case["op"] in ("pipe", "compute"):
        # the exported double is the correctly rounded quotient
        return {"out": [[int(p), t, rat(float(Q(w)))] for p, t, w in items]}
    return {"out": [[int(p), dec(c), t, tc, q] for p, c, t, tc, q in items]}


def canon_real(case, r):
    if "err" in r:
        return {"err": r["err"]}
    return {"out": r["out"]}


# ---------------------------------------------------------------------------------------------
# generators
# ---------------------------------------------------------------------------------------------

def S(x):
    return rat(Q(x))


def mk_slice(pid, name, dur, t3, t4, power, ph="X", **kw):
    d = {"ph": ph, "name": name, "pid": pid, "dur": None if dur is None else S(dur), "ts3": S(t3), "ts4": S(t4),
         "power": None if power is None else str(power)}
    d.update(kw)
    return d


def mk_ctr(pid, cat, t, q, tsc=None, **kw):
    d = {"pid": pid, "cat": cat, "ts": S(t), "tsc": S(t if tsc is None else tsc), "q": S(q)}
    d.update(kw)
    return d


def gen_grid(ctx: Ctx):
    quick = ctx.quick()
    readings = [0, M32 - 1000, M32 - 500, 50, 1 << 31]
    steps = [0, 1, 2, 1 << 21]          # 2^21 us: long enough that a spurious full wrap (2^32 units) stays below 100 W
    elems = [(q, d) for q in readings for d in steps]
    for n in range(0, 4 if quick else 5):
        for seq in itertools.product(elems, repeat=n):
            t, ctrs = Q(100), []
            for q, d in seq:
                t += d
                ctrs.append(mk_ctr(0, EXEC, t, q))
            yield {"op": "compute", "ctrs": ctrs}
    # the plausibility bound itself: charge and time differences that give exactly 100 W (12 * dq / 512 / dt), one
    # unit below and one above, far from and across the 2^32 wrap of the charge counter
    for q0 in (0, M32 - 20000):
        for dq, dt in ((51200, 12), (51199, 12), (51201, 12), (12800, 3), (12801, 3), (3200, Q(3, 4)), (409600, 96),
                       (409599, 96)):
            yield {"op": "compute", "ctrs": [mk_ctr(0, EXEC, 100, q0), mk_ctr(0, EXEC, 100 + dt, (q0 + dq) % M32),
                                             mk_ctr(0, EXEC, 100 + 2 * dt, (q0 + 2 * dq + 7) % M32)]}
    # equal time stamps with the Prep rule (stage level only: extract never lets a Prep name through)
    for n in range(1, 4):
        for seq in itertools.product([(c, q, d) for c in (EXEC, PREP) for q in (1000, 3000) for d in (0, 1)], repeat=n):
            t, ctrs = Q(100), []
            for c, q, d in seq:
                t += d
                ctrs.append(mk_ctr(0, c, t, q))
            yield {"op": "compute", "ctrs": ctrs}
    sl = [(nm, du, t4, q) for nm in (EXEC, PREP) for du in (2, Q(1, 16)) for t4 in (10, 12) for q in (0, 1000, 1500)]
    for n in range(0, 3 if quick else 4):
        for seq in itertools.product(sl, repeat=n):
            yield {"op": "pipe", "slices": [mk_slice(0, nm, du, t4 - 1, t4, q) for nm, du, t4, q in seq]}


NAMES = [EXEC, "mm_2 Cmpt Exec", "SenRdmaSend_3 [sync=x] DmaO", "SenRdmaReceive_4 DmaI", "AllReduce_all_reduce_1_Add_1 Cmpt Exec",
         "plain"]


def gen_rank_slices(rng, pid, base):
    """one rank: monotone unwrapped charge U crossing 2^32, TS4 times with ties; returns slices in arrival order"""
    n = rng.randint(0, 12)
    u = M32 - rng.choice([300, 5000, 10 ** 6, M32 - 5])      # sometimes far from the wrap, sometimes just below it
    t = base + Q(rng.randint(0, 64), 16)
    out = []
    for _ in range(n):
        dt = Q(rng.choice([0, 0, 1, 4, 16, 16, 40, 160, 1600, 1 << 25, 3 << 24]), 16)   # incl. idle gaps of seconds
        t += dt
        rate = rng.choice([0, 10, 400, 3000, 4200, 5000, 10 ** 6])      # charge units per us; > 4266 is clamped
        if dt > 1000:
            rate = rng.choice([0, 0, Q(1, 1000), 1])
        u += int(dt * rate) + rng.choice([0, 0, 1, 7])
        name = rng.choice(NAMES) if rng.random() < 0.85 else rng.choice([PREP, "x Cmpt Prep_2"])
        dur = rng.choice([2, 2, 5, Q(1, 8), Q(1, 16), Q(3, 16), 0])
        reading = u % M32 if rng.random() < 0.9 else 0
        jitter = Q(rng.choice([0, 0, 0, 8, 32]), 16)         # the slice starts earlier: arrival order != TS4 order
        s = mk_slice(pid, name, dur, t - dur - jitter if t - dur - jitter > 0 else t, t, reading, true_q=u if reading else None)
        s["_arrival"] = t - jitter
        r = rng.random()
        if r < 0.03:
            s["power"] = None
        elif r < 0.05:
            s["ts_all"] = False
        elif r < 0.06:
            s["args"] = False
        elif r < 0.08:
            s["ph"] = rng.choice(["B", "i", "b"])
        elif r < 0.09:
            s["power_repr"] = "num"
        out.append(s)
    return out


def gen_random(ctx: Ctx):
    rng = ctx.rng
    for _ in range(ctx.n(1500, 20000)):
        R = rng.choice([1, 1, 2, 3])
        sl = []
        for pid in rng.sample([0, 1, 2, 5, 17], R):
            sl += gen_rank_slices(rng, pid, Q(10 ** 6))
        sl.sort(key=lambda s: s.pop("_arrival"))
        r = rng.random()
        if r < 0.04 and sl:
            rng.choice(sl)["power"] = str(rng.choice([M32, 1 << 33, -5, (1 << 33) + 12345]))     # out of range
        elif r < 0.07 and sl:
            x = rng.choice(sl)
            x["ph"], x["dur"] = "b", None                                                        # KeyError branch
        case = {"op": "pipe", "slices": sl}
        if rng.random() < 0.1:
            case["skip"] = True
        yield case
        if rng.random() < 0.3:
            yield {"op": "extract", "slices": sl}
    for _ in range(ctx.n(600, 8000)):
        # the compute stage alone on arbitrary counter streams: interleaved pids, unsorted, Prep cats, odd readings
        n = rng.randint(0, 10)
        ctrs = []
        mode = rng.random()
        t = {p: Q(1000) for p in (0, 1, 2)}
        u = {p: M32 - rng.randint(1, 5000) for p in (0, 1, 2)}
        for _k in range(n):
            p = rng.choice([0, 0, 1, 2])
            dt = Q(rng.choice([0, 1, 16, 16, 48, 320, 1 << 25]), 16)
            if mode < 0.25 and rng.random() < 0.3:
                dt = -dt
            t[p] += dt
            u[p] += (int(abs(dt) * rng.choice([5, 500, 4000, 6000])) if abs(dt) < 1000 else 0) + rng.choice([0, 0, 1])
            q = u[p] % M32
            r = rng.random()
            if r < 0.1:
                q = 0
            elif r < 0.13 and mode > 0.5:
                q = rng.choice([M32 + 7, 1 << 33, -3, Q(5, 2), Q(1, 2), Q(-1, 2)])
            cat = rng.choice(NAMES) if rng.random() < 0.85 else PREP
            ctrs.append(mk_ctr(p, cat, t[p], q, true_q=u[p] if q == u[p] % M32 else None))
        case = {"op": "compute", "ctrs": ctrs}
        if rng.random() < 0.25:
            case["skip"] = True
        yield case
        if rng.random() < 0.5:
            yield {"op": "sort", "ctrs": ctrs}


def gen_e2e(ctx: Ctx):
    for i in range(ctx.n(3, 12)):
        yield {"op": "e2e", "seed": ctx.rng.randint(0, 10 ** 6), "R": ctx.rng.choice([1, 2, 3]),
               "groups": ctx.rng.choice([1, 2]),
               "rates": ctx.rng.choice([[200, 1000, 2000, 4000], [50, 3000], [1000, 2500, 6000]])}


# ---------------------------------------------------------------------------------------------

def real_for(case):
    return run_e2e(case) if case["op"] == "e2e" else run_real(case)


def oracle_on_case(ctx: Ctx, case, verbose=False):
    r = real_for(case)
    v = oracle(case, r)
    if verbose:
        print("case:", case)
        print("real:", {k: x for k, x in r.items() if k != "truth"})
    if v:
        ctx.violation(v[0], v[1], case)
    return r


def nontrivial(case, r):
    if "err" in r:
        return True
    if case["op"] == "e2e":
        return any(len(v) > 2 for v in r["out"].values())
    if case["op"] in ("pipe", "compute"):
        return len(r["out"]) > 0
    return len(r["out"]) > 1


def run(ctx: Ctx):
    cases, reals = [], []
    only = os.environ.get("VERIF_C10_OPS")          # debugging aid: restrict to some ops
    gens = [gen_grid(ctx), gen_random(ctx)]
    if not ctx.search_mode or True:
        gens.append(gen_e2e(ctx))
    for case in itertools.chain(*gens):
        if only and case["op"] not in only.split(","):
            continue
        r = oracle_on_case(ctx, case)
        ctx.case_done(case, nontrivial=nontrivial(case, r))
        ctx.count("op_" + case["op"])
        if "err" in r:
            ctx.count(r["err"].split(" ")[0][:20])
        elif case["op"] in ("pipe", "compute"):
            ctx.count("power_samples_emitted", len(r["out"]))
            ctx.count("power_samples_clamped_or_zero", sum(1 for x in r["out"] if Q(x[2]) == 0))
            ctx.count("cases_multi_rank", int(len({x[0] for x in r["out"]}) > 1))
            if case["op"] == "pipe":
                wrapped = 0
                for pid in {s["pid"] for s in case["slices"]}:
                    us = [s["true_q"] for s in case["slices"] if s["pid"] == pid and s.get("true_q")]
                    wrapped += int(bool(us) and min(us) < M32 <= max(us))
                ctx.count("ranks_with_charge_wrap", wrapped)
        elif case["op"] == "e2e":
            ctx.count("e2e_power_samples", sum(len(v) for v in r["out"].values()))
        if case["op"] != "e2e":
            cases.append(case)
            reals.append(r)
    ctx.extra["exhaustive"] = False
    ctx.extra["exhaustive_streams"] = "the three small grids named in `rule` are enumerated completely; the random and e2e streams are not"
    if ctx.search_mode or not ctx.driver or not ctx.driver.ok:
        return
    outs = ctx.driver.ask([line(c) for c in cases])
    for case, r, o in zip(cases, reals, outs):
        ctx.compare(f"power model vs real stages ({case['op']})", case, parse_model(case, o), canon_real(case, r))


def shrink(ctx: Ctx, case, classifier):
    if case["op"] == "e2e":
        return case
    key = "slices" if case["op"] in ("pipe", "extract") else "ctrs"

    def bad(c):
        try:
            v = oracle(c, run_real(c))
        except Exception:  # noqa: BLE001
            return False
        return v is not None and v[0] == classifier
    cur = copy.deepcopy(case)
    changed = True
    while changed:
        changed = False
        for j in range(len(cur[key])):
            c2 = dict(cur)
            c2[key] = cur[key][:j] + cur[key][j + 1:]
            if bad(c2):
                cur, changed = c2, True
                break
    return cur


LEVEL_TEXT = ("Lean theorems over an executable model of extract_power_event -> sort_events(C, TS_cycles) -> compute_power "
              "(TS4 mode), for all inputs: on a time-sorted counter sequence with readings in [0, 2^32) compute_power never "
              "raises and emits exactly spec(valid samples): at t_i the value clamp(12*((Q_i+1 - Q_i) mod 2^32)/512/(t_i+1 - "
              "t_i)) for consecutive valid samples (non-zero reading, first of each time stamp); values are >= 0 and <= 100; "
              "unclamped, sum P_i*dt_i = 12/512 * sum of the modular charge deltas, which telescopes to the unwrapped charge "
              "delivered across wraps; emission times strictly increase; the per-pid state makes each rank independent of "
              "interleaving; the sorter delivers each rank time-sorted and extract establishes the remaining side conditions, "
              "so the whole sub-pipeline refines the spec per rank. Tied to the code by running the real registered stages "
              "and the compiled model on the same inputs, exact comparison.")
LEVEL_NOTE = ("Trusted: Lean kernel; axioms propext, Classical.choice, Quot.sound; the hand-written model is validated against "
              "the code by differential runs only; the exported double is compared against the correctly rounded rational "
              "(one IEEE division); hash(pid) injective; the wall-clock TS3/TS4 values come from stages that belong to C06.")
TECHNIQUE = "Lean 4 proof (induction over the counter sequence, Int/Rat arithmetic, omega) + model/implementation correspondence run"
