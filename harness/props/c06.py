"""C06 — device slice durations equal cycle deltas divided by the SoC frequency.

Correspondence: the real callbacks `cycle_count_to_wallclock` and `tighten_hts_by_instr_type` with the kwargs the
CLI registers (`lib.stage.cli_stages(['--freq=<f>:1100'])` -> soc_frequency) are run inside a real
EventProcessor/Engine on generated X events; the compiled Lean model `TimeSync.run` gets the same events.
Compared exactly per event: ts, dur, args.ts_all, args.ts_dev, args.time_adjust, and the exception class.  The
keyword tables are tied separately: `_get_ref_ts`, `FlexEventMapToTS.__getitem__`, `_match_opIds_from_event` and the
ref_idx cascade of `_convert_cycle_timestamps` (probed through its anchoring behaviour) against
`PhaseName.refIdx/flexMap/opIds/cvtRefIdx` on canonical and odd names.  No tolerant fields: inputs are on the exact
grid (freq a power of two, host times multiples of 1/16 us below 2^36, counters below 2^36).

Oracle (from the statement, never from the model), on every real execution:
* device slice whose phase is decided by the FLEX dialect's own rules (types.py: unanchored ' DmaI' / ' DmaO' anywhere in
  the name — e.g. 'Host DMA Wdone DmaI [to rank 0]' —, anchored ' Cmpt Prep$' / ' Cmpt Exec$'; exactly one rule matches
  and no keyword of another phase occurs) or whose name contains no phase keyword: dur == (TSb-TSa)/f for the pair of the statement's table, finite, > 0 when
  TSa < TSb; ts+dur == host-recorded end; with k*f: dur' == dur/k, same end, start moved by dur - dur/k;
* host-only slices (no TS1) and non-X events: ts and dur untouched;
* a raise on a slice whose counters are non-decreasing and whose projected start is >= 0 is a violation.
Exact on the grid; a second 'realistic double' stream (ts ~ 2e12 us with 3 decimals, 560/1000/899.577 MHz) and the
end-to-end stream (real Acelyzer API, single rank, `--freq f` vs `--freq k*f`, exported JSON) use 2e-3 us (the
resolution of a double near 2e12 us is 2.4e-4 us) and are never compared with the model.
Names that match several rules, carry a keyword of another phase as substring noise, carry a keyword that matches no
rule ('a Cmpt Exec b', 'xDmaI'), or end in a blank-less 'xCmpt Prep' / 'kCmpt Exec' (the reported excluded branch,
`C06.end_not_preserved_noncanonical`) get model comparison only.
"""
from __future__ import annotations

import contextlib
import copy
import io
import itertools
import math
from fractions import Fraction

from lib.core import Ctx, enc, rat
from lib import stage

ID = "C06"
NEEDS_GEN = True
LEAN_TARGETS = ["AiuVerif.Props.C06", "AiuVerif.Props.Order"]
THEOREMS = [
    "AiuVerif.C06.dur_eq_delta",
    "AiuVerif.C06.end_preserved",
    "AiuVerif.C06.freq_scaling",
    "AiuVerif.C06.host_only_untouched",
    "AiuVerif.C06.phase_tables_agree",
    "AiuVerif.C06.phase_tables_agree_other",
    "AiuVerif.C06.statement_canonical",
    "AiuVerif.C06.statement_other",
    "AiuVerif.C06.statement_midname_dma",
    "AiuVerif.C06.asserts_hold",
    "AiuVerif.C06.end_not_preserved_noncanonical",
    "AiuVerif.Order.timesync_order",   # registration order / guards / shared context, re-decided on the generated sites
]
RULE = ("streams of X slices for cycle_count_to_wallclock -> tighten_hts_by_instr_type: (i) exhaustive grid = 6 name "
        "classes (DmaI/Prep/Exec/DmaO suffix, keyword-free, SenRdma-style) x all 16 zero/non-zero patterns of the four "
        "counter gaps x freq {256,512,1024} x host duration {agreeing, disagreeing} x k {2, 1/2}; (ii) random streams "
        "of 1-8 events with random prefixes, counters, host times, host-only and non-X events; (iii) excluded/malformed: "
        "non-canonical names, decreasing counters, negative projected start, short counter lists; (iv) keyword-table tie "
        "on canonical and odd names; (v) realistic-double stream and end-to-end paired runs (oracle only). A case is "
        "non-trivial when a device slice gets a new ts or dur, or an error branch fires; distinct = distinct canonical case")
TRUSTED = ["IEEE doubles of the real code are exact on the generated grid; rounding off the grid is covered by the tolerant "
           "oracle streams only (DESIGN.md section 3)",
           "the two stages are stateless and adjacent in the registration (checked on the recorded registration each run)"]
ASSUMPTIONS = ["a device slice carries all five keys TS1..TS5 as integers", "PRE_TIGHTENED = True (module constant of timesync.py)"]
NOT_YET_PROVED = []
LEVEL_TEXT = ("Lean theorems over an executable model of cycle_count_to_wallclock and tighten_hts_by_instr_type for all "
              "events, all counters and all positive frequencies (Rat): dur = (TSb-TSa)/f for the pair selected by the "
              "name, > 0 iff TSa < TSb (dur_eq_delta); the end stays at the host end (end_preserved); k*f divides dur by "
              "k and moves only the start (freq_scaling); host-only events untouched; the four keyword tables of the "
              "code agree on every name with exactly one phase keyword in suffix position and on keyword-free names "
              "(phase_tables_agree*, general over all strings); the asserts do not fire when counters are monotone and "
              "the projected start is non-negative (asserts_hold). Tied to the code by running the real callbacks with "
              "the CLI-registered kwargs and the compiled model on the same events.")
LEVEL_NOTE = ("Trusted: Lean kernel; axioms propext, Classical.choice, Quot.sound; the hand-written model is validated against "
              "the real code by differential runs; double rounding off the exact grid is outside the theorems; names with "
              "a phase keyword that is not a blank-separated suffix are excluded (witness theorem).")
TECHNIQUE = "Lean 4 proof (case analysis on the keyword tables, field arithmetic over Rat) + model/implementation correspondence run"

KW = [" DmaI", " Cmpt Prep", " Cmpt Exec", " DmaO"]
KW_NB = ["DmaI", "Cmpt Prep", "Cmpt Exec", "DmaO"]
ERRMAP = {"AssertionError": "assert", "KeyError": "keyerror"}
TOL = 2e-3


# ---------------------------------------------------------------------------------------------
# real code
# ---------------------------------------------------------------------------------------------

_STAGE_CACHE: dict = {}


def _freq_arg(f):
    f = Fraction(f)
    return str(int(f)) if f.denominator == 1 else repr(float(f))


_SHAPE_PROBLEMS: list[str] = []


def _stages(freq):
    """the registered stages cycle_count_to_wallclock .. tighten_hts_by_instr_type with their CLI kwargs"""
    key = _freq_arg(freq)
    if key not in _STAGE_CACHE:
        with contextlib.redirect_stdout(io.StringIO()):
            rec = stage.cli_stages([f"--freq={key}:1100"])
        reg = [r for r in rec if r["registered"]]
        names = [r["name"] for r in reg]
        idx = [names.index(n) for n in ("cycle_count_to_wallclock", "tighten_hts_by_instr_type") if n in names]
        sub = reg[min(idx):max(idx) + 1]
        if [r["name"] for r in sub] != ["cycle_count_to_wallclock", "tighten_hts_by_instr_type"]:
            _SHAPE_PROBLEMS.append(f"registered sub-pipeline is {[r['name'] for r in sub]}, the model assumes "
                                   "cycle_count_to_wallclock directly followed by tighten_hts_by_instr_type")
        elif any(float(r["kwargs"].get("soc_frequency", -1)) != float(Fraction(freq)) for r in sub):
            _SHAPE_PROBLEMS.append("a stage is not registered with soc_frequency = --freq[0]")
        _STAGE_CACHE[key] = [(r["callback"], r["context"], r["kwargs"]) for r in sub]
    return _STAGE_CACHE[key]


def _real_event(e):
    args = {"uid": e["uid"]}
    if e["tsx"] is not None:
        for i, v in enumerate(e["tsx"]):
            args[f"TS{i+1}"] = str(v)
    d = {"name": e["name"], "ph": e["ph"], "pid": 0, "tid": 3, "ts": float(e["ts"]), "args": args}
    if e["ph"] == "X":
        d["dur"] = float(e["dur"])
    return d


def run_real(case, freq):
    out, err = stage.run_stages(_stages(freq), [_real_event(e) for e in case["events"]])
    if err is not None:
        return {"err": ERRMAP.get(err, "other:" + err)}
    res = []
    for o in out:
        a = o["args"]
        adj = a.get("time_adjust")
        res.append({"uid": a["uid"], "ts": o["ts"], "dur": o.get("dur"),
                    "ts_all": a.get("ts_all"), "ts_dev": a.get("ts_dev"),
                    "adjust": None if adj is None else [adj["ts"], adj["dur"]]})
    return {"ok": res}


def canon_real(r):
    """exact rational strings, comparable with the model's answer"""
    if "err" in r:
        return r

    def q(x):
        return None if x is None else rat(x)
    return {"ok": [{"uid": o["uid"], "ts": q(o["ts"]), "dur": q(o["dur"]) if o["dur"] is not None else "0",
                    "ts_all": None if o["ts_all"] is None else [q(x) for x in o["ts_all"]],
                    "ts_dev": None if o["ts_dev"] is None else [q(x) for x in o["ts_dev"]],
                    "adjust": None if o["adjust"] is None else [q(x) for x in o["adjust"]]} for o in r["ok"]]}


def real_tables(name):
    """the four keyword tables of the code on one name: refIdx, cvtRefIdx (probed), opIds, flexMap"""
    from aiu_trace_analyzer.pipeline.normalize import NormalizationContext
    from aiu_trace_analyzer.pipeline.tools import FlexEventMapToTS
    import aiu_trace_analyzer.pipeline.timesync as tsm
    ref = int(NormalizationContext._get_ref_ts(name)[2:]) - 1
    fm = FlexEventMapToTS()[name]
    fm = None if fm is None else [int(fm[0][2:]) - 1, int(fm[1][2:]) - 1]
    ops = [int(x) for x in tsm._match_opIds_from_event({"name": name})]
    # probe the ref_idx cascade: the anchored counter is the one projected onto ts+dur
    ev = {"name": name, "ph": "X", "ts": 1000.0, "dur": 10.0,
          "args": {"TS1": "0", "TS2": "64", "TS3": "128", "TS4": "192", "TS5": "256"}}
    conv = tsm._convert_cycle_timestamps(ev, 64.0)
    cvt = conv.index(1010.0)
    return {"ref": ref, "cvt": cvt, "ops": ops, "flex": fm}


# ---------------------------------------------------------------------------------------------
# oracle (from the statement)
# ---------------------------------------------------------------------------------------------

def stmt_pair(name):
    """counter pair (0-based) of the statement's table, the phase being decided by the FLEX dialect's own rules
    (types.py `_FLEX_DIALECT`): DmaI / DmaO by the UNANCHORED regexes ' DmaI' / ' DmaO' (anywhere in the name),
    Cmpt Prep / Cmpt Exec by the anchored 'Cmpt Prep$' / 'Cmpt Exec$'; a name without any phase keyword is 'any other
    device event'.  In the domain: exactly one rule matches and no keyword of another phase occurs anywhere.
    None (model comparison only) for: several matches, a keyword of another phase as substring noise, a keyword
    that matches no rule ('a Cmpt Exec b', 'xDmaI'), and the blank-less suffixes 'xCmpt Prep' / 'kCmpt Exec' — the
    reported excluded branch (`C06.end_not_preserved_noncanonical`)."""
    hits = []
    if " DmaI" in name:
        hits.append(0)
    if name.endswith("Cmpt Prep"):
        hits.append(1)
    if name.endswith("Cmpt Exec"):
        hits.append(2)
    if " DmaO" in name:
        hits.append(3)
    present = [i for i, k in enumerate(KW_NB) if k in name]
    if not hits:
        return (0, 4) if not present else None
    if len(hits) != 1 or present != hits:
        return None
    i = hits[0]
    if i in (1, 2) and not name.endswith(KW[i]):
        return None
    return (i, i + 1)


def name_class(name):
    p = stmt_pair(name)
    if p is None:
        return "noncanonical"
    if p == (0, 4):
        return "other"
    i = p[0]
    return "suffix" if name.endswith(KW[i]) else "midname"


def _close(a, b, tol):
    if tol == 0:
        return Fraction(a) == Fraction(b)
    return abs(float(a) - float(b)) <= tol


def well_formed(e, f):
    """counters non-decreasing and every projected start non-negative: the stages must not raise"""
    t = e["tsx"]
    if t is None or e["ph"] != "X":
        return True
    if len(t) != 5 or any(t[i] > t[i + 1] for i in range(4)):
        return False
    return Fraction(e["ts"]) + Fraction(e["dur"]) - Fraction(t[4] - t[0]) / Fraction(f) >= 0


def oracle(case, real_f, real_kf=None, tol=0):
    f = Fraction(case["freq"])
    k = Fraction(case.get("k", 1))
    for real, fr, which in ((real_f, f, "f"), (real_kf, f * k, "k*f")):
        if real is not None and "err" in real:
            if all(well_formed(e, fr) for e in case["events"]):
                return ("c06-crash", f"run with freq {which} raised {real['err']} although all counters are monotone and "
                                     "all projected starts are non-negative")
            return None
    out = {o["uid"]: o for o in real_f["ok"]}
    out2 = {o["uid"]: o for o in real_kf["ok"]} if real_kf is not None else None
    for e in case["events"]:
        o = out.get(e["uid"])
        if o is None:
            return ("c06-lost", f"uid={e['uid']} did not leave the stages")
        if e["ph"] != "X" or e["tsx"] is None:
            for oo in (o, out2.get(e["uid"]) if out2 is not None else None):
                if oo is None:
                    continue
                if oo["ts"] != e["ts"] or (e["ph"] == "X" and oo["dur"] != e["dur"]):
                    return ("c06-host-touched", f"host-only event uid={e['uid']} changed: ts {e['ts']}->{oo['ts']} "
                                                f"dur {e.get('dur')}->{oo['dur']}")
            continue
        pair = stmt_pair(e["name"])
        if pair is None or len(e["tsx"]) != 5:
            continue
        a, b = pair
        delta = e["tsx"][b] - e["tsx"][a]
        want = Fraction(delta) / f
        if not (isinstance(o["dur"], (int, float)) and math.isfinite(o["dur"])):
            return ("c06-dur", f"uid={e['uid']} dur not finite: {o['dur']}")
        if not _close(o["dur"], want, tol):
            return ("c06-dur", f"uid={e['uid']} '{e['name']}': dur {o['dur']} != (TS{b+1}-TS{a+1})/f = {float(want)}")
        if delta > 0 and not o["dur"] > 0:
            return ("c06-dur", f"uid={e['uid']}: dur {o['dur']} not strictly positive although TS{a+1} < TS{b+1}")
        end_in = Fraction(e["ts"]) + Fraction(e["dur"])
        if not _close(Fraction(o["ts"]) + Fraction(o["dur"]), end_in, tol):
            return ("c06-end", f"uid={e['uid']} '{e['name']}': end {o['ts'] + o['dur']} != host-recorded end {float(end_in)}")
        if out2 is not None:
            o2 = out2.get(e["uid"])
            if o2 is None:
                return ("c06-lost", f"uid={e['uid']} did not leave the stages with freq k*f")
            if not _close(o2["dur"], Fraction(o["dur"]) / k, tol):
                return ("c06-scaling", f"uid={e['uid']}: dur at k*f {o2['dur']} != dur/k = {float(Fraction(o['dur']) / k)}")
            if not _close(Fraction(o2["ts"]) + Fraction(o2["dur"]), Fraction(o["ts"]) + Fraction(o["dur"]), tol):
                return ("c06-scaling", f"uid={e['uid']}: end moved between freq f and k*f")
            if not _close(o2["ts"], Fraction(o["ts"]) + Fraction(o["dur"]) - Fraction(o["dur"]) / k, tol):
                return ("c06-scaling", f"uid={e['uid']}: start at k*f {o2['ts']} is not start + dur - dur/k")
    return None


# ---------------------------------------------------------------------------------------------
# generators
# ---------------------------------------------------------------------------------------------

GRID_NAMES = ["k DmaI", "k Cmpt Prep", "k Cmpt Exec", "k DmaO", "kernel_7", "SenRdmaSend_12 [sync=AllReduce_1_s0_r1_0] DmaO",
              "Host DMA Wdone DmaI [to rank 0]", "Host DMA DmaO [from rank 1] x DmaO tail"]
TAILS = ["", "", "", " [to rank 0]", " x", "_7", " DmaX"]


def rand_name(rng):
    kw = rng.choice(KW + [""])
    tail = rng.choice(TAILS) if kw in (" DmaI", " DmaO") else ""
    if tail and kw and rng.random() < 0.15:
        tail += kw           # the same keyword twice
    return rng.choice(PREFIXES) + kw + tail


def grid_cases(ctx: Ctx):
    uid = 0
    for name, gaps, f, agree, k in itertools.product(GRID_NAMES, itertools.product((0, 1), repeat=4), (256, 512, 1024),
                                                    (True, False, "span"), ("2", "1/2")):
        c = [5_000_000_000]
        for i, g in enumerate(gaps):
            c.append(c[-1] + g * (1024 * (i + 3)))
        pair = stmt_pair(name)
        a, b = pair
        ts = 1_000_000.0 + 16 * len(name)
        # agree: the host window is the phase's own delta; "span": it is exactly the device span from TS1 to the end
        # counter of the phase (the first conversion pass then has nothing to adjust); else: unrelated
        dur = float(Fraction(c[b] - c[0]) / f) if agree == "span" else float(Fraction(c[b] - c[a]) / f) if agree else 77.5
        uid += 1
        yield {"freq": f, "k": k, "tag": "grid", "events": [
            {"uid": uid, "ph": "X", "name": name, "ts": ts, "dur": dur, "tsx": c}]}


PREFIXES = ["mm_3", "AllReduce_all_reduce_1_Add_1", "SenRdmaReceive_41 [524288B] [sync=g_s0_r1_0]", "x", "a b c", "Flex RoundTrip",
            "SenRDMASend_9 - Xseg to rank 2", "q-Δ"]


def rand_counters(rng, lo=0):
    c = [rng.randrange(lo, 1 << 35)]
    for _ in range(4):
        r = rng.random()
        c.append(c[-1] + (0 if r < 0.25 else rng.randrange(1, 2000) if r < 0.7 else rng.randrange(1, 1 << 22)))
    return c


def random_case(ctx: Ctx):
    rng = ctx.rng
    f = rng.choice([256, 512, 1024, 2048])
    k = rng.choice(["2", "4", "1/2", "1/4"])
    if Fraction(k) * f < 128:
        k = "2"
    evs = []
    for uid in range(1, rng.randint(1, 8) + 1):
        r = rng.random()
        ts = rng.randrange(1 << 26, 1 << 36) / 16
        if r < 0.7:
            name = rand_name(rng)
            c = rand_counters(rng)
            evs.append({"uid": uid, "ph": "X", "name": name, "ts": ts, "dur": rng.randrange(0, 1 << 16) / 16, "tsx": c})
        elif r < 0.9:
            evs.append({"uid": uid, "ph": "X", "name": rng.choice(["AIU Roundtrip", "host fn DmaI", "Compute of x"]),
                        "ts": ts, "dur": rng.randrange(0, 1 << 12) / 16, "tsx": None})
        else:
            evs.append({"uid": uid, "ph": rng.choice(["C", "i", "M"]), "name": "n Cmpt Exec", "ts": ts, "dur": 0.0,
                        "tsx": rand_counters(rng) if rng.random() < 0.5 else None})
    return {"freq": f, "k": k, "tag": "random", "events": evs}


ODD_NAMES = ["xCmpt Prep", "Cmpt Exec", "a DmaO b", "a DmaI b Cmpt Exec", "DmaI", " DmaI", "a  DmaO", "a DmaOCmpt Exec",
             "xDmaI y Cmpt Prep", "p Cmpt Prep Cmpt Prep", "a Cmpt Exec DmaI", "a DmaO x DmaI", "kCmpt Exec", "DmaO",
             "a DmaI ", "Cmpt Prep Cmpt Exec", "a cmpt exec", ""]


def malformed_case(ctx: Ctx):
    rng = ctx.rng
    f = rng.choice([256, 512, 1024])
    kind = rng.choice(["oddname", "oddname", "decreasing", "negstart", "short", "negcounter"])
    name = rng.choice(PREFIXES) + rng.choice(KW + [""])
    c = rand_counters(rng)
    ts = rng.randrange(1 << 26, 1 << 36) / 16
    dur = rng.randrange(0, 1 << 16) / 16
    if kind == "oddname":
        name = rng.choice(ODD_NAMES)
    elif kind == "decreasing":
        i = rng.randrange(1, 5)
        c[i] = c[i - 1] - rng.randrange(1, 5000)
    elif kind == "negstart":
        ts = rng.randrange(0, 1 << 10) / 16
        dur = rng.randrange(0, 1 << 8) / 16
    elif kind == "short":
        c = c[:rng.randrange(1, 5)]
    else:
        c = [x - (1 << 36) for x in c]
    return {"freq": f, "k": "2", "tag": "malformed:" + kind,
            "events": [{"uid": 1, "ph": "X", "name": name, "ts": ts, "dur": dur, "tsx": c}]}


def realistic_case(ctx: Ctx):
    rng = ctx.rng
    f = rng.choice(["560", "1000", "899577/1000"])
    evs = []
    for uid in range(1, rng.randint(2, 6)):
        name = rand_name(rng)
        c = rand_counters(rng, lo=1 << 20)
        pair = stmt_pair(name)
        if pair is None:
            continue
        ts = round(2e12 + rng.random() * 1e9, 3)
        dur = round(float(Fraction(c[pair[1]] - c[pair[0]]) / Fraction(f)) + rng.choice([0, 0, 0.001, -0.001]), 3)
        evs.append({"uid": uid, "ph": "X", "name": name, "ts": ts, "dur": max(dur, 0.0), "tsx": c})
    return {"freq": f, "k": rng.choice(["2", "3", "1/2"]), "tag": "realistic", "events": evs}


def gen_cases(ctx: Ctx):
    yield from grid_cases(ctx)
    for _ in range(ctx.n(2500, 40000)):
        yield random_case(ctx)
    for _ in range(ctx.n(800, 10000)):
        yield malformed_case(ctx)


# ---------------------------------------------------------------------------------------------
# end-to-end paired runs (oracle only)
# ---------------------------------------------------------------------------------------------

def e2e_case(ctx: Ctx):
    """single-rank trace on the grid; returns a JSON-able case"""
    rng = ctx.rng
    f = rng.choice([256, 512, 1024])
    t = 200.0
    slices = []
    for uid in range(1, rng.randint(3, 9)):
        ptype = rng.randrange(5) if not (slices and rng.random() < 0.3) else slices[-1]["ptype"]
        gaps = [rng.choice([0, 0, rng.randint(1, 60)]) for _ in range(4)]
        if ptype < 4 and gaps[ptype] == 0:
            gaps[ptype] = rng.randint(1, 60)
        if ptype == 4 and sum(gaps) == 0:
            gaps[0] = 5
        if slices and slices[-1]["ptype"] == ptype and ptype < 4 and rng.random() < 0.5:
            # the same lane as the previous slice, starting two device cycles (a few nanoseconds) before that one ends
            prev = slices[-1]["ts5"]
            t = prev[ptype + 1] - 2.0 / f - sum(gaps[:ptype])
        ts5 = [t]
        for g in gaps:
            ts5.append(ts5[-1] + g)
        slices.append({"ptype": ptype, "ts5": ts5, "prefix": rng.choice(["mm_3", "x", "SenRdmaSend_5 [sync=a_s0_r1_0]"]),
                       "tail": rng.choice(["", "", " [to rank 0]", " x"]) if ptype in (0, 3) else ""})
        t = ts5[4] + rng.randint(1, 50)
    return {"tag": "e2e", "freq": f, "k": rng.choice(["2", "4"]), "host_epoch": float(rng.randrange(1 << 20, 1 << 30)),
            "dev_epoch": rng.randrange(0, 1 << 31), "slices": slices,
            "host": [[10.0, t + 10.0]],
            # the statement holds for every option set: vary switches that change which other stages run
            "opts": rng.choice([[], [], ["--drop_globals"], ["-M"], ["-t"], ["--disable_tb"],
                                ["--drop_globals", "-t"]]),
            "doc": rng.choice([None, None, "ns", "ms"]), "default_after": rng.random() < 0.5}


def run_e2e(case):
    from gen import scenario
    f = case["freq"]
    rk = scenario.Rank(0, float(f), case["host_epoch"], case["dev_epoch"])
    for i, s in enumerate(case["slices"]):
        name = s["prefix"] + (KW[s["ptype"]] if s["ptype"] < 4 else "") + s.get("tail", "")
        rk.dev_event(name, 100 + s["ptype"], s["ts5"])
    for a, b in case["host"]:
        rk.host_event("AIU Roundtrip", 77, a, b)
    inp = rk.event_list()
    res = []
    for fr in (Fraction(f), Fraction(f) * Fraction(case["k"])):
        with contextlib.redirect_stdout(io.StringIO()):
            doc = copy.deepcopy(inp)
            if case.get("doc"):
                # the object form of a trace file with the viewer hint of the chrome format (ts / dur stay microseconds)
                doc = {"traceEvents": doc, "displayTimeUnit": case["doc"]}
            r = stage.e2e([f"--freq={_freq_arg(fr)}:1100", "--keep_prep", *case.get("opts", [])],
                          {"trace_rank_0.json": doc})
        res.append(r)
    if case.get("default_after"):
        # a history: the same job recorded at the tool's DEFAULT frequency, analysed WITHOUT --freq in the same process
        # after the two runs above (which named their frequency explicitly)
        rk3 = scenario.Rank(0, 1000.0, case["host_epoch"], case["dev_epoch"])
        for i, s in enumerate(case["slices"]):
            name = s["prefix"] + (KW[s["ptype"]] if s["ptype"] < 4 else "") + s.get("tail", "")
            rk3.dev_event(name, 100 + s["ptype"], s["ts5"])
        for a, b in case["host"]:
            rk3.host_event("AIU Roundtrip", 77, a, b)
        inp3 = rk3.event_list()
        with contextlib.redirect_stdout(io.StringIO()):
            r3 = stage.e2e(["--keep_prep", *case.get("opts", [])], {"trace_rank_0.json": copy.deepcopy(inp3)})
        r3["_inp"] = inp3
        res.append(r3)
    return inp, res


def oracle_e2e(case, inp, res):
    f = Fraction(case["freq"])
    k = Fraction(case["k"])
    begins, ends = {}, {}
    for e in inp:
        a = e.get("attr", e.get("args"))
        (begins if e["ph"] == "B" else ends)[a["uid"]] = e
    outs = []
    for r in res:
        if r["error"] or r["rc"] != 0 or r["events"] is None:
            return ("c06-crash", f"acelyzer failed on a well-formed single-rank trace: rc={r['rc']} {r['error']}")
        outs.append({e["args"]["uid"]: e for e in r["events"] if e.get("ph") == "X" and "uid" in e.get("args", {})})
    for uid, b in begins.items():
        e_in = ends[uid]
        o1, o2 = outs[0].get(uid), outs[1].get(uid)
        if "--drop_globals" in case.get("opts", []) and b.get("attr") is None and o1 is None and o2 is None:
            continue        # documented removal of the global host slices (C01), not C06's business
        if o1 is None or o2 is None:
            return ("c06-lost", f"slice {uid} missing in the exported trace")
        a = b.get("attr")
        if a is None:       # host-only
            for o in (o1, o2):
                if o["ts"] != b["ts"] or o["dur"] != e_in["ts"] - b["ts"]:
                    return ("c06-host-touched", f"host-only slice {uid}: exported ts/dur {o['ts']}/{o['dur']} != input "
                                                f"{b['ts']}/{e_in['ts'] - b['ts']}")
            continue
        pair = stmt_pair(b["name"])
        # the cycle delta of the INPUT counters (32-bit, a phase is far shorter than a wrap period) - not of the
        # exported args.TS*, which an upstream stage rewrites together with everything derived from them
        ts_in = [int(a[f"TS{i}"], 0) if isinstance(a[f"TS{i}"], str) else int(a[f"TS{i}"]) for i in range(1, 6)]
        delta = (ts_in[pair[1]] - ts_in[pair[0]]) % (1 << 32)
        for o, fr in ((o1, f), (o2, f * k)):
            if not _close(o["dur"], Fraction(delta) / fr, TOL) or not (o["dur"] > 0 and math.isfinite(o["dur"])):
                return ("c06-dur", f"exported slice {uid} '{b['name']}': dur {o['dur']} != (TS{pair[1]+1}-TS{pair[0]+1})/freq "
                                   f"= {float(Fraction(delta) / fr)}")
            if not _close(o["ts"] + o["dur"], e_in["ts"], TOL):
                return ("c06-end", f"exported slice {uid}: end {o['ts'] + o['dur']} != host-recorded end {e_in['ts']}")
        if not _close(o2["dur"], Fraction(o1["dur"]) / k, TOL) or \
                not _close(o2["ts"], Fraction(o1["ts"]) + Fraction(o1["dur"]) - Fraction(o1["dur"]) / k, TOL):
            return ("c06-scaling", f"exported slice {uid}: ts/dur at k*f = {o2['ts']}/{o2['dur']}, at f = {o1['ts']}/{o1['dur']}")
    if len(res) == 3:
        b3, e3 = {}, {}
        for e in res[2]["_inp"]:
            a = e.get("attr", e.get("args"))
            (b3 if e["ph"] == "B" else e3)[a["uid"]] = e
        for uid, b in b3.items():
            a, o = b.get("attr"), outs[2].get(uid)
            if a is None or o is None:
                continue
            pair = stmt_pair(b["name"])
            ts_in = [int(a[f"TS{i}"], 0) if isinstance(a[f"TS{i}"], str) else int(a[f"TS{i}"]) for i in range(1, 6)]
            delta = (ts_in[pair[1]] - ts_in[pair[0]]) % (1 << 32)
            if not _close(o["dur"], Fraction(delta) / 1000, TOL):
                return ("c06-dur", f"run without --freq after runs with --freq {f} and {f * k} in the same process: exported slice "
                                   f"{uid} '{b['name']}' has dur {o['dur']} != (TS{pair[1]+1}-TS{pair[0]+1})/1000 MHz = "
                                   f"{float(Fraction(delta) / 1000)}")
    return None


# ---------------------------------------------------------------------------------------------
# model side
# ---------------------------------------------------------------------------------------------

def line(case, freq):
    items = []
    for e in case["events"]:
        tsx = "-" if e["tsx"] is None else ":".join(str(int(c)) for c in e["tsx"])
        items.append(",".join([str(e["uid"]), enc(e["ph"]), enc(e["name"]), rat(e["ts"]),
                               rat(e["dur"] if e["ph"] == "X" else 0.0), tsx]))
    return f"c06 {rat(Fraction(freq))} " + ";".join(items)


def parse_model(s):
    if s.startswith("err:"):
        return {"err": s[4:]}
    assert s.startswith("ok"), s

    def lst(x):
        return None if x == "-" else x.split(":")
    res = []
    for item in s[2:].strip().split(";"):
        if not item:
            continue
        uid, ts, dur, ts_all, ts_dev, adj = item.split(",")
        res.append({"uid": int(uid), "ts": ts, "dur": dur, "ts_all": lst(ts_all), "ts_dev": lst(ts_dev), "adjust": lst(adj)})
    return {"ok": res}


def parse_tables(s):
    ref, cvt, ops, flex = s.split(",")
    return {"ref": int(ref), "cvt": int(cvt), "ops": [int(x) for x in ops.split(":") if x],
            "flex": None if flex == "-" else [int(x) for x in flex.split(":")]}


def oracle_on_case(ctx: Ctx, case, verbose=False):
    if case.get("tag") == "e2e-mr":
        v = e2e_mr_eval(case)
        if v:
            ctx.violation(v[0], v[1], case)
        return None, None
    if case.get("tag") == "e2e":
        inp, res = run_e2e(case)
        v = oracle_e2e(case, inp, res)
        if verbose:
            for r in res:
                print("exported:", [(e["name"], e["ts"], e["dur"]) for e in (r["events"] or []) if e.get("ph") == "X"])
        if v:
            ctx.violation(v[0], v[1], case)
        return None
    if case.get("tag") == "tables":     # a keyword-table disagreement: look at a slice with that name
        case = {"freq": 512, "k": "2", "tag": "tables-derived", "events": [
            {"uid": 1, "ph": "X", "name": case["name"], "ts": 1000000.0, "dur": 50.0,
             "tsx": [1 << 33, (1 << 33) + 1024, (1 << 33) + 4096, (1 << 33) + 10240, (1 << 33) + 20480]}]}
    f = Fraction(case["freq"])
    r1 = run_real(case, f)
    r2 = run_real(case, f * Fraction(case.get("k", 1)))
    tol = TOL if case.get("tag") == "realistic" else 0
    v = oracle(case, r1, r2, tol)
    if verbose:
        print("real at f:  ", r1)
        print("real at k*f:", r2)
    if v:
        ctx.violation(v[0], v[1], case)
    return r1, r2


def classify(case, r1):
    labels = []
    if "err" in r1:
        labels.append("err:" + r1["err"])
        return True, labels
    changed = False
    for e, o in zip(case["events"], r1["ok"]):
        if e["ph"] == "X" and e["tsx"] is not None:
            p = stmt_pair(e["name"])
            labels.append("pair:" + ("noncanonical" if p is None else f"TS{p[0]+1}-TS{p[1]+1}"))
            labels.append("name:" + name_class(e["name"]))
            if o["ts"] != e["ts"] or o["dur"] != e["dur"]:
                changed = True
            if p is not None and len(e["tsx"]) == 5 and e["tsx"][p[0]] == e["tsx"][p[1]]:
                labels.append("zero_own_gap")
        else:
            labels.append("host_or_nonX")
    return changed, labels


def e2e_mr_eval(case):
    """several ranks with collectives, default options: the clock alignment (C07) is active and moves slices - the
    durations must still be the cycle deltas of the INPUT counters over the SoC frequency, also for device events
    without a phase keyword.  Returns (classifier, text) or None."""
    from gen import scenario
    f = case["freq"]
    ranks = scenario.build_ranks(R=case["R"], groups=1, freq=float(f), seed=case["seed"], kernels=1)
    for rk in ranks:
        t = max(p[1]["ts"] for p in rk.events) - rk.host_epoch + 20.0
        for j, gaps in enumerate(case["plain"]):
            ts5 = [t]
            for g in gaps:
                ts5.append(ts5[-1] + g)
            rk.dev_event(f"ScratchpadFlush_{j}", 140 + j, ts5)
            t = ts5[4] + 5
    files = {f"trace_rank_{rk.r}.json": rk.event_list() for rk in ranks}
    with contextlib.redirect_stdout(io.StringIO()):
        r = stage.e2e([f"--freq={_freq_arg(Fraction(f))}:1100", "--keep_prep", *case.get("opts", [])], files)
    if r["error"] or r["rc"] != 0 or r["events"] is None:
        return ("c06-crash", f"acelyzer failed on a well-formed {case['R']}-rank trace: rc={r['rc']} {r['error']}")
    out = {e["args"]["uid"]: e for e in r["events"] if e.get("ph") == "X" and "uid" in e.get("args", {})}
    for evs in files.values():
        for b in evs:
            a = b.get("attr")
            if b["ph"] != "B" or not a:
                continue
            o = out.get(a["uid"])
            if o is None:
                return ("c06-lost", f"device slice {a['uid']} '{b['name']}' missing in the exported trace")
            pair = stmt_pair(b["name"])
            ts_in = [int(a[f"TS{i}"], 0) if isinstance(a[f"TS{i}"], str) else int(a[f"TS{i}"]) for i in range(1, 6)]
            delta = (ts_in[pair[1]] - ts_in[pair[0]]) % (1 << 32)
            if not _close(o["dur"], Fraction(delta) / Fraction(f), TOL):
                return ("c06-dur", f"{case['R']} ranks, alignment active: exported slice '{b['name']}' has dur {o['dur']} != "
                                   f"(TS{pair[1]+1}-TS{pair[0]+1})/freq = {float(Fraction(delta) / Fraction(f))}")
    return None


def run(ctx: Ctx):
    cases, reals = [], []
    for _ in range(ctx.n(6, 40)):
        rng = ctx.rng
        case = {"tag": "e2e-mr", "freq": rng.choice([256, 512, 1024]), "R": rng.choice([2, 2, 3]), "seed": rng.randint(0, 10 ** 6),
                "plain": [[rng.choice([0, 2, 5]), rng.choice([0, 1, 3]), rng.choice([1, 4]), rng.choice([0, 2])]
                          for _j in range(rng.randint(1, 3))],
                "opts": rng.choice([[], [], ["-t"], ["--flow"]])}
        v = e2e_mr_eval(case)
        if v:
            ctx.violation(v[0], v[1], case)
        ctx.count("stream:e2e-multi-rank")
        ctx.case_done(case, nontrivial=True)
    for case in gen_cases(ctx):
        r1, r2 = oracle_on_case(ctx, case)
        nt, labels = classify(case, r1)
        for l in labels:
            ctx.count(l)
        ctx.count("stream:" + case["tag"].split(":")[0])
        ctx.case_done(case, nontrivial=nt)
        cases.append(case)
        reals.append((r1, r2))
    # oracle-only streams
    for _ in range(ctx.n(400, 5000)):
        case = realistic_case(ctx)
        oracle_on_case(ctx, case)
        ctx.count("stream:realistic")
        ctx.case_done(case, nontrivial=bool(case["events"]))
    for _ in range(ctx.n(40, 600)):
        case = e2e_case(ctx)
        oracle_on_case(ctx, case)
        ctx.count("stream:e2e")
        ctx.case_done(case, nontrivial=True)
    ctx.extra["exhaustive"] = False
    ctx.extra["exhaustive_grid"] = "name class x 16 gap patterns x freq x host duration x k"
    for pb in sorted(set(_SHAPE_PROBLEMS)):
        if not any(b["what"].endswith(pb) for b in ctx.broken):
            ctx.obligation_broken("pipeline shape: " + pb, pb)
    if ctx.search_mode or not ctx.driver or not ctx.driver.ok:
        return
    names = sorted(set(GRID_NAMES + ODD_NAMES + [p + k + t for p in PREFIXES for k in KW + [""] for t in ("", " [to rank 0]")]))
    lines = []
    for c in cases:
        f = Fraction(c["freq"])
        lines.append(line(c, f))
        lines.append(line(c, f * Fraction(c["k"])))
    lines += [f"c06 tables {enc(n)}" for n in names]
    outs = ctx.driver.ask(lines)
    what = ("timesync model vs cycle_count_to_wallclock + tighten_hts_by_instr_type "
            "(ts, dur, ts_all, ts_dev, time_adjust, error class)")
    for i, (case, (r1, r2)) in enumerate(zip(cases, reals)):
        ctx.compare(what + " at freq f", case, parse_model(outs[2 * i]), canon_real(r1))
        ctx.compare(what + " at freq k*f", case, parse_model(outs[2 * i + 1]), canon_real(r2))
    for n, o in zip(names, outs[2 * len(cases):]):
        ctx.compare("keyword tables: _get_ref_ts / _convert_cycle_timestamps ref_idx / _match_opIds_from_event / "
                    "FlexEventMapToTS vs PhaseName", {"tag": "tables", "name": n}, parse_tables(o), real_tables(n))
        ctx.count("tables_compared")


def shrink(ctx: Ctx, case, classifier):
    if case.get("tag") in ("e2e", "e2e-mr") or "events" not in case:
        return case
    case = copy.deepcopy(case)
    tol = TOL if case.get("tag") == "realistic" else 0

    def bad(c):
        try:
            f = Fraction(c["freq"])
            v = oracle(c, run_real(c, f), run_real(c, f * Fraction(c.get("k", 1))), tol)
        except Exception:
            return False
        return v is not None and v[0] == classifier
    changed = True
    while changed and len(case["events"]) > 1:
        changed = False
        for j in range(len(case["events"])):
            c2 = dict(case, events=case["events"][:j] + case["events"][j + 1:])
            if bad(c2):
                case, changed = c2, True
                break
    return case
