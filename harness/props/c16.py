"""C16 — every stage the command line requests is registered, for all flag combinations.

Tie to /repo: (1) translator — the site list and the profiles are regenerated from the source on
every run and the theorems are re-proved against them; (2) correspondence of the Lean
`ingestProfile` / `fwdFind` / `registerAll` with the real StageProfile / StageProfileChecker on
random profiles and request sequences (including ones that violate the static condition);
(3) the real `Acelyzer.register_processing_functions` on a recording EventProcessor for sampled
flag sets x profiles: recorded request sequence vs translated site list (translator cross-check)
and recorded accept/skip decisions vs the model.

Oracle (from the statement): under default/everything every requested stage is registered; under
a profile that disables entry k exactly the registration at source site k is skipped; under
torch_minimal each call gets the flag of its own entry.  Site index = position of the call site
in source order (line number -> index), independent of the model.
"""
from __future__ import annotations

import copy
import json
import os
import shutil
import sys
import tempfile

from lib.core import Ctx, REPO

ID = "C16"
NEEDS_GEN = True
LEAN_TARGETS = ["AiuVerif.Props.C16"]
THEOREMS = [
    "AiuVerif.C16.greedy_identity",
    "AiuVerif.C16.static_condition_holds",
    "AiuVerif.C16.names_match",
    "AiuVerif.C16.everything_all_enabled",
    "AiuVerif.C16.ingest_same_names",
    "AiuVerif.C16.registration_own_flags",
    "AiuVerif.C16.default_is_everything",
    "AiuVerif.C16.default_registers_all",
    "AiuVerif.C16.single_disabled",
    "AiuVerif.C16.disableAt_flags",
    "AiuVerif.C16.torch_minimal_names",
    "AiuVerif.C16.torch_minimal_own_flags",
]
RULE = ("(a) random profiles (subsets, reordered, unknown and repeated names) x random request sequences through the "
        "real StageProfile/StageProfileChecker; (b) random switch sets drawn from the stage-selecting options x "
        "{default, everything, torch_minimal, single-entry-disabled k} through the real register_processing_functions "
        "on a recording EventProcessor. Non-trivial: (a) at least one lookup skips over a same-name or disabled entry, "
        "(b) at least one conditional site is reached and at least one is not. Distinct = distinct canonical case.")
TRUSTED = ["translator harness/translate.py: Python ast of register_processing_functions + JSON profiles; "
           "cross-checked every run against the recorded real register_stage call sequence",
           "a run reaches each call site at most once and in source order (no loops: enforced by the translator's shape check)"]
ASSUMPTIONS = ["quantifying over all subsets of conditional sites covers every switch combination (a superset of the reachable ones)"]
NOT_YET_PROVED = []
LEVEL_TEXT = ("Lean theorem greedy_identity: for any site list satisfying a decidable static condition, any profile flags "
              "over the same names and ANY subset of conditional sites reached, greedy forward matching pairs every "
              "register_stage call with the profile entry of its own site. The condition, the name match and the "
              "per-profile corollaries (default registers everything; single-entry-disabled skips exactly its own site, for "
              "all k; torch_minimal gives own flags) are re-decided by the kernel on the site list and profiles regenerated "
              "from /repo on every run. This covers every switch combination at once, not a sample.")
LEVEL_NOTE = ("Trusted: Lean kernel, axioms propext/Classical.choice/Quot.sound, the AST translator (cross-checked against the "
              "recorded real call sequence), the correspondence run for ingestProfile/fwdFind. -P with a user-written profile "
              "that does not list every stage is modelled (ingestProfile) but only the shipped profiles and single-entry-disabled "
              "ones are covered by theorems.")
TECHNIQUE = "Lean 4 proof over source-generated data (translator, decide +kernel) + correspondence run"


# ---------------------------------------------------------------------------------------------
def enc_prof(p):
    if p is None:
        return "-"
    if not p:
        return "!"
    return ",".join(f"{n}:{1 if e else 0}" for n, e in p)


def real_ingest(req, allp):
    from aiu_trace_analyzer.core.stage_profile import StageProfile
    a = {"stages": [{n: e} for n, e in allp]}
    r = copy.deepcopy(a) if req is None else {"stages": [{n: e} for n, e in req]}
    try:
        sp = StageProfile(r, a)
    except IndexError:
        return "err:IndexError", None
    return "ok " + enc_prof(sp.profile), sp


def real_register(sp, names):
    from aiu_trace_analyzer.core.stage_profile import StageProfileChecker
    chk = StageProfileChecker(sp)
    return "".join("1" if chk.fwd_find_stage(n) else "0" for n in names)


def unit_cases(ctx: Ctx):
    rng = ctx.rng
    alpha = ["a", "b", "c", "d", "e"]
    for _ in range(ctx.n(1500, 20000)):
        n = rng.randint(1, 8)
        allp = [(rng.choice(alpha), True) for _ in range(n)]
        mode = rng.random()
        if mode < 0.15:
            req = None
        elif mode < 0.5:      # same names, random flags
            req = [(nm, rng.random() < 0.7) for nm, _ in allp]
        elif mode < 0.8:      # subsequence
            req = [(nm, rng.random() < 0.7) for nm, _ in allp if rng.random() < 0.7]
        else:                 # arbitrary
            req = [(rng.choice(alpha + ["zz"]), rng.random() < 0.7) for _ in range(rng.randint(0, 8))]
        names = [rng.choice(alpha) for _ in range(rng.randint(0, 10))] if rng.random() < 0.5 else \
            [nm for nm, _ in allp if rng.random() < 0.75]
        yield {"kind": "unit", "req": req, "all": allp, "names": names}


# ---------------------------------------------------------------------------------------------
SWITCHES = ["--flow", "-R", "-M", "-S", "-s", "--flex_ts_fix", "--drop_globals", "--keep_prep",
            "--comm_summarize_seq", "--power-stats", "-t", "--disable_tb", "--tb", "-k"]
COUNTERS = ["power_ts4", "power_ts3", "coll_bw", "bandwidth", "prep_queue", "rcu_util"]


def random_argv(rng, complog):
    argv = []
    if rng.random() < 0.7:
        argv += ["-O", rng.choice(["drop", "tid", "async", "warn", "shift"])]
    for s in SWITCHES:
        if rng.random() < (0.5 if s in ("--comm_summarize_seq", "--flow", "-t") else 0.3):
            argv.append(s)
    if rng.random() < 0.6:
        cs = [c for c in COUNTERS if rng.random() < 0.5]
        if "power_ts3" in cs and "power_ts4" in cs:
            cs.remove(rng.choice(["power_ts3", "power_ts4"]))
        argv += ["-C", *cs]
    if rng.random() < 0.5:
        argv += ["-c", complog]
    if rng.random() < 0.3:
        argv += ["-F", rng.choice(["C", "X", "XC"])]
    return argv


LAST_REWRITTEN = []


def record_registration(argv, profile_path, tmp):
    """the real register_processing_functions on a recording EventProcessor.
    returns list of (name, lineno, accepted)"""
    import aiu_trace_analyzer.logger as aiulog
    from aiu_trace_analyzer.core.acelyzer import Acelyzer
    from aiu_trace_analyzer.core.processing import EventProcessor
    from aiu_trace_analyzer.core.stage_profile import StageProfile
    import aiu_trace_analyzer.export.exporter as output
    saved = sys.argv
    sys.argv = ["acelyzer"]
    try:
        full = ["-i", "dummy.json", "-o", os.path.join(tmp, "out.json"), "-D", "0", *argv]
        if profile_path:
            full += ["-P", profile_path]
        ace = Acelyzer(full)
        aiulog.loglevel = -1
        # what the command line itself says (the argument parser alone) against what registration is handed:
        # an on/off switch given on the command line must reach register_processing_functions as given
        import contextlib as _cl
        import io as _io
        with _cl.redirect_stdout(_io.StringIO()):
            raw = vars(ace.parse_inputs(full))
        LAST_REWRITTEN[:] = sorted(k for k, v in raw.items() if isinstance(v, bool) and vars(ace.args).get(k) != v)
    finally:
        sys.argv = saved
    rec = []

    class Rec(EventProcessor):
        def register_stage(self, callback, context=None, **kwargs):
            before = len(self.stages)
            super().register_stage(callback, context, **kwargs)
            rec.append((callback.__name__, sys._getframe(1).f_lineno, len(self.stages) > before))
    proc = Rec(profile=StageProfile.from_json(ace.args.profile))
    exporter = output.JsonFileTraceExporter(target_uri=os.path.join(tmp, "out.json"),
                                            timescale=ace.args.time_unit, settings=vars(ace.args))
    ace.register_processing_functions(proc, ace.args, exporter)
    # the processor must hold exactly the accepted stages (+ the built-in sanity check), in request order
    reg_names = [s[0].__name__ for s in proc.stages[1:]]
    return rec, reg_names, ace.args.profile


def rerun_registration(argv, tmp):
    """Acelyzer(...).run() twice on ONE object over a tiny trace, every register_stage call of the process recorded:
    returns a description of the difference between the two runs, or None"""
    import aiu_trace_analyzer.logger as aiulog
    from aiu_trace_analyzer.core.acelyzer import Acelyzer
    from aiu_trace_analyzer.core.processing import EventProcessor
    p = os.path.join(tmp, "tiny.json")
    with open(p, "w") as fh:
        json.dump([{"ph": "X", "name": "hostop", "pid": 0, "tid": 1, "ts": 10.0, "dur": 2.0, "args": {"uid": 1}},
                   {"ph": "X", "name": "hostop2", "pid": 0, "tid": 1, "ts": 20.0, "dur": 2.0, "args": {"uid": 2}}], fh)
    rec = []
    orig = EventProcessor.register_stage

    def logged(self, callback, context=None, **kwargs):
        before = len(self.stages)
        r = orig(self, callback, context, **kwargs)
        rec.append((callback.__name__, len(self.stages) > before))
        return r
    saved = sys.argv
    sys.argv = ["acelyzer"]
    EventProcessor.register_stage = logged
    try:
        import contextlib
        import io
        with contextlib.redirect_stdout(io.StringIO()):
            ace = Acelyzer(["-i", p, "-o", os.path.join(tmp, "rerun_out.json"), "-D", "0", *argv])
            aiulog.loglevel = -1
            runs = []
            for _k in range(2):
                del rec[:]
                try:
                    ace.run()
                except Exception as e:  # noqa: BLE001
                    return f"run {_k + 1} of the same object raised {type(e).__name__}: {str(e)[:120]}"
                runs.append(list(rec))
    except SystemExit:
        return None
    finally:
        EventProcessor.register_stage = orig
        sys.argv = saved
    if runs[0] != runs[1]:
        a = [n for n, ok in runs[0] if ok]
        b = [n for n, ok in runs[1] if ok]
        return (f"switches {argv}: the first run of the object registered {len(a)} stages, its second run {len(b)} "
                f"(first difference: {next(((x, y) for x, y in zip(runs[0], runs[1]) if x != y), (len(runs[0]), len(runs[1])))})")
    return None


def e2e_oracle(case, rec, reg_names, sites, prof_flags):
    """returns (classifier, desc) or None. `prof_flags`: flag per site index of the profile in force."""
    # a call whose callback is chosen under a condition yields several sites with one line: map by (name, line)
    line2idx, nl2idx = {}, {}
    for i, s in enumerate(sites):
        line2idx.setdefault(s["line"], i)
        nl2idx.setdefault((s["name"], s["line"]), i)
    accepted = [n for (n, _, ok) in rec if ok]
    if reg_names != accepted:
        return ("registration-lost", f"processor holds {reg_names} but accepted registrations were {accepted}")
    seen = set()
    for (n, ln, ok) in rec:
        if ln not in line2idx:
            return None  # translator cross-check reports this separately
        i = nl2idx.get((n, ln), line2idx[ln])
        if i in seen:
            return ("registration-duplicate", f"site {i} ({n}) registered twice")
        seen.add(i)
        want = prof_flags[i] if i < len(prof_flags) else None
        if want is None:
            continue
        if ok != want:
            if want:
                return ("stage-silently-skipped",
                        f"requested stage {n} (site {i}, line {ln}) was not registered under profile {case['profile']} "
                        f"although its own profile entry is enabled")
            return ("disabled-stage-registered",
                    f"stage {n} (site {i}, line {ln}) was registered although profile {case['profile']} disables its entry")
    return None


def load_profile_flags(which, sites, tmp, k=None):
    """returns (path or None, flags per site index)"""
    prof_dir = REPO / "src" / "aiu_trace_analyzer" / "profiles"
    ev = json.loads((prof_dir / "everything.json").read_text())["stages"]
    if which == "default":
        return None, [True] * len(sites)     # statement: under the default profile every requested stage is registered
    if which == "everything":
        return str(prof_dir / "everything.json"), [True] * len(sites)
    if which == "torch_minimal":
        tm = json.loads((prof_dir / "torch_minimal.json").read_text())["stages"]
        flags = [bool(list(d.values())[0]) for d in tm]
        # own entry = same position; only meaningful when torch_minimal names every stage in order
        if [list(d)[0] for d in tm] != [s["name"] for s in sites]:
            flags = [None] * len(sites)
        return str(prof_dir / "torch_minimal.json"), flags
    if which == "disabled":
        st = copy.deepcopy(ev)
        key = list(st[k])[0]
        st[k][key] = False
        # ONE path for all user-written profiles of the check, rewritten for every case: what a profile says is read
        # from the file each time, not remembered from an earlier run of the process
        p = os.path.join(tmp, "user_profile.json")
        with open(p, "w") as fh:
            json.dump({"stages": st}, fh)
        return p, [i != k for i in range(len(sites))]
    if which == "disabled-set":
        # every entry of the all-stages profile, an arbitrary SET of them switched off (k = sorted list of positions):
        # a user-written -P profile; each requested stage still gets the flag of its own entry
        off = set(k)
        st = copy.deepcopy(ev)
        for i in off:
            if i < len(st):
                st[i][list(st[i])[0]] = False
        p = os.path.join(tmp, "user_profile.json")
        with open(p, "w") as fh:
            json.dump({"stages": st}, fh)
        return p, [i not in off for i in range(len(sites))]
    raise ValueError(which)


def e2e_case(ctx, case, sites, tmp, verbose=False):
    path, flags = load_profile_flags(case["profile"], sites, tmp, case.get("k"))
    argv = [a if a != "$COMPLOG" else str(REPO / "tests" / "test_data" / "sample_comp_log_ideal.txt") for a in case["argv"]]
    if case["profile"] == "default" and "--tb" in argv:
        # --tb switches the default to torch_minimal (documented): judge against that profile
        path2, flags = load_profile_flags("torch_minimal", sites, tmp)
    try:
        rec, reg_names, _ = record_registration(argv, path, tmp)
    except SystemExit:
        return None, None   # argument combination rejected by the CLI itself
    if verbose:
        print(rec)
    v = e2e_oracle(case, rec, reg_names, sites, flags)
    if v is None and LAST_REWRITTEN:
        v = ("request-rewritten", f"the switches {LAST_REWRITTEN} reach register_processing_functions with another value than the "
                                  f"command line {case['argv']} gives them: the stages they select are never requested")
    if v:
        ctx.violation(v[0], v[1], case)
    return rec, flags


def oracle_on_case(ctx: Ctx, case, verbose=False):
    import translate
    if case.get("kind") == "unit":
        return None
    sites = translate.extract_sites(REPO / "src" / "aiu_trace_analyzer" / "core" / "acelyzer.py")
    tmp = tempfile.mkdtemp(prefix="aiuverif_")
    try:
        return e2e_case(ctx, case, sites, tmp, verbose)
    finally:
        shutil.rmtree(tmp, ignore_errors=True)


def run(ctx: Ctx):
    import translate
    rng = ctx.rng
    lines, expect = [], []
    # ---- (a) unit-level correspondence ------------------------------------------------------
    if not ctx.search_mode:
        for case in unit_cases(ctx):
            out, sp = real_ingest(case["req"], case["all"])
            lines.append(f"c16 ingest {enc_prof(case['req'])} {enc_prof(case['all'])}")
            expect.append(("ingestProfile vs StageProfile._ingest_profile_data", case, out))
            nt = False
            if sp is not None:
                dec = real_register(sp, case["names"])
                lines.append(f"c16 reg {enc_prof(sp.profile)} {','.join(case['names']) or '!'}")
                expect.append(("registerAll vs StageProfileChecker.fwd_find_stage", case, dec))
                nt = "0" in dec and "1" in dec
                ctx.count("unit_lookups", len(case["names"]))
            else:
                ctx.count("unit_ingest_errors")
            ctx.case_done(case, nontrivial=nt)
    # ---- (b) real registration for sampled switch sets x profiles ---------------------------
    try:
        sites = translate.extract_sites(REPO / "src" / "aiu_trace_analyzer" / "core" / "acelyzer.py")
    except translate.ShapeNotRecognised:
        sites = None
    tmp = tempfile.mkdtemp(prefix="aiuverif_")
    try:
        nsets = ctx.n(120, 1500)
        for it in range(nsets):
            argv = random_argv(rng, "$COMPLOG")
            if it == 0:
                argv = []
            profs = [("default", None), ("everything", None), ("torch_minimal", None)]
            nk = len(sites) if sites else 57
            ks = list(range(nk)) if (not ctx.quick() and it % 25 == 0) else rng.sample(range(nk), 3)
            profs += [("disabled", k) for k in ks]
            # a contiguous range and a random subset switched off (consecutive disabled entries, repeated names)
            a = rng.randrange(nk)
            profs.append(("disabled-set", list(range(a, min(nk, a + rng.randint(2, 8))))))
            profs.append(("disabled-set", sorted(rng.sample(range(nk), rng.randint(2, 12)))))
            requests_default = None
            for which, k in profs:
                case = {"kind": "e2e", "argv": argv, "profile": which, "k": k}
                if sites is None:
                    continue
                rec, flags = e2e_case(ctx, case, sites, tmp)
                if rec is None:
                    ctx.count("cli_rejected")
                    continue
                # which stages the command line REQUESTS is a matter of the switches alone: the sequence of
                # register_stage calls must be the same under every profile
                req = [(n, ln) for (n, ln, _) in rec]
                if which == "default":
                    requests_default = req
                elif requests_default is not None and req != requests_default and "--tb" not in argv:
                    miss = [x for x in requests_default if x not in req]
                    extra = [x for x in req if x not in requests_default]
                    ctx.violation("request-depends-on-profile",
                                  f"switches {argv}: under profile {which}{'' if k is None else ' ' + str(k)} the stages requested "
                                  f"differ from those requested under the default profile (not requested: {miss[:4]}, "
                                  f"additionally requested: {extra[:4]})", case)
                line2idx = {s["line"]: i for i, s in reversed(list(enumerate(sites)))}
                nl2idx = {(s["name"], s["line"]): i for i, s in reversed(list(enumerate(sites)))}
                idxs = [nl2idx.get((n, ln), line2idx.get(ln)) for (n, ln, _) in rec]
                # translator cross-check: the recorded call sequence is a source-ordered selection of the
                # translated sites that contains every unconditional one
                ok_tr = None not in idxs and idxs == sorted(set(idxs)) and \
                    all(sites[i]["name"] == n for i, (n, _, _) in zip(idxs, rec)) and \
                    all(i in idxs for i, s in enumerate(sites) if not s["cond"])
                if not ctx.search_mode:
                    ctx.compare("translated site list vs recorded real register_stage call sequence", case, True, ok_tr)
                    # model decisions for exactly the recorded request sequence under the real ingested profile
                    from aiu_trace_analyzer.core.stage_profile import StageProfile
                    prof_path = rec and None
                    del prof_path
                    path, _ = load_profile_flags(which if not (which == "default" and "--tb" in argv) else "torch_minimal",
                                                 sites, tmp, k)
                    sp = StageProfile.from_json(path if path else str(REPO / "src/aiu_trace_analyzer/profiles/default.json"))
                    lines.append(f"c16 reg {enc_prof(sp.profile)} {','.join(n for n, _, _ in rec) or '!'}")
                    expect.append(("registerAll vs real register_stage decisions", case,
                                   "".join("1" if ok else "0" for _, _, ok in rec)))
                reached_cond = sum(1 for i in idxs if i is not None and sites[i]["cond"])
                total_cond = sum(1 for s in sites if s["cond"])
                ctx.count("e2e_registrations", len(rec))
                ctx.count(f"e2e_profile_{which}")
                ctx.case_done(case, key=(tuple(argv), which, tuple(k) if isinstance(k, list) else k), nontrivial=0 < reached_cond < total_cond)
        # the same Acelyzer object run twice (documented API): the second run registers what the first one did
        for argv in ([], ["--flow"], ["--tb"], ["--keep_prep", "-t"])[:ctx.n(3, 4)]:
            v = rerun_registration(argv, tmp)
            case = {"kind": "rerun", "argv": argv}
            if v:
                ctx.violation("rerun-registers-differently", v, case)
            ctx.count("rerun_cases")
            ctx.case_done(case, key=("rerun", tuple(argv)), nontrivial=True)
    finally:
        shutil.rmtree(tmp, ignore_errors=True)
    if ctx.search_mode or not ctx.driver or not ctx.driver.ok:
        return
    # the driver must have been built against the data the translator produced now
    gens = ctx.driver.ask(["c16 gensites"])[0]
    if sites is not None:
        ctx.compare("driver's generated site list vs translator output of this run", {"kind": "gensites"},
                    gens, enc_prof([(s["name"], s["cond"]) for s in sites]))
    outs = ctx.driver.ask(lines)
    for (what, case, want), got in zip(expect, outs):
        ctx.compare(what, case, got, want)


def shrink(ctx: Ctx, case, classifier):
    if case.get("kind") != "e2e":
        return case
    import translate
    sites = translate.extract_sites(REPO / "src" / "aiu_trace_analyzer" / "core" / "acelyzer.py")
    tmp = tempfile.mkdtemp(prefix="aiuverif_")

    def bad(argv):
        c2 = dict(case, argv=argv)
        probe = Ctx(ctx.id, ctx.tier, ctx.seed)
        probe.known = []
        try:
            e2e_case(probe, c2, sites, tmp)
        except BaseException:  # noqa: BLE001
            return False
        return any(v["classifier"] == classifier for v in probe.violations)
    try:
        argv = list(case["argv"])
        changed = True
        while changed:
            changed = False
            for width in (2, 1):
                for i in range(len(argv)):
                    a2 = argv[:i] + argv[i + width:]
                    if len(a2) < len(argv) and bad(a2):
                        argv, changed = a2, True
                        break
                if changed:
                    break
        return dict(case, argv=argv)
    finally:
        shutil.rmtree(tmp, ignore_errors=True)
