"""C14 — same inputs and options give identical results across runs and environments.

Two tiers of evidence besides the Lean theorems (Props/C14.lean over Model/Hidden.lean):

(1) Correspondence of the hidden-input model with the real code, stage level.  Histories of runs in
    one process are executed on the real machinery — real `MultifileIngest` construction (job
    registration in the class-level `GlobalIngestData._jobmap`, real dialect detection), the real
    module-level `_main_barrier_context`, the real reset performed by
    `Acelyzer.register_processing_functions`, a real `EventProcessor` (with `intermediate=…`, i.e. the
    real `duplicate_and_hold` stages, for `-I`) driven by the real `Engine.run`, lookups through the
    real `GlobalIngestData.get_job/get_dialect`, hash-keyed grouping through the real
    `AbstractHashQueueContext.event_data_hash/get_or_create` — and on `Hid.runProc` of the compiled
    model.  Runs may abort (a stage raises after n events).  Compared per run: the exported
    (id, name, tag) sequence or ABORT, and the ids left in the shared barrier afterwards (the model's
    hidden state).  Histories are also run with the registration-time reset skipped against
    `Hid.runProcNoReset`, which checks the engine model on a non-empty shared hold (the leak path).

(2) The differential experiment the property describes (this is the ORACLE, real code only):
    a scenario is run once in a fresh interpreter (subprocess, PYTHONHASHSEED=0) and then
      * in fresh interpreters under other PYTHONHASHSEED values,
      * with `-I`,
      * in this process through the Acelyzer API: directly, twice in a row, after an unrelated
        scenario `A`, after an `A` that aborts mid-pipeline (B/E mismatch during ingestion; bad `Peer`
        with --flow during the drain phase), after an `A` that used the same input path with another
        dialect, after a complete `A` of the OTHER input dialect in both orders (FLEX run after a
        torch-profiler trace with kernel / Memcpy (HtoD) / Memcpy (DtoH) events, and such a TORCH run
        after a FLEX scenario) — dialect-dependent lookups cached per process would show here,
        after a run of the same or another scenario under OTHER options (--event_limit count / skip /
        window / no_count_types, --event_filter, -F, --keep_prep, --drop_globals, -O drop, another
        --freq, -C subsets, --time_unit ms, …) — option state that sticks to the process shows here,
      * with `-c` and a generated compiler log in which 4..8 categories are never exercised by the
        trace (rows tied at 0.0 in out_categories.csv/.txt expose hash-order dependent row creation),
      * from a directory whose listing order is reversed (only where a file system with
        creation-order listing is available, e.g. /dev/shm; else skipped and noted),
    and `traceEvents` plus every CSV are compared byte for byte with the reference.  Nothing is
    masked inside them; the recorded command line / output name live outside `traceEvents`, CSV
    files are matched by their suffix after the output base name.

No tolerant comparison anywhere.
"""
from __future__ import annotations

import concurrent.futures
import contextlib
import copy
import io
import itertools
import json
import os
import shutil
import subprocess
import sys
import tempfile

from lib.core import Ctx, REPO

ID = "C14"
NEEDS_GEN = True
LEAN_TARGETS = ["AiuVerif.Props.C14", "AiuVerif.Props.C14Inventory"]
THEOREMS = [
    "AiuVerif.C14.output_independent_of_hidden",
    "AiuVerif.C14.runProc_eq_spec",
    "AiuVerif.C14.history_invisible",
    "AiuVerif.C14.intermediate_invisible",
    "AiuVerif.C14.intermediate_invisible_run",
    "AiuVerif.C14.history_and_intermediate_invisible",
    "AiuVerif.C14.leftover_leaks_without_reset",
    "AiuVerif.C14.hash_collision_merges",
    "AiuVerif.C14.unregistered_key_sees_history",
    "AiuVerif.C14.memo_invisible",
    "AiuVerif.C14.memo_history_invisible",
    "AiuVerif.C14.memo_keyed_by_category_only_leaks",
    "AiuVerif.C14.preserved_state_invisible",
    "AiuVerif.C14.option_defaults_invisible",
    "AiuVerif.C14.option_defaults_in_place_leak",
    "AiuVerif.C14.mutable_defaults_reviewed",   # mutable default argument values of the package == reviewed list (translator)
    "AiuVerif.C14.hidden_inventory",   # process-level mutable state of the package == reviewed list (translator)
]
RULE = ("stage level: histories of 1..4 runs (exhaustive two-run histories over a small graph set + random) on the real "
        "EventProcessor/Engine/barrier singleton/job registry, runs may abort after n events, with/without -I, with/without "
        "the registration-time reset; non-trivial = a run of the history starts with a non-empty hidden state (leftover "
        "barrier content or a job map that knows the key under another name/dialect). End to end: scenarios x option sets "
        "x {hash seeds, -I, in-process histories incl. two kinds of aborts and a same-path dialect change, directory order}; "
        "every variant is one evaluation; non-trivial = the variant differs from the reference execution in a hidden input")
TRUSTED = ["the list of hidden inputs (string hash, shared barrier content, job map) is a modelling decision; its completeness is "
           "supported only by the differential experiment of this check, not by proof",
           "aliasing of one dict object between two emitted events is not modelled (value semantics); -I (deepcopy) is covered by the differential runs",
           "aborts are modelled during the streaming phase only (an exception while draining is covered end to end, not in the model)",
           "hash(str) collision-freeness on the run's grouping keys is a hypothesis (GoodRun), as is that job ids reaching a lookup "
           "were registered by the run itself; both excluded branches have a Lean witness"]
ASSUMPTIONS = ["CPython dict insertion order; 64-bit hash collisions among a run's (name, pid) keys do not occur"]
NOT_YET_PROVED = ["completeness of the hidden-input list (cannot be proved; established by the differential runs only)",
                  "that option parsing leaves the class-level Acelyzer.defaults untouched is a two-line model (parseCopy) with the frame "
                  "rule preserved_state_invisible and the witness option_defaults_in_place_leak; the real argparse path is covered by the "
                  "'predecessor under other options' differential only",
                  "iteration order of sets of strings inside stages (e.g. the per-pid category table of rcu_utilization) is not modelled; "
                  "covered by the hash-seed differential on a compiler log with categories tied at Kernel_Time 0.0",
                  "dialect-dependent classification (PipelineContextTool.is_category) reads the dialect through the job map only in the "
                  "current code (a jobAnnot lookup in the model); that no process-level cache sits in that path is established by the "
                  "cross-dialect history differential (FLEX after TORCH, TORCH after FLEX) only - memo_invisible / "
                  "memo_keyed_by_category_only_leaks state when such a cache would be harmless and that one keyed by the category name alone is not",
                  "pipeline stages outside the modelled core that use hash(str) as a dictionary key (rcu_utilization fingerprints, "
                  "iteration_detect letters) are covered by the hash-seed differential only"]
TECHNIQUE = "Lean 4 proof (hidden inputs as explicit parameters; induction over pipeline, input and history) + model/implementation correspondence run + differential oracle"
LEVEL_TEXT = ("Lean theorems over a model in which everything a run can see besides its files and options is an explicit parameter "
              "(salted string hash, leftover content of the module-level barrier, the process-wide job map): for arbitrary stages, "
              "inputs and histories of complete or aborted runs the result of a run equals a specification that mentions none of "
              "them (runProc_eq_spec, output_independent_of_hidden, history_invisible), and inserting duplicate_and_hold stages (-I) "
              "changes nothing (intermediate_invisible), using C03's run_eq_runSpec. The theorem is only as good as the list of "
              "hidden inputs: Lean cannot discover one the model omits. The correspondence is the differential experiment the "
              "property describes (hash seeds, -I, in-process histories, aborted predecessors, directory order) on the real CLI/API, "
              "byte-comparing traceEvents and CSVs, plus a stage-level model/real comparison of histories on the real engine.")
LEVEL_NOTE = ("Partial by nature: proof for the modelled hidden inputs, differential testing for their completeness. Hypotheses "
              "(GoodRun): no hash collision on the grouping keys of the run; every job id looked up was registered by the run. "
              "Witness theorems show each excluded branch and the registration-time barrier reset are necessary.")

EVERYTHING = str(REPO / "src" / "aiu_trace_analyzer" / "profiles" / "everything.json")
KINDS = ["pass", "drop", "dup", "hold", "rev", "delay", "barrier", "annot", "group"]


# =============================================================================================
# (1) stage-level histories on the real machinery
# =============================================================================================

class Boom(Exception):
    pass


def _mk_event(i, key, name):
    return {"ph": "X", "ts": 1.0, "dur": 1.0, "pid": 0, "tid": 0, "name": name,
            "args": {"id": i, "jobhash": key, "tag": "-"}}


def _with_id(ev, i):
    e = copy.deepcopy(ev)
    e["args"]["id"] = i
    return e


_RESET = {}


def real_reset():
    """what a real run does before its engine starts: Acelyzer.register_processing_functions (its first
    statement empties the module-level barrier); executed on a throw-away processor"""
    import aiu_trace_analyzer.logger as aiulog
    from aiu_trace_analyzer.core.acelyzer import Acelyzer
    from aiu_trace_analyzer.core.processing import EventProcessor
    from aiu_trace_analyzer.core.stage_profile import StageProfile
    import aiu_trace_analyzer.export.exporter as output
    if "ace" not in _RESET:
        saved = sys.argv
        sys.argv = ["acelyzer"]
        try:
            _RESET["ace"] = Acelyzer(["-i", "dummy.json", "-o", "unused_out.json", "-D", "0"])
        finally:
            sys.argv = saved
        aiulog.loglevel = -1
    ace = _RESET["ace"]
    proc = EventProcessor(profile=StageProfile.from_json(ace.args.profile))
    exporter = output.JsonFileTraceExporter(target_uri="unused_out.json", timescale=ace.args.time_unit, settings=vars(ace.args))
    ace.register_processing_functions(proc, ace.args, exporter)


def run_history_real(hist, reset, oracle_fresh_last=False):
    """execute a history on the real machinery; returns list of canonical per-run strings.
    A history starts in an emulated fresh interpreter (job map and shared barrier emptied)."""
    import aiu_trace_analyzer.pipeline as ep
    import aiu_trace_analyzer.pipeline.barrier as barrier_mod
    import aiu_trace_analyzer.ingest.ingestion as ingest
    from aiu_trace_analyzer.types import GlobalIngestData
    from aiu_trace_analyzer.core.processing import EventProcessor
    from aiu_trace_analyzer.core.engine import Engine
    from aiu_trace_analyzer.pipeline.context import AbstractContext
    from aiu_trace_analyzer.pipeline.hashqueue import AbstractHashQueueContext
    from lib.stage import accepting_profile

    GlobalIngestData()
    GlobalIngestData._jobmap.clear()
    bctx = barrier_mod._main_barrier_context
    bctx.hold = []
    # hypothesis GoodRun: the job ids (crc32(path) % 10000) of the files of a history are pairwise distinct and
    # differ from the pseudo job's - pick a scratch directory in which that holds (a collision makes the result
    # depend on the directory name, which is not what this differential is about)
    from lib.stage import _scratch_dir_with_distinct_job_ids
    tmp = _scratch_dir_with_distinct_job_ids(sorted({f["name"] for run in hist for f in run["files"]}))
    known_keys = {}
    outs, model_runs = [], []
    try:
        for rn, run in enumerate(hist):
            # -- ingestion: real registration of the pseudo job and of every file -------------------
            paths = []
            for f in run["files"]:
                p = os.path.join(tmp, f["name"])
                d = {"traceEvents": [{"ph": "X", "ts": 1.0, "dur": 1.0, "pid": 0, "tid": 0, "name": "n"}]}
                if f["dialect"] == "TORCH":
                    d["deviceProperties"] = [{"id": 0}]
                with open(p, "w") as fh:
                    json.dump(d, fh)
                paths.append(p)
            assert paths
            mi = ingest.MultifileIngest(",".join(paths), show_warnings=False)
            top = mi.jobhash
            for f, ing in zip(run["files"], mi.ingesters):
                known_keys[f["name"]] = ing.jobhash
            file_keys = [known_keys[f["name"]] for f in run["files"]]

            def key_of(src):
                return known_keys.get(src, 10001 + sum(map(ord, src)))     # never registered: >= 10000
            events = [_mk_event(i, key_of(src), name) for (i, src, name) in run["events"]]
            # -- registration of the stages ----------------------------------------------------------
            if reset:
                real_reset()
            kinds = run["kinds"]
            names = ["boom"] + ["pipeline_barrier" if k == "barrier" else f"{k}{i}" for i, k in enumerate(kinds)]
            inter = os.path.join(tmp, f"inter{rn}") if run["I"] else None
            proc = EventProcessor(profile=accepting_profile(names), intermediate=inter)
            seen = [0]

            def boom(event, _ctx):
                if run["abort"] is not None and seen[0] == run["abort"]:
                    raise Boom()
                seen[0] += 1
                return [event]
            proc.register_stage(boom, None)

            class HCtx(AbstractContext):
                def __init__(self):
                    super().__init__()
                    self.h = []

                def drain(self):
                    r, self.h = self.h, []
                    return r

            class GCtx(AbstractHashQueueContext):
                def drain(self):
                    rows = [_mk_event(5000 + len(m), 0, k) for (k, m) in self.queues.values()]
                    for r in rows:
                        r["args"]["tag"] = "row"
                    self.queues = {}
                    return rows

            def mk(kind, i):
                if kind == "group":
                    ctx = GCtx()

                    def cb(event, context):
                        qid = context.event_data_hash(event, ["name"])
                        context.get_or_create(qid, (event["name"], []))
                        context.queues[qid][1].append(event["args"]["id"])
                        return [event]
                elif kind == "annot":
                    ctx = None

                    def cb(event, context):
                        jh = event["args"]["jobhash"]
                        with contextlib.redirect_stdout(io.StringIO()):
                            name = GlobalIngestData.get_job(jh)
                            try:
                                dn = GlobalIngestData.get_dialect(jh).get("NAME")
                            except KeyError:
                                dn = "NA"
                        event["args"]["tag"] = f"{name}/{dn}"
                        return [event]
                else:
                    ctx = HCtx()

                    def cb(event, context):
                        x = event["args"]["id"]
                        if kind == "pass":
                            return [event]
                        if kind == "drop":
                            return [] if x % 2 == 0 else [event]
                        if kind == "dup":
                            return [event, _with_id(event, x + 1000)]
                        if kind == "hold":
                            context.h.append(event)
                            return []
                        if kind == "rev":
                            context.h.insert(0, event)
                            return []
                        if kind == "delay":
                            r = context.h
                            context.h = [event]
                            return r
                        raise ValueError(kind)
                cb.__name__ = f"{kind}{i}"
                return cb, ctx
            for i, k in enumerate(kinds):
                if k == "barrier":
                    proc.register_stage(ep.pipeline_barrier, bctx)
                else:
                    cb, c = mk(k, i)
                    proc.register_stage(cb, c)
            mult = 2 if inter else 1
            assert len(proc.stages) == 1 + mult * (len(kinds) + 1), "a stage was skipped by the profile"
            out = []

            class Exp:
                def export(self, evs):
                    out.extend((e.args["id"], e.name, e.args["tag"]) for e in evs)

                def flush(self):
                    pass
            try:
                Engine(events, proc, Exp()).run()
                res = "out=" + ",".join(f"{i}:{n}:{t.replace(' ', '%20')}" for (i, n, t) in out)
            except Boom:
                res = "ABORT"
            hold_ids = [e["args"]["id"] for e in bctx.hold]
            outs.append(res + " hold=" + ",".join(map(str, hold_ids)))
            model_runs.append("/".join([
                str(top),
                ",".join(f"{k}:{f['name']}:{0 if f['dialect'] == 'TORCH' else 1}" for k, f in zip(file_keys, run["files"])) or ",",
                ",".join(kinds) or ",",
                ",".join(f"{e['args']['id']}:{e['args']['jobhash']}:{e['name']}" for e in events) or ",",
                "none" if run["abort"] is None else str(run["abort"]),
                "1" if run["I"] else "0"]))
        return outs, "c14 hist " + ("reset" if reset else "noreset") + " " + "|".join(model_runs)
    finally:
        bctx.hold = []
        GlobalIngestData._jobmap.clear()
        shutil.rmtree(tmp, ignore_errors=True)


def hist_nontrivial(hist):
    """some run starts from a non-empty hidden state: an earlier run aborted behind a barrier, or an earlier
    run registered one of its files under another dialect"""
    seen = {}
    for k, run in enumerate(hist):
        if k > 0:
            prev = hist[k - 1]
            if prev["abort"] is not None and prev["abort"] > 0 and "barrier" in prev["kinds"]:
                return True
            if any(seen.get(f["name"], f["dialect"]) != f["dialect"] for f in run["files"]):
                return True
            if any(src in seen and src not in [f["name"] for f in run["files"]] for (_, src, _) in run["events"]):
                return True
        for f in run["files"]:
            seen[f["name"]] = f["dialect"]
    return False


FILES = ["a.json", "b.json", "c.json"]


def gen_run(rng, small=False):
    nf = rng.randint(1, 3)
    files = [{"name": n, "dialect": rng.choice(["FLEX", "FLEX", "TORCH"])} for n in rng.sample(FILES, nf)]
    n = rng.randint(0, 4 if small else 10)
    kinds = [rng.choice(KINDS if rng.random() < 0.6 else ["pass", "barrier", "annot", "group", "hold"])
             for _ in range(rng.randint(1, 4 if small else 8))]
    srcs = [f["name"] for f in files]
    stray = rng.random() < 0.25
    events = []
    for i in range(1, n + 1):
        src = rng.choice(srcs)
        if stray and rng.random() < 0.3:
            src = rng.choice(FILES + ["never.json"])
        events.append([i, src, f"k{rng.randint(0, 2)}"])
    abort = rng.randrange(n) if n and rng.random() < 0.35 else None
    return {"files": files, "kinds": kinds, "events": events, "abort": abort, "I": rng.random() < 0.3}


def gen_hist_cases(ctx: Ctx):
    # exhaustive: first run aborts at every position (or completes) behind/before a barrier, second run is one of a few graphs
    firsts = [["pass", "barrier", "pass"], ["hold", "barrier"], ["barrier", "annot", "barrier"], ["dup", "group"]]
    seconds = [["barrier"], ["pass", "barrier", "annot"], ["annot", "group", "barrier", "pass"], ["hold"]]
    ev3 = [[1, "a.json", "k0"], [2, "b.json", "k1"], [3, "a.json", "k0"]]
    for k1, k2 in itertools.product(firsts, seconds):
        for abort in (None, 0, 1, 2):
            for d2 in ("FLEX", "TORCH"):
                for inter in (False, True):
                    r1 = {"files": [{"name": "a.json", "dialect": "FLEX"}, {"name": "b.json", "dialect": "FLEX"}],
                          "kinds": k1, "events": ev3, "abort": abort, "I": False}
                    r2 = {"files": [{"name": "a.json", "dialect": d2}], "kinds": k2,
                          "events": [[7, "a.json", "k1"], [8, "a.json", "k2"]], "abort": None, "I": inter}
                    for reset in (True, False):
                        yield {"kind": "hist", "reset": reset, "hist": [r1, r2]}
    ctx.extra["hist_exhaustive_two_run_histories"] = True
    for _ in range(ctx.n(900, 8000)):
        h = [gen_run(ctx.rng, small=ctx.rng.random() < 0.5) for _ in range(ctx.rng.randint(1, 4))]
        yield {"kind": "hist", "reset": ctx.rng.random() < 0.7, "hist": h}


def hist_oracle(ctx, case, outs):
    """with the reset in place and every looked-up job id registered by the run itself, the last run of a history
    must give what it gives as the first run of a fresh interpreter (statement: A; B vs B, abort(A); B vs B)"""
    if not case["reset"]:
        return
    last = case["hist"][-1]
    own = {f["name"] for f in last["files"]}
    if any(src not in own for (_, src, _) in last["events"]):
        return
    fresh, _ = run_history_real([last], True)
    a, b = outs[-1].split(" hold=")[0], fresh[0].split(" hold=")[0]
    if a != b:
        ctx.violation("history-leak", f"last run of a {len(case['hist'])}-run history gives {a[:200]} but alone {b[:200]}", case)


# =============================================================================================
# (2) the differential experiment (oracle on the real CLI / API)
# =============================================================================================

def torch_trace(n=4, rank=0, seed=0):
    """a torch-profiler style trace (TORCH dialect: it has deviceProperties) with the event kinds whose
    classification differs between the dialects: cat "kernel" slices, `Memcpy (HtoD)` / `Memcpy (DtoH)`
    copies on the device pid, cpu_op / cuda_runtime slices on the host pid; pids/tids as the profiler emits"""
    import random
    rnd = random.Random(seed)
    host = 4000 + rnd.randrange(1000)
    ev = [{"ph": "M", "name": "process_name", "pid": host, "tid": 0, "ts": 0, "args": {"name": "python"}},
          {"ph": "M", "name": "process_name", "pid": 0, "tid": 0, "ts": 0, "args": {"name": "AIU 0"}}]
    t = 1000.0 + 16 * rnd.randrange(50)
    for k in range(n):
        ext, corr = k + 1, 100 + k
        ev.append({"ph": "X", "cat": "cpu_op", "name": rnd.choice(["aten::mm", "aten::add"]), "pid": host, "tid": host, "ts": t,
                   "dur": 30.0, "args": {"External id": ext, "Sequence number": k}})
        ev.append({"ph": "X", "cat": "cuda_runtime", "name": "aiuLaunchKernel", "pid": host, "tid": host, "ts": t + 2,
                   "dur": 4.0, "args": {"External id": ext, "correlation": corr}})
        if seed % 2 == 1:
            # a launch flow as the profiler writes it: flow start at the launch, a ScheduleWait slice and the kernel carry
            # the correlation id; the tool synthesizes the missing arrows from event objects it REMEMBERS while later
            # stages rewrite them in place (pid/tid of the refined view)
            ev.append({"ph": "s", "cat": "ac2g", "name": "ac2g", "pid": host, "tid": host, "ts": t + 2, "id": corr})
            ev.append({"ph": "X", "cat": "cpu_op", "name": "ScheduleWait", "pid": host, "tid": host, "ts": t + 7, "dur": 20.0,
                       "args": {"External id": ext, "correlation": corr}})
            ev.append({"ph": "f", "cat": "ac2g", "name": "ac2g", "pid": 0, "tid": 7, "ts": t + 12, "id": corr, "bp": "e"})
        ev.append({"ph": "X", "cat": "gpu_memcpy", "name": "Memcpy (HtoD)", "pid": 0, "tid": 7, "ts": t + 8, "dur": 3.0,
                   "args": {"External id": ext, "correlation": corr, "device": 0, "stream": 7, "bytes": 4096}})
        ev.append({"ph": "X", "cat": "kernel", "name": f"mm_kernel_{k % 2}", "pid": 0, "tid": 7, "ts": t + 12,
                   "dur": 8.0 + rnd.randrange(4), "args": {"External id": ext, "correlation": corr, "device": 0, "stream": 7}})
        ev.append({"ph": "X", "cat": "gpu_memcpy", "name": "Memcpy (DtoH)", "pid": 0, "tid": 7, "ts": t + 24, "dur": 3.0,
                   "args": {"External id": ext, "correlation": corr, "device": 0, "stream": 7, "bytes": 4096}})
        # a stream with a STRING tid (as some profilers write them) on which two slices overlap partially: the
        # overlap resolution works with hash(<tid string>) internally; what is exported must not show it
        ev.append({"ph": "X", "cat": "kernel", "name": "aux_kernel_a", "pid": 0, "tid": "stream 11", "ts": t + 30, "dur": 10.0,
                   "args": {"External id": ext, "correlation": 900 + 2 * k, "device": 0, "stream": 11}})
        ev.append({"ph": "X", "cat": "kernel", "name": "aux_kernel_b", "pid": 0, "tid": "stream 11", "ts": t + 35, "dur": 10.0,
                   "args": {"External id": ext, "correlation": 901 + 2 * k, "device": 0, "stream": 11}})
        t += 50.0
    return {"schemaVersion": 1, "deviceProperties": [{"id": 0, "name": "AIU"}], "distributedInfo": {"rank": rank},
            "traceEvents": ev}


def scenario_files(scen):
    from gen import scenario
    if "testdata" in scen or "torch" in scen or "twin" in scen:
        return None
    return scenario.scenario_events(R=scen["R"], groups=scen["groups"], kernels=scen["kernels"], seed=scen["seed"],
                                    xseg_step=12 if scen["R"] > 5 else 1)


TWIN_TABLE = """-------------------------------------------------------------------------------------------
Name                                                                            Ideal Cy.
-------------------------------------------------------------------------------------------
%s
-------------------------------------------------------------------------------------------
Total                                                                           %d
-------------------------------------------------------------------------------------------
"""


def twin_inputs(d, scen):
    """a compiler log with TWO ideal-cycle tables (PREFILL / DECODING) that list the same kernels with the same
    total in another order and with other per-kernel cycles, and a job that ran only the first kernel: both tables
    are exactly equally similar to the job, so which one is used must be decided by the log, not by a hash"""
    import random
    rnd = random.Random(scen.get("seed", 0))
    names = rnd.sample(["alpha", "beta", "gamma", "delta", "omega"], scen["twin"])
    cyc = [1000 * (k + 1) for k in range(len(names))]
    rows1 = [(f"{n}-opCat{'Bmm' if k % 2 else 'Conv'}_fp16", c) for k, (n, c) in enumerate(zip(names, cyc))]
    rows2 = [(f"{n}-opCat{'Bmm' if k % 2 else 'Conv'}_fp16", c)
             for k, (n, c) in enumerate(zip(reversed(names), cyc))]
    def tab(rows):
        return "====== Perf Summary ======\n~~~~ Ideal/Total Cycles ~~~~\n" + \
            TWIN_TABLE % ("\n".join(f"{n.ljust(80)}{c}" for n, c in rows), sum(c for _, c in rows)) + "====== Perf Summary End ======\n"
    log = "[DeepRT] ===== Perf BEGIN =====\n   PREFILL\n" + tab(rows1) + "   DECODING\n" + tab(rows2) + "[DeepRT] ===== Perf END =====\n"
    soc, cyc0 = 560.0, 0x10000
    ts3 = cyc0 + 0x100
    ts4 = ts3 + int(10.0 * soc)
    attr = {"Power": "0x438d671c", "TS1": hex(cyc0), "TS2": hex(cyc0), "TS3": hex(ts3), "TS4": hex(ts4), "TS5": hex(ts4 + 6)}
    nm = f"{names[0]} Cmpt Exec"
    evs = [{"attr": dict(attr), "name": nm, "ph": "B", "pid": 0, "tid": 77, "ts": 1000.0},
           {"attr": dict(attr), "name": nm, "ph": "E", "pid": 0, "tid": 77, "ts": 1010.0}]
    with open(os.path.join(d, "flex_job.json"), "w") as fh:
        json.dump(evs, fh)
    with open(os.path.join(d, "comp_log.txt"), "w") as fh:
        fh.write(log)
    return [os.path.join(d, "flex_job.json")], ["-c", os.path.join(d, "comp_log.txt"), "--freq", "560:800"]


def write_inputs(d, scen):
    """-> (list of input paths in -i order, extra argv)"""
    if "twin" in scen:
        return twin_inputs(d, scen)
    if "testdata" in scen:
        td = REPO / "tests" / "test_data"
        shutil.copy(td / "sample_flex_3062_job_4.json", os.path.join(d, "flex_job.json"))
        log = (td / "sample_comp_log_ideal.txt").read_text()
        if scen.get("ghost"):
            # categories whose kernels never occur in the trace: their rows all tie at Kernel_Time 0.0, so the
            # category tables show the order in which the rows were created
            import random
            rnd = random.Random(scen.get("seed", 0))
            pool = ["Alpha", "Beta", "Gamma", "Delta", "Eps", "Zeta", "Eta", "Theta", "Iota", "Kappa", "Lambda", "Mu"]
            names = rnd.sample(pool, scen["ghost"])
            lines = log.split("\n")
            at = [k for k, l in enumerate(lines) if l.startswith("addmm_MatMul")][0]
            lines[at + 1:at + 1] = [f"{('ghost_%d-opCatGhost%s_fp16' % (k, c)).ljust(80)}{1000 * (k + 1):<15}" for k, c in enumerate(names)]
            log = "\n".join(lines)
        with open(os.path.join(d, "comp_log.txt"), "w") as fh:
            fh.write(log)
        return [os.path.join(d, "flex_job.json")], ["-c", os.path.join(d, "comp_log.txt"), "--freq", "560:800"]
    if "torch" in scen:
        p = os.path.join(d, "torch_rank0.json")
        with open(p, "w") as fh:
            doc = torch_trace(n=scen["torch"], seed=scen["seed"])
            if scen.get("as_list"):
                # the same events as a bare event list: no deviceProperties, so the FLEX dialect classifies them (host-side
                # launch flows of a FLEX job), string tids replaced by numbers
                doc = [dict(e, tid=911) if isinstance(e.get("tid"), str) else e for e in doc["traceEvents"]]
            json.dump(doc, fh)
        return [p], []
    from lib import stage
    files = scenario_files(scen)
    paths = []
    for name, evs in files.items():
        p = os.path.join(d, name)
        stage.write_trace(p, evs)
        paths.append(p)
    return paths, ["--freq", "512:512"]


def real_opts(opts):
    return [EVERYTHING if o == "everything" else o for o in opts]


def snapshot(d, base):
    """observable result of a run with `-o d/<base>.json`: traceEvents text + CSV files by suffix"""
    snap = {}
    for f in sorted(os.listdir(d)):
        if not f.startswith(base) or f[len(base):len(base) + 1] not in (".", "_"):
            continue
        suffix = f[len(base):]
        p = os.path.join(d, f)
        if suffix in (".json", ".pt.trace.json") or (suffix.startswith("_worker_") and suffix.endswith(".json")):
            with open(p) as fh:
                try:
                    snap[suffix + ":traceEvents"] = json.dumps(json.load(fh)["traceEvents"])
                except Exception:  # noqa: BLE001
                    # not JSON: -f pddf writes the rendered DataFrame under the -o name - compare it as text
                    with open(p, "rb") as fh2:
                        snap[suffix + ":text"] = fh2.read().decode("latin1")
        elif suffix.endswith(".csv") or suffix.endswith(".txt"):
            with open(p, "rb") as fh:
                snap[suffix] = fh.read().decode("latin1")
    return snap


def run_subprocess(d, base, paths, argv, seed):
    env = dict(os.environ, PYTHONHASHSEED=str(seed), PYTHONPATH=str(REPO / "src"))
    cmd = [sys.executable, "-m", "acelyzer.acelyzer", "-i", ",".join(paths), "-o", os.path.join(d, base + ".json"),
           "-D", "0", *argv]
    p = subprocess.run(cmd, env=env, capture_output=True, text=True, cwd=d, timeout=600)
    return p.returncode, (p.stderr.strip().splitlines() or [""])[-1][:200]


def run_inproc(d, base, paths, argv):
    import aiu_trace_analyzer.logger as aiulog
    from aiu_trace_analyzer.core.acelyzer import Acelyzer
    saved = sys.argv
    sys.argv = ["acelyzer"]
    try:
        with contextlib.redirect_stdout(io.StringIO()):
            ace = Acelyzer(["-i", ",".join(paths), "-o", os.path.join(d, base + ".json"), "-D", "0", *argv])
            aiulog.loglevel = -1
            return ace.run(), ""
    except SystemExit as e:
        return e.code, "SystemExit"
    except Exception as e:  # noqa: BLE001
        return None, type(e).__name__ + ": " + str(e)[:150]
    finally:
        sys.argv = saved


def aborting_predecessor(kind, rng):
    """run a scenario A that aborts mid-pipeline in this process; returns (error text, events left in the shared barrier)"""
    import aiu_trace_analyzer.pipeline.barrier as barrier_mod
    from gen import scenario
    from lib import stage
    files = scenario.scenario_events(R=rng.choice([2, 3]), groups=1, kernels=rng.randint(1, 2), seed=rng.randint(0, 999))
    # the aborting run uses switches of its own: whatever they switch on while registering must not outlive the abort
    argv = ["--freq", "512:512"] + rng.choice([[], ["-s"], ["-s"], ["-S"], ["--tb"], ["-O", "drop"], ["--comm_summarize_seq"],
                                               ["-k"], ["--flex_ts_fix"], ["--keep_names"], ["-s", "--keep_prep"]])
    if kind == "be-mismatch":        # the E of the last slice of the last file names another slice: ingestion asserts
        k = sorted(files)[-1]
        evs = [dict(e) for e in files[k]]
        evs[-1]["name"] = "some other slice"
        files[k] = evs
    elif kind == "bad-peer":         # --flow: int('x') raises in flow_prepare_event_data, i.e. while draining behind 3 barriers
        argv.append("--flow")
        k = sorted(files)[0]
        evs = copy.deepcopy(files[k])
        for e in evs:
            if "attr" in e and "Peer" in e["attr"]:
                e["attr"]["Peer"] = "x"
        files[k] = evs
    with contextlib.redirect_stdout(io.StringIO()):
        r = stage.e2e(argv, files)
    left = len(barrier_mod._main_barrier_context.hold)
    return r["error"], left


def completed_predecessor(rng, same_path_as=None):
    from gen import scenario
    from lib import stage
    if same_path_as is not None:
        # the SAME input path as the run under test, holding a TORCH-dialect trace this time
        with open(same_path_as) as fh:
            keep = fh.read()
        torch = {"deviceProperties": [{"id": 0}], "traceEvents": [
            {"ph": "X", "name": "aten::mm", "cat": "cpu_op", "pid": 0, "tid": 1, "ts": 10.0 + 10 * k, "dur": 5.0,
             "args": {"correlation": k, "External id": k}} for k in range(4)]}
        try:
            with open(same_path_as, "w") as fh:
                json.dump(torch, fh)
            d = os.path.dirname(same_path_as)
            rc, err = run_inproc(d, "pred_torch", [same_path_as], [])
        finally:
            with open(same_path_as, "w") as fh:
                fh.write(keep)
        return err or str(rc)
    files = scenario.scenario_events(R=rng.choice([2, 3, 4]), groups=rng.randint(0, 2), kernels=rng.randint(1, 3), seed=rng.randint(0, 999))
    with contextlib.redirect_stdout(io.StringIO()):
        r = stage.e2e(["--freq", "512:512", *rng.choice([[], ["--flow"], ["--tb"]])], files)
    return r["error"] or str(r["rc"])


def dialect_predecessor(dialect, rng):
    """a COMPLETE run of the other input dialect in this process, with events of the categories whose
    classifier expression differs between the dialects (acc_kernel, acc_datatransfer_HtoD/DtoH)"""
    from gen import scenario
    d = tempfile.mkdtemp(prefix="aiuverif_")
    try:
        if dialect == "TORCH":
            paths, argv = write_inputs(d, {"torch": rng.randint(2, 5), "seed": rng.randint(0, 999)})
        else:
            files = scenario.scenario_events(R=2, groups=1, kernels=rng.randint(1, 2), seed=rng.randint(0, 999))
            from lib import stage
            paths = []
            for name, evs in files.items():
                stage.write_trace(os.path.join(d, name), evs)
                paths.append(os.path.join(d, name))
            argv = ["--freq", "512:512"]
        rc, err = run_inproc(d, "pred", paths, argv)
        return f"rc={rc} {err}".strip()
    finally:
        shutil.rmtree(d, ignore_errors=True)


# options of a predecessor run that must not stick to the process (class-level defaults, module-level state)
OPTION_PREDS = [["--event_limit", '{"count": 3}'], ["--event_limit", '{"skip": 2, "count": 5}'],
                ["--event_limit", '{"ts_start": 1000000150.0, "ts_end": 1000000400.0}'], ["--event_limit", '{"no_count_types": "MX"}'],
                ["--event_filter", "name:Cmpt"], ["-F", "C"], ["--keep_prep"], ["--drop_globals"], ["-O", "drop"],
                ["--freq", "256:300"], ["-C", "power_ts4"], ["-C", "prep_queue"], ["--time_unit", "ms"], ["--keep_names", "--tb"],
                ["--disable_tb"], ["-t"], ["--flow"], ["-M"], ["--comm_summarize_seq"], ["-k"], ["--ignore_crit"]]


def opt_variant(popts):
    return "after:opts=" + json.dumps(popts)


def option_predecessor(popts, rng):
    from gen import scenario
    from lib import stage
    files = scenario.scenario_events(R=rng.choice([2, 3]), groups=1, kernels=rng.randint(1, 2), seed=rng.randint(0, 999))
    d = tempfile.mkdtemp(prefix="aiuverif_")
    try:
        paths = []
        for name, evs in files.items():
            stage.write_trace(os.path.join(d, name), evs)
            paths.append(os.path.join(d, name))
        rc, err = run_inproc(d, "pred", paths, ["--freq", "512:512", *popts])
        return rc, err
    finally:
        shutil.rmtree(d, ignore_errors=True)


def creation_order_tmp():
    """a directory on a file system whose listing order follows creation order (tmpfs), or None"""
    for root in ("/dev/shm",):
        if not os.path.isdir(root) or not os.access(root, os.W_OK):
            continue
        d = tempfile.mkdtemp(prefix="aiuverif_", dir=root)
        try:
            orders = []
            for names in (["a", "b", "c", "d"], ["d", "c", "b", "a"]):
                sub = os.path.join(d, "probe")
                os.makedirs(sub)
                for n in names:
                    open(os.path.join(sub, n), "w").close()
                orders.append(os.listdir(sub))
                shutil.rmtree(sub)
            if orders[0] != orders[1]:
                return d
        except OSError:
            pass
        shutil.rmtree(d, ignore_errors=True)
    return None


def diff_snap(ref, got):
    keys = sorted(set(ref) | set(got))
    bad = [k for k in keys if ref.get(k) != got.get(k)]
    if not bad:
        return None
    k = bad[0]
    a, b = ref.get(k), got.get(k)
    if a is None or b is None:
        return f"{k}: {'missing in the variant' if b is None else 'only in the variant'}"
    if k.endswith(":traceEvents"):
        try:
            ea, eb = json.loads(a), json.loads(b)
            if len(ea) != len(eb):
                return f"{k}: {len(ea)} events in the reference, {len(eb)} in the variant"
            for i, (x, y) in enumerate(zip(ea, eb)):
                if x != y:
                    fields = sorted(f for f in set(x) | set(y) if x.get(f) != y.get(f))
                    return f"{k}: event {i} differs in {fields}: {json.dumps({f: x.get(f) for f in fields})[:160]} vs {json.dumps({f: y.get(f) for f in fields})[:160]}"
        except Exception:  # noqa: BLE001
            pass
    pos = next((i for i, (x, y) in enumerate(zip(a, b)) if x != y), min(len(a), len(b)))
    return f"{k}: first difference at byte {pos}: {a[max(0, pos - 30):pos + 30]!r} vs {b[max(0, pos - 30):pos + 30]!r}"


VARIANTS_QUICK = ["seed:1", "seed:7", "I:3", "inproc", "inproc-again", "after:A", "after:abort-be", "after:abort-peer",
                  "after:samepath-torch", "after:torch", "inproc-I"]
# B = TORCH-dialect scenario; "after:flex" = a complete FLEX run before it (the other order of the dialect pair)
VARIANTS_TORCH = ["seed:1", "I:3", "inproc", "after:flex", "inproc-again", "after:abort-be", "after:torch", "inproc-I"]


def run_e2e_case(ctx: Ctx, case, pool, verbose=False):
    """returns list of (variant, nontrivial, diff-or-None, note)"""
    import random
    rng = random.Random(case["seed"])
    d = tempfile.mkdtemp(prefix="aiuverif_")
    results = []
    try:
        paths, base_argv = write_inputs(d, case["scen"])
        argv = base_argv + real_opts(case["opts"])
        # reference: a fresh interpreter, PYTHONHASHSEED=0
        futs = {"ref": pool.submit(run_subprocess, d, "ref", paths, argv, 0)}
        base_of = {v: f"v{i}x" for i, v in enumerate(case["variants"])}
        for v in case["variants"]:
            kind, _, arg = v.partition(":")
            if kind == "seed":
                futs[v] = pool.submit(run_subprocess, d, base_of[v], paths, argv, int(arg))
            elif kind == "I":
                futs[v] = pool.submit(run_subprocess, d, base_of[v], paths, argv + ["-I"], int(arg))
        rc, err = futs["ref"].result()
        if rc != 0:
            return [("ref", False, None, f"reference run failed rc={rc} {err}")]
        ref = snapshot(d, "ref")
        # every subprocess must be done before an in-process variant may touch the input files (samepath-torch)
        done = {v: f.result() for v, f in futs.items()}
        for v in case["variants"]:
            kind, _, arg = v.partition(":")
            base = base_of[v]
            note = ""
            if v in done:
                rc, err = done[v]
            else:
                if kind == "after":
                    if arg.startswith("opts="):
                        popts = json.loads(arg[len("opts="):])
                        same = rng.random() < 0.7
                        if same:        # the same scenario (same input paths) under other options
                            prc, perr = run_inproc(d, "pred" + base, paths, base_argv + popts)
                        else:           # another scenario under those options
                            prc, perr = option_predecessor(popts, rng)
                        note = f"A({'same' if same else 'other'} scenario, options {popts}): rc={prc} {perr[:60]}"
                        ctx.count("e2e_predecessors_with_other_options", 1)
                    elif arg == "complog":
                        # a complete run that prints a kernel-category table (compiler log given) before the run under test
                        pd_ = tempfile.mkdtemp(prefix="aiuverif_")
                        try:
                            ppaths, pargv = write_inputs(pd_, {"testdata": "flex+complog"})
                            prc, perr = run_inproc(pd_, "pred", ppaths, pargv)
                        finally:
                            shutil.rmtree(pd_, ignore_errors=True)
                        note = f"A(compiler log, table printed): rc={prc} {perr[:60]}"
                    elif arg == "A":
                        note = "A: " + completed_predecessor(rng)
                    elif arg in ("torch", "flex"):
                        note = f"A({arg.upper()} dialect, complete): " + dialect_predecessor(arg.upper(), rng)
                        ctx.count("e2e_other_dialect_predecessors", 1)
                    elif arg == "samepath-torch":
                        note = "A(same path, TORCH): " + completed_predecessor(rng, same_path_as=paths[0])
                    else:
                        e, left = aborting_predecessor({"abort-be": "be-mismatch", "abort-peer": "bad-peer"}[arg], rng)
                        note = f"A aborted with {str(e)[:60]!r}, {left} events left in the shared barrier"
                        ctx.count("e2e_aborted_predecessors", int(bool(e)))
                        ctx.count("e2e_aborted_predecessors_leaving_events_in_barrier", int(left > 0))
                rc, err = run_inproc(d, base, paths, argv + (["-I"] if v == "inproc-I" else []))
            if rc != 0:
                results.append((v, True, f"run failed: rc={rc} {err}", note))
                continue
            results.append((v, True, diff_snap(ref, snapshot(d, base)), note))
            if verbose:
                print(f"  variant {v}: {results[-1][2] or 'identical'} {note}")
        return results
    finally:
        shutil.rmtree(d, ignore_errors=True)


def run_dirorder_case(ctx: Ctx, case, verbose=False):
    """same files, same paths, directory listing reversed (regression sentinel for the sorted glob)"""
    root = creation_order_tmp()
    if root is None:
        return None
    try:
        files = scenario_files(case["scen"])
        snaps, listings = [], []
        for order in (sorted(files), sorted(files, reverse=True)):
            ind = os.path.join(root, "in")
            shutil.rmtree(ind, ignore_errors=True)
            os.makedirs(ind)
            for n in order:
                with open(os.path.join(ind, n), "w") as fh:
                    json.dump({"traceEvents": files[n]}, fh)
            listings.append(os.listdir(ind))
            for f in os.listdir(root):
                if f.startswith("out"):
                    os.remove(os.path.join(root, f))
            rc, err = run_subprocess(root, "out", [os.path.join(ind, "trace_rank_*.json")],
                                     ["--freq", "512:512", *real_opts(case["opts"])], 0)
            if rc != 0:
                return ("dirorder", True, f"run failed: rc={rc} {err}", "")
            snaps.append(snapshot(root, "out"))
        return ("dirorder", listings[0] != listings[1], diff_snap(snaps[0], snaps[1]), f"listings {listings[0]} vs {listings[1]}")
    finally:
        shutil.rmtree(root, ignore_errors=True)


def run_api_twice_case(ctx: Ctx, case, verbose=False):
    """the documented in-memory API (`-i api://<name>`, in_data=<bytes>): the SAME buffer analysed twice in one
    process (notebooks, the TensorBoard plugin re-render a trace) must give the same result both times"""
    import aiu_trace_analyzer.logger as aiulog
    from aiu_trace_analyzer.core.acelyzer import Acelyzer
    from gen import scenario
    files = scenario.scenario_events(R=1, groups=0, kernels=case["kernels"], seed=case["seed"])
    evs = list(files.values())[0]
    if case.get("torch"):
        data = json.dumps(torch_trace(n=case["kernels"] + 2, seed=case["seed"])).encode()
    else:
        data = json.dumps(evs if case.get("list_form") else {"traceEvents": evs}).encode()
    d = tempfile.mkdtemp(prefix="aiuverif_")
    saved = sys.argv
    sys.argv = ["acelyzer"]
    snaps = []
    try:
        for k in range(2):
            try:
                with contextlib.redirect_stdout(io.StringIO()):
                    ace = Acelyzer(["-i", "api://buf", "-o", os.path.join(d, f"o{k}x.json"), "-D", "0", "--freq", "512:512",
                                    *real_opts(case["opts"])], in_data=data)
                    aiulog.loglevel = -1
                    rc = ace.run()
            except Exception as e:  # noqa: BLE001
                return ("api-twice", True, f"run {k + 1} on the same buffer raised {type(e).__name__}: {str(e)[:120]}", "")
            if rc != 0:
                return ("api-twice", True, f"run {k + 1} returned {rc}", "")
            snaps.append(snapshot(d, f"o{k}x"))
        return ("api-twice", True, diff_snap(snaps[0], snaps[1]), "")
    finally:
        sys.argv = saved
        shutil.rmtree(d, ignore_errors=True)


def gen_e2e_cases(ctx: Ctx):
    rng = ctx.rng
    optsets = [[], ["--flow"], ["--tb"], ["-P", "everything", "--flow"], ["--comm_summarize_seq"], ["--keep_prep", "-C", "power_ts4", "prep_queue"],
               ["--power-stats"], ["-M"], ["-O", "drop"], ["--tb", "-P", "everything"]]
    n = ctx.n(8, 30)
    for k in range(n):
        scen = {"R": rng.choice([2, 3, 4] if ctx.quick() else [2, 3, 4, 5, 8]), "groups": rng.randint(1, 2), "kernels": rng.randint(1, 3),
                "seed": rng.randint(0, 10 ** 6)}
        variants = list(VARIANTS_QUICK) if ctx.quick() else VARIANTS_QUICK + [f"seed:{s}" for s in rng.sample(range(100, 10 ** 6), 6)] + ["I:11"]
        # predecessors with OTHER options: --event_limit always, the rest in rotation (all of them in the thorough tier)
        others = OPTION_PREDS[1:]
        pick = others if not ctx.quick() else [others[(4 * k + j) % len(others)] for j in range(4)]
        variants += [opt_variant(OPTION_PREDS[0])] + [opt_variant(o) for o in pick]
        rng.shuffle(variants)
        yield {"kind": "e2e", "scen": scen, "opts": optsets[k % len(optsets)] if k else [], "variants": variants, "seed": rng.randint(0, 10 ** 6)}
    # TORCH-dialect runs under test (kernel / memcpy events), preceded by FLEX runs and vice versa: both orders of a
    # dialect pair in one process, each compared with its own fresh-interpreter reference
    for k in range(ctx.n(3, 10)):
        variants = list(VARIANTS_TORCH) + [opt_variant(OPTION_PREDS[k % 4]), opt_variant(OPTION_PREDS[4 + k % 10])]
        if k % 2:
            rng.shuffle(variants)
        # odd generator seeds carry launch flows; a counter set without coll_bw keeps the event OBJECTS of the early
        # stages alive up to the export (the bandwidth stage hands on copies)
        yield {"kind": "e2e", "scen": {"torch": rng.randint(2, 6), "seed": 2 * rng.randint(0, 5 * 10 ** 5) + (1 if k % 5 in (1, 4) else k % 2),
                                       **({"as_list": True} if k % 3 == 1 else {})},
               "opts": [[], ["-C", "prep_queue"], ["--tb"], ["--flow"], ["-C"], ["-M"]][k % 6], "variants": variants,
               "seed": rng.randint(0, 10 ** 6)}
    # the compiler-log path (rcu_utilization keeps fingerprints built from hash(str))
    yield {"kind": "e2e", "scen": {"testdata": "flex+complog"}, "opts": [], "seed": rng.randint(0, 10 ** 6),
           "variants": ["seed:1", "seed:5", "seed:12345", "I:2", "inproc", "after:A", "after:abort-be", "inproc-again"]}
    # a generated compiler log with 4..8 categories the trace never exercises: their rows tie at Kernel_Time 0.0 in
    # out_categories.csv / .txt, so any hash-order dependence of the row creation order becomes visible
    for k in range(ctx.n(2, 6)):
        yield {"kind": "e2e", "scen": {"testdata": "flex+complog+ghost", "ghost": rng.randint(4, 8), "seed": rng.randint(0, 10 ** 6)},
               "opts": [], "seed": rng.randint(0, 10 ** 6),
               "variants": ["seed:1", "seed:2", "seed:3", f"seed:{rng.randint(4, 10 ** 6)}", f"seed:{rng.randint(4, 10 ** 6) + 10 ** 6}", "I:2",
                            "inproc", "after:A", opt_variant(["--event_limit", '{"count": 3}']), "inproc-again"]}
    # the DataFrame output (-f pddf) of a job, alone and after other jobs of the process
    for k in range(ctx.n(2, 5)):
        yield {"kind": "e2e", "scen": {"R": 2, "groups": 1, "kernels": rng.randint(1, 2), "seed": rng.randint(0, 10 ** 6)},
               "opts": ["-f", "pddf"], "seed": rng.randint(0, 10 ** 6),
               "variants": ["seed:1", "inproc", "after:complog", "after:A", "inproc-again"]}
    # two equally similar ideal-cycle tables: the tie must not be broken by anything salted
    for k in range(ctx.n(2, 6)):
        yield {"kind": "e2e", "scen": {"twin": 2 + k % 3, "seed": rng.randint(0, 10 ** 6)}, "opts": [], "seed": rng.randint(0, 10 ** 6),
               "variants": ["seed:1", "seed:2", "seed:3", "seed:4", "seed:7", f"seed:{rng.randint(8, 10 ** 6)}", "inproc", "after:A"]}
    for k in range(ctx.n(3, 10)):
        yield {"kind": "api-twice", "kernels": rng.randint(1, 3), "seed": rng.randint(0, 10 ** 6), "opts": [[], ["--keep_prep"], ["-t"]][k % 3],
               "list_form": k % 2 == 0, "torch": k % 3 == 2}
    for k in range(ctx.n(1, 4)):
        yield {"kind": "dirorder", "scen": {"R": rng.choice([3, 4]), "groups": 1, "kernels": rng.randint(1, 2), "seed": rng.randint(0, 10 ** 6)},
               "opts": rng.choice([[], ["--flow"]])}


# =============================================================================================

def variant_class(v):
    if v.startswith("seed"):
        return "hash-seed"
    if v.startswith("I:") or v == "inproc-I":
        return "intermediate"
    return "history"


def oracle_on_case(ctx: Ctx, case, verbose=False, pool=None):
    if case["kind"] == "hist":
        outs, line = run_history_real(case["hist"], case["reset"])
        if verbose:
            print("real:", outs)
        hist_oracle(ctx, case, outs)
        return {"line": line, "real": "|".join(outs)}
    own_pool = pool is None
    if own_pool:
        pool = concurrent.futures.ThreadPoolExecutor(max_workers=8)
    try:
        if case["kind"] == "api-twice":
            r = run_api_twice_case(ctx, case, verbose)
            if verbose:
                print("  api-twice:", r[2] or "identical")
            if r[2]:
                ctx.violation("api-buffer-reuse", f"the same api:// buffer analysed twice in one process: {r[2]}", case)
            return {"results": [r]}
        if case["kind"] == "dirorder":
            r = run_dirorder_case(ctx, case, verbose)
            if r is None:
                ctx.notes.append("directory-order differential skipped: no file system with creation-order listing available")
                ctx.count("dirorder_skipped", 1)
                return {"results": []}
            if verbose:
                print("  dirorder:", r[2] or "identical", r[3])
            if r[2]:
                ctx.violation("glob-order", f"same files under the same paths, directory listing reversed ({r[3]}): {r[2]}", case)
            return {"results": [r]}
        results = run_e2e_case(ctx, case, pool, verbose)
        # report self-contained variants first (a subprocess, or an in-process run that brings its own predecessor):
        # their replay reproduces in a fresh check process; plain in-process variants depend on what ran before
        order = sorted(results, key=lambda r: 0 if (r[0].startswith(("seed", "I:", "after:")) or r[0] == "ref") else 1)
        for v, _nt, diff, note in order:
            if v == "ref" and note:
                ctx.violation("crash", note, case)
            elif diff:
                ctx.violation(variant_class(v), f"variant {v} of {case['scen']} {case['opts']} differs from the fresh PYTHONHASHSEED=0 run: {diff} [{note}]",
                              dict(case, variants=[v]))
        return {"results": results}
    finally:
        if own_pool:
            pool.shutdown()


def run(ctx: Ctx):
    pending = []
    for case in gen_hist_cases(ctx):
        o = oracle_on_case(ctx, case)
        nt = hist_nontrivial(case["hist"])
        ctx.case_done(case, key=json.dumps(case, sort_keys=True), nontrivial=nt)
        ctx.count("hist_runs", len(case["hist"]))
        ctx.count("hist_aborted_runs", sum(1 for r in case["hist"] if r["abort"] is not None))
        ctx.count("hist_runs_with_-I", sum(1 for r in case["hist"] if r["I"]))
        ctx.count("hist_without_reset(leak path)", int(not case["reset"]))
        ctx.count("hist_run_starting_with_leftover_in_barrier", sum(1 for s in o["real"].split("|")[:-1] if not s.endswith("hold=")))
        pending.append((case, o))
    with concurrent.futures.ThreadPoolExecutor(max_workers=8) as pool:
        for case in gen_e2e_cases(ctx):
            o = oracle_on_case(ctx, case, pool=pool)
            for v, nt, diff, note in o["results"]:
                ctx.case_done(dict(case, variants=[v]), key=json.dumps([case.get("scen", {k2: case[k2] for k2 in case if k2 not in ("opts", "variants")}), case["opts"], v],
                                              sort_keys=True), nontrivial=nt)
                ctx.count("e2e_variant_" + (v.partition("=")[0] if "=" in v else v.partition(":")[0]), 1)
    if ctx.search_mode or not ctx.driver or not ctx.driver.ok:
        return
    answers = ctx.driver.ask([o["line"] for _, o in pending])
    for (case, o), ans in zip(pending, answers):
        ctx.compare("Hid.runProc history vs real EventProcessor/Engine/barrier singleton/job registry (per-run output + leftover hold)",
                    case, ans, o["real"])


def shrink(ctx: Ctx, case, classifier):
    def bad(c):
        sub = Ctx(ctx.id, ctx.tier, ctx.seed)
        sub.known = []
        try:
            oracle_on_case(sub, c)
        except Exception:  # noqa: BLE001
            return False
        return any(v["classifier"] == classifier for v in sub.violations)
    case = json.loads(json.dumps(case))
    if case["kind"] == "e2e" and case["variants"] and case["variants"][0] in ("inproc", "inproc-again", "inproc-I"):
        # make the replay self-contained: find a predecessor that reproduces it in a fresh process
        for pred in ("after:flex", "after:torch", "after:A", "after:abort-be"):
            c2 = dict(case, variants=[pred])
            if bad(c2):
                case = c2
                break
    if case["kind"] == "hist":
        changed = True
        while changed and len(case["hist"]) > 1:
            changed = False
            for j in range(len(case["hist"]) - 1):
                c2 = dict(case, hist=case["hist"][:j] + case["hist"][j + 1:])
                if bad(c2):
                    case, changed = c2, True
                    break
        return case
    if case["kind"] == "e2e" and "R" in case["scen"]:
        for k, lo in (("groups", 0), ("kernels", 1), ("R", 2)):
            while case["scen"][k] > lo:
                c2 = dict(case, scen=dict(case["scen"], **{k: case["scen"][k] - 1}))
                if bad(c2):
                    case = c2
                else:
                    break
    return case
