"""C12 — kernel summary CSVs agree with the exported trace.

Two correspondence streams against the Lean model `AiuVerif.Stats` (Model/Stats.lean):

* stage level: the real `calculate_stats` callback with a real `StatsExtractionContext` inside a real
  `EventProcessor` driven by the real `Engine.run` (lib.stage.run_stages) on generated event streams
  (exhaustive short streams over a 13-letter event alphabet with ties, merged names, two pids and the
  two error branches; random structured streams).  Compared: error class, and the parsed rows of
  `<out>_summary.csv` / `<out>_active.csv` in file order.
* end to end: the real `Acelyzer` API (lib.stage.e2e) on generated multi-rank FLEX scenarios
  (gen/scenario.py vocabulary: kernels as Prep+Exec pairs with varied names/durations, optionally a
  chain all-reduce) under a few option sets; the model is fed the exported `Cmpt Exec` slices
  (`args.orig_name` when the name was rewritten) and compared with the CSV rows.

Oracle (from the statement, never calls the model): the expected table is recomputed with
`fractions`/`statistics` from the slices that left the stage / were exported, digits masked by an
independent scanner (`omask`), and compared with what the files say; every slice must be counted in
exactly one row of its rank; shares must sum to 100 %; the active file must report
elapsed = latest end - earliest start and active % = total / elapsed.

Exact fields: pid, masked name, Calls, row order.  Tolerant fields (the file prints a fixed number of
decimals, so a printed value `d` is accepted iff it is a correct rounding of the exact value `q`):
Total, Min, Max, Elapsed, Start, End: |d-q| <= 5e-4 (the doubles are exact on the 1/4 us grid);
Mean, Median (`round(x, 3)` of a possibly non-dyadic quotient, then `%8.3f`): |d-q| <= 5e-4 + 1e-9;
Time share (`round(x, 2)`, `%5.2f`) and Active percentage (`%5.2f`): |d-q| <= 5e-3 + 1e-9;
StDev (irrational): |d - sqrt(var)| <= 5e-4 + 1e-6 for the model's exact sample variance `var`, and the same
tolerance against `statistics.stdev` in the oracle.
"""
from __future__ import annotations

import contextlib
import io
import itertools
import math
import os
import shutil
import statistics
import tempfile
from fractions import Fraction as F

from lib.core import Ctx, enc, rat
from lib import stage
from gen import scenario

ID = "C12"
LEAN_TARGETS = ["AiuVerif.Props.C12"]
THEOREMS = [
    "AiuVerif.C12.groups_partition",
    "AiuVerif.C12.group_durs_spec",
    "AiuVerif.C12.rows_partition",
    "AiuVerif.C12.row_spec",
    "AiuVerif.C12.rows_cover",
    "AiuVerif.C12.mean_mul_calls",
    "AiuVerif.C12.min_le_mean_le_max",
    "AiuVerif.C12.median_spec",
    "AiuVerif.C12.median_between",
    "AiuVerif.C12.shares_sum_100",
    "AiuVerif.C12.elapsed_active_spec",
    "AiuVerif.C12.rows_ordered",
    "AiuVerif.C12.run_ok_iff",
    "AiuVerif.C12.variance_spec",     # StDev^2: 0 for one call, >= 0, = 0 iff all calls equal
    "AiuVerif.C12.variance_sumsq",    # (n-1) StDev^2 = sum d^2 - n mean^2
]
RULE = ("stage level: all event streams of length <= L (L=4 quick, 5 thorough) over a 13-letter alphabet "
        "(three spellings of one masked kernel name, a second kernel with a tying total, a second pid, "
        "non-kernel X/C events, zero duration, missing TS counters, a slice containing all others with an equal "
        "earliest start and a slice starting inside and outlasting all others -- so every arrival order of "
        "contained / containing / outlasting intervals occurs) plus random streams of up to 62 events "
        "(1-4 pids, names built from separators/digit runs, durations on the 1/4 us grid with repeats, long "
        "containing slices, ascending / descending / shuffled arrival); "
        "e2e: generated multi-rank scenarios (sequential kernels, optionally one long kernel per rank that contains "
        "or outlasts them) x option sets through the Acelyzer API. A case is non-trivial "
        "when the files contain a group with >= 2 calls or a rank with >= 2 groups; distinct = distinct "
        "canonical input (event stream / scenario spec + options)")
TRUSTED = [
    "Python hash((masked name, pid)) is injective on the generated keys (the model groups by the pair itself)",
    "`\\d` is modelled as an ASCII digit; generated names are ASCII",
    "statistics.mean/median, sum, sorted(reverse=True) stability behave as documented",
    "IEEE doubles are exact on the generated grid (multiples of 1/4 us below 2^40); mean/share/active "
    "quotients are compared with the rounding tolerance of the printed format",
]
ASSUMPTIONS = [
    "StDev is irrational: the Lean model carries its square (exact sample variance; 0 for single-call kernels); the "
    "printed value is compared with sqrt(var) and with statistics.stdev, tolerance 5e-4 + 1e-6",
    "printed values are compared as correct roundings of the exact model value (3 decimals: 5e-4; 2 decimals: 5e-3)",
    "elapsed_active_spec assumes 0 <= end and start <= 1e30 for the slices of the rank (the initial values of "
    "update_max_ts / update_min_ts); the pipeline asserts ts >= 0 upstream",
    "<out>_ts_analysis.csv (TS deltas) is outside the property and not modelled beyond its KeyError branch",
]
NOT_YET_PROVED = [
    "StDev itself is irrational: the model and the theorems carry its square (sample variance, variance_spec / "
    "variance_sumsq); the printed StDev is compared with the square root of the model's exact variance (tolerance "
    "5e-4 + 1e-6) and, independently, with statistics.stdev by the oracle",
    "the 2/3-decimal rounding of the printed values (round(x,3), %8.3f, %5.2f) is a tolerance of the "
    "correspondence, the theorems speak about the exact values",
]
LEVEL_TEXT = ("Lean theorems over an executable model of calculate_stats / StatsExtractionContext.drain for all event "
              "streams: every accepted kernel slice lies in exactly one (masked name, pid) group and the rows of the "
              "summary file are exactly these groups (sum of Calls = number of slices, sum of Total = sum of durations, "
              "per-row Calls/Total/Mean/Median/Min/Max are those of the durations of the slices with that key), "
              "mean*calls = total, min <= mean <= max, the counting characterisation of the median, shares sum to 100, "
              "elapsed/active formula with elapsed > 0. Tied to the code by running the real stage (and the whole CLI "
              "pipeline) and the compiled model on the same inputs and diffing the parsed CSV rows.")
LEVEL_NOTE = ("Trusted: Lean kernel; axioms propext, Classical.choice, Quot.sound; hand-written model validated by "
              "differential runs; printed decimals compared as roundings; StDev through its square (exact variance in the model, float sqrt in the comparison).")
TECHNIQUE = "Lean 4 proof (induction over the slice list, fold invariants) + model/implementation correspondence run"

TOL3 = F(5, 10 ** 4)
TOL2 = F(5, 10 ** 3)
EPS = F(1, 10 ** 9)
EXEC = "Cmpt Exec"


# ---------------------------------------------------------------------------------------------
# parsing the two files
# ---------------------------------------------------------------------------------------------

def parse_summary(text):
    rows = []
    for ln in text.splitlines()[1:]:
        if not ln.strip():
            continue
        f = [x.strip() for x in ln.split("\t")]
        rows.append({"share": F(f[0]), "total": F(f[1]), "calls": int(f[2]), "mean": F(f[3]), "median": F(f[4]),
                     "min": F(f[5]), "max": F(f[6]), "stdev": F(f[7]), "pid": int(f[8]), "name": "\t".join(f[9:])})
    return rows


def parse_active(text):
    rows = []
    for ln in text.splitlines()[1:]:
        if not ln.strip():
            continue
        f = [x.strip() for x in ln.split("\t")]
        rows.append({"total": F(f[0]), "elapsed": F(f[1]), "start": F(f[2]), "stop": F(f[3]), "active": F(f[4]),
                     "pid": int(f[5])})
    return rows


def parse_files(summary_text, active_text):
    try:
        return {"rows": parse_summary(summary_text), "active": parse_active(active_text)}, None
    except (ValueError, IndexError, ZeroDivisionError) as e:
        return None, f"{type(e).__name__}: {e}"


# ---------------------------------------------------------------------------------------------
# real code: stage level
# ---------------------------------------------------------------------------------------------

def ev_dict(e):
    ph, name, pid, ts, dur, ok = e
    d = {"ph": ph, "name": name, "pid": pid, "tid": 7, "ts": float(F(ts)), "args": {}}
    if ph == "X":
        d["dur"] = float(F(dur))
    if ph == "C":
        d["args"]["v"] = 1
    if ok:
        d["args"].update({"TS1": "100", "TS2": "200", "TS3": "300", "TS4": "400", "TS5": "500"})
    return d


ERRMAP = {None: "ok", "KeyError": "keyerror", "AssertionError": "assert"}


def run_real_stage(events):
    """events: list of [ph, name, pid, ts, dur, ok].  Returns dict(err, files, slices, perr)."""
    import aiu_trace_analyzer.pipeline as ep
    tmp = tempfile.mkdtemp(prefix="aiuverif_c12_")
    try:
        sctx = ep.StatsExtractionContext(stats_filename=os.path.join(tmp, "out.json"))
        with contextlib.redirect_stdout(io.StringIO()):      # the stage prints on negative durations
            captured, err = stage.run_stages([(ep.calculate_stats, sctx, None)], [ev_dict(e) for e in events])
        res = {"err": ERRMAP.get(err, "other:" + str(err)), "files": None, "perr": None,
               "slices": slices_of(captured)}
        if err is None:
            try:
                with open(os.path.join(tmp, "out_summary.csv")) as fh:
                    s = fh.read()
                with open(os.path.join(tmp, "out_active.csv")) as fh:
                    a = fh.read()
                res["files"], res["perr"] = parse_files(s, a)
            except OSError as e:
                res["perr"] = f"missing file: {e}"
        del sctx
        return res
    finally:
        shutil.rmtree(tmp, ignore_errors=True)


def slices_of(events):
    """the kernel slices of an exported / captured event list: (name before renaming, pid, ts, dur)"""
    out = []
    for e in events:
        if e.get("ph") != "X":
            continue
        name = e.get("args", {}).get("orig_name", e.get("name", ""))
        if EXEC in name:
            out.append((name, e["pid"], F(e["ts"]), F(e["dur"])))
    return out


# ---------------------------------------------------------------------------------------------
# real code: end to end
# ---------------------------------------------------------------------------------------------

def build_e2e(spec):
    R = len(spec["ranks"])
    ranks = [scenario.Rank(r, 512.0, 1_000_000_000.0, spec["dev_epochs"][r]) for r in range(R)]
    tmax = 0.0
    for r, kernels in enumerate(spec["ranks"]):
        for name, start, prep, execd in (spec.get("long") or [[]] * R)[r]:
            # a long kernel that contains / outlasts the sequential ones started after it
            scenario.kernel(ranks[r], name, 100.0 + float(F(start)), float(F(prep)), float(F(execd)), 2)
        t = 100.0
        for name, gap, prep, execd in kernels:
            t = scenario.kernel(ranks[r], name, t + float(F(gap)), float(F(prep)), float(F(execd)), 2)
        ranks[r].host_event("AIU Roundtrip", 77, 100.0, t + 1)
        tmax = max(tmax, t)
    if spec.get("allreduce") and R >= 2:
        t = scenario.chain_allreduce(ranks, 1, tmax + 10, 1000)
        for r, tail in enumerate(spec.get("tail", [])):
            for name, gap, prep, execd in tail:
                t2 = scenario.kernel(ranks[r], name, t + float(F(gap)), float(F(prep)), float(F(execd)), 2)
                del t2
    files = {f"trace_rank_{rk.r}.json": rk.event_list() for rk in ranks}
    if spec.get("split_jobs"):
        # one rank's events in TWO job files (two graphs run by the same process): the statistics are per rank and
        # kernel name, whichever file a slice came from
        out = {}
        for fn, evs in files.items():
            cut = len(evs) // 2
            while 0 < cut < len(evs) and evs[cut - 1].get("ph") == "B":
                cut += 1
            if 0 < cut < len(evs):
                out[fn.replace(".json", "_jobA.json")] = evs[:cut]
                out[fn.replace(".json", "_jobB.json")] = evs[cut:]
            else:
                out[fn] = evs
        files = out
    return files


def run_real_e2e(spec):
    files = build_e2e(spec)
    argv = ["--freq", "512:1024"] + list(spec["argv"])
    if len(spec["ranks"]) > 1 and not spec.get("allreduce"):
        argv.append("-M")
    # the files are named after the -o argument: <output>_summary.csv / <output>_active.csv, also when the output
    # name carries further dot-separated tags (resnet.bs1.json -> resnet.bs1_summary.csv)
    out_name = spec.get("out", "out.json")
    stem = out_name[:-len(".json")]
    fs, fa = f"{stem}_summary.csv", f"{stem}_active.csv"
    with contextlib.redirect_stdout(io.StringIO()):
        r = stage.e2e(argv, files, want_files=[fs, fa], out_name=out_name)
    res = {"err": "ok" if (r["rc"] == 0 and not r["error"]) else f"other:{r['rc']}:{r['error']}",
           "files": None, "perr": None, "slices": []}
    if res["err"] == "ok":
        res["slices"] = slices_of(r["events"] or [])
        if fs in r["files"] and fa in r["files"]:
            res["files"], res["perr"] = parse_files(r["files"][fs], r["files"][fa])
        else:
            res["perr"] = "missing file: " + str(r["listing"])
    return res


# ---------------------------------------------------------------------------------------------
# oracle (from the statement)
# ---------------------------------------------------------------------------------------------

def omask(name):
    """digits masked as in the file: a '_' or '-' followed by a run of digits becomes '_[N]'"""
    out, i, n = [], 0, len(name)
    while i < n:
        c = name[i]
        if c in "_-" and i + 1 < n and name[i + 1] in "0123456789":
            j = i + 1
            while j < n and name[j] in "0123456789":
                j += 1
            out.append("_[N]")
            i = j
        else:
            out.append(c)
            i += 1
    return "".join(out)


def near(d, q, tol):
    return abs(d - q) <= tol


def oracle(slices, files, perr):
    """returns (classifier, description) or None"""
    if perr is not None or files is None:
        return ("stats-file-unreadable", f"summary/active file missing or not parsable: {perr}")
    rows, active = files["rows"], files["active"]
    groups, per_pid = {}, {}
    for name, pid, ts, dur in slices:
        groups.setdefault((pid, omask(name)), []).append(dur)
        per_pid.setdefault(pid, []).append((ts, dur))
    seen = {}
    for r in rows:
        k = (r["pid"], r["name"])
        if k in seen:
            return ("stats-row-duplicate", f"two summary rows for rank {k[0]} kernel {k[1]!r}")
        seen[k] = r
    for k, durs in groups.items():
        if k not in seen:
            return ("stats-slice-omitted", f"{len(durs)} exported slice(s) of rank {k[0]} with masked name {k[1]!r} "
                                           f"have no summary row (rows: {sorted(seen)})")
    for k in seen:
        if k not in groups:
            return ("stats-row-without-slices", f"summary row rank {k[0]} {k[1]!r} matches no exported kernel slice")
    for k, durs in groups.items():
        r, n, tot = seen[k], len(durs), sum(durs)
        if r["calls"] != n:
            return ("stats-calls", f"rank {k[0]} {k[1]!r}: Calls={r['calls']} but {n} exported slices")
        exp = {"total": (tot, TOL3), "mean": (tot / n, TOL3 + EPS), "median": (statistics.median(durs), TOL3 + EPS),
               "min": (min(durs), TOL3), "max": (max(durs), TOL3)}
        for col, (q, tol) in exp.items():
            if not near(r[col], q, tol):
                return ("stats-" + col, f"rank {k[0]} {k[1]!r}: {col}={float(r[col])} but recomputed {float(q)} from durations "
                                        f"{[float(d) for d in durs[:8]]}")
        sd = statistics.stdev([float(d) for d in durs]) if n > 1 else 0.0
        if not near(r["stdev"], F(sd), TOL3 + F(1, 10 ** 6)):
            return ("stats-stdev", f"rank {k[0]} {k[1]!r}: StDev={float(r['stdev'])} but statistics.stdev gives {sd}")
        ptot = sum(d for (_, d) in per_pid[k[0]])
        if not near(r["share"], tot / ptot * 100, TOL2 + EPS):
            return ("stats-share", f"rank {k[0]} {k[1]!r}: Time={float(r['share'])}% but total/rank total = "
                                   f"{float(tot / ptot * 100)}%")
    for pid in per_pid:
        prow = [r for r in rows if r["pid"] == pid]
        s = sum(r["share"] for r in prow)
        if not near(s, F(100), len(prow) * (TOL2 + EPS)):
            return ("stats-share-sum", f"rank {pid}: Time column sums to {float(s)}")
        if sum(r["calls"] for r in prow) != len(per_pid[pid]):
            return ("stats-calls", f"rank {pid}: Calls sum to {sum(r['calls'] for r in prow)} but {len(per_pid[pid])} slices")
    apids = [a["pid"] for a in active]
    if sorted(apids) != sorted(per_pid):
        return ("stats-active-ranks", f"active file has ranks {apids}, trace has kernel slices on {sorted(per_pid)}")
    for a in active:
        sl = per_pid[a["pid"]]
        start, stop, tot = min(t for t, _ in sl), max(t + d for t, d in sl), sum(d for _, d in sl)
        exp = {"total": (tot, TOL3), "start": (start, TOL3), "stop": (stop, TOL3), "elapsed": (stop - start, TOL3),
               "active": (tot / (stop - start) * 100, TOL2 + EPS)}
        for col, (q, tol) in exp.items():
            if not near(a[col], q, tol):
                return ("stats-active-" + col, f"rank {a['pid']}: active file {col}={float(a[col])} but trace gives {float(q)}")
    return None


# ---------------------------------------------------------------------------------------------
# model side
# ---------------------------------------------------------------------------------------------

def model_line(events):
    if not events:
        return "c12 -"
    return "c12 " + ";".join(f"{ph},{enc(name)},{pid},{rat(F(ts))},{rat(F(dur))},{1 if ok else 0}"
                             for ph, name, pid, ts, dur, ok in events)


def unenc(s):
    import re
    if s == "%00":
        return ""
    return re.sub(r"%([0-9A-F]{2})", lambda m: chr(int(m.group(1), 16)), s)


def parse_model(ans):
    if not ans.startswith("ok "):
        return {"err": ans[4:] if ans.startswith("err:") else ans, "rows": None, "active": None}
    s, a = ans[3:].split(" A=")
    rows, active = [], []
    for r in [x for x in s[2:].split(";") if x]:
        f = r.split(",")
        rows.append({"pid": int(f[0]), "name": unenc(f[1]), "calls": int(f[2]), "total": F(f[3]), "mean": F(f[4]),
                     "median": F(f[5]), "min": F(f[6]), "max": F(f[7]), "share": F(f[8]), "var": F(f[9])})
    for r in [x for x in a.split(";") if x]:
        f = r.split(",")
        active.append({"pid": int(f[0]), "total": F(f[1]), "elapsed": F(f[2]), "start": F(f[3]), "stop": F(f[4]),
                       "active": F(f[5])})
    return {"err": "ok", "rows": rows, "active": active}


ROW_TOL = {"total": TOL3, "mean": TOL3 + EPS, "median": TOL3 + EPS, "min": TOL3, "max": TOL3, "share": TOL2 + EPS}
AROW_TOL = {"total": TOL3, "elapsed": TOL3, "start": TOL3, "stop": TOL3, "active": TOL2 + EPS}


def _order_ok(rows):
    keys = [(r["pid"], -r["total"]) for r in rows]
    return keys == sorted(keys)


def canon_pair(model, real, ordered=True):
    """canonical (model, real) renderings; a printed real value within the rounding tolerance of the exact
    model value is rendered as the model value, any other one as itself.  `ordered=False` (e2e): the order
    among rows with equal totals depends on the arrival order at the stage, which the exported file does
    not show; rows are then compared sorted by (pid, -total, name) plus the fact that the file is ordered
    by pid ascending / total descending."""
    if model["err"] != "ok" or real["err"] != "ok":
        return {"err": model["err"]}, {"err": real["err"]}
    if real["files"] is None:
        return {"err": "ok"}, {"err": "ok", "files": "unreadable: " + str(real["perr"])}
    cm = {"err": "ok", "rows": [], "active": []}
    cr = {"err": "ok", "rows": [], "active": []}
    if not ordered:
        cm["file_order_pid_asc_total_desc"] = _order_ok(model["rows"])
        cr["file_order_pid_asc_total_desc"] = _order_ok(real["files"]["rows"])
        model = dict(model, rows=sorted(model["rows"], key=lambda r: (r["pid"], -r["total"], r["name"])))
        real = dict(real, files=dict(real["files"], rows=sorted(real["files"]["rows"],
                                                                key=lambda r: (r["pid"], -r["total"], r["name"]))))
    for m in model["rows"]:
        cm["rows"].append([m["pid"], m["name"], m["calls"]] + [rat(m[c]) for c in ROW_TOL] + ["var=" + rat(m["var"])])
    for i, r in enumerate(real["files"]["rows"]):
        m = model["rows"][i] if i < len(model["rows"]) else None
        # the printed StDev (3 decimals) against the square root of the model's exact sample variance
        sd_ok = m is not None and abs(float(r["stdev"]) - math.sqrt(float(m["var"]))) <= float(TOL3) + 1e-6
        cr["rows"].append([r["pid"], r["name"], r["calls"]] +
                          [rat(m[c]) if (m is not None and near(r[c], m[c], t)) else "printed:" + str(float(r[c]))
                           for c, t in ROW_TOL.items()] +
                          ["var=" + rat(m["var"]) if sd_ok else "printed stdev:" + str(float(r["stdev"]))])
    for m in model["active"]:
        cm["active"].append([m["pid"]] + [rat(m[c]) for c in AROW_TOL])
    for i, r in enumerate(real["files"]["active"]):
        m = model["active"][i] if i < len(model["active"]) else None
        cr["active"].append([r["pid"]] +
                            [rat(m[c]) if (m is not None and near(r[c], m[c], t)) else "printed:" + str(float(r[c]))
                             for c, t in AROW_TOL.items()])
    return cm, cr


# ---------------------------------------------------------------------------------------------
# generators
# ---------------------------------------------------------------------------------------------

def K(name, pid, ts, dur, ok=1, ph="X"):
    return [ph, name, pid, rat(F(ts)), rat(F(dur)), ok]


ALPHABET = [
    K("k_1 Cmpt Exec", 0, 0, 2),
    K("k_2 Cmpt Exec", 0, 1, 1),
    K("k-7 Cmpt Exec", 0, 3, 2),
    K("k Cmpt Exec", 0, 2, 2),
    K("k_1 Cmpt Exec", 1, 0, F(1, 4)),
    K("j_12_x3 Cmpt Exec", 1, 5, 3),
    K("k_1 Cmpt Prep", 0, 1, 5),
    K("k_1 Cmpt Exec", 0, 1, 0, ok=0, ph="C"),
    K("k_3 Cmpt Exec", 0, 4, 0),
    K("k_3 Cmpt Exec", 0, 4, 1, ok=0),
    K("k_3 Cmpt Exec", 1, 4, 0, ok=0),
    # interval shapes: a slice that contains every other pid-0 letter (equal start with the first letter, later
    # end) and one that starts inside and outlasts them all -- in every arrival order through the enumeration
    K("k_44 Cmpt Exec", 0, 0, 8),
    K("k_9 Cmpt Exec", 0, F(1, 2), 9),
]

TOKENS = ["mm", "addmm", "conv2d", "_", "-", "_", "12", "3", "007", ".", " ", "x", "V", "[s=a_1]", "Add", "9"]
SUFFIX = ["", "", "", "_2", " tail", "-5x"]


def rand_name(rng):
    while True:
        n = "".join(rng.choice(TOKENS) for _ in range(rng.randint(1, 5))).strip()
        if n:
            return n + " " + EXEC + rng.choice(SUFFIX)


def variant(rng, name):
    """another spelling of the same masked kernel name: change the digit runs that follow a separator"""
    out, i = [], 0
    while i < len(name):
        c = name[i]
        if c in "_-" and i + 1 < len(name) and name[i + 1].isdigit():
            j = i + 1
            while j < len(name) and name[j].isdigit():
                j += 1
            out.append(rng.choice("_-") + str(rng.randint(0, 999)))
            i = j
        else:
            out.append(c)
            i += 1
    return "".join(out)


def rand_stream(rng):
    npid = rng.randint(1, 4)
    pids = rng.sample([0, 1, 2, 3, 5, 17, 1000], npid)
    bases = [rand_name(rng) for _ in range(rng.randint(1, 6))]
    durs = [F(rng.randint(1, 400), 4) for _ in range(rng.randint(1, 5))]
    evs = []
    t = F(rng.randint(0, 1 << 20), 4) if rng.random() < 0.7 else F(rng.randint(1 << 38, 1 << 39), 4)
    for _ in range(rng.randint(1, 60)):
        t += F(rng.randint(0, 40), 4)
        x = rng.random()
        pid = rng.choice(pids)
        if x < 0.8:
            b = rng.choice(bases)
            name = variant(rng, b) if rng.random() < 0.7 else b
            dur = rng.choice(durs) if rng.random() < 0.6 else F(rng.randint(1, 4000), 4)
            if rng.random() < 0.05:
                # a kernel of about a second: 21 bits in front of the binary point and 4 behind it (exact in a double)
                dur = F(rng.randint(900_000 * 16, 1_300_000 * 16) | 1, 16)
            evs.append(K(name, pid, t, dur))
        elif x < 0.9:
            evs.append(K(rng.choice(bases).replace(EXEC, "Cmpt Prep"), pid, t, F(rng.randint(1, 40), 4)))
        elif x < 0.97:
            evs.append(K("Some Counter", pid, t, 0, ok=0, ph="C"))
        elif x < 0.985:
            evs.append(K(rng.choice(bases), pid, t, rng.choice([0, F(-1, 4)])))
        else:
            evs.append(K(rng.choice(bases), pid, t, rng.choice([0, 1]), ok=0))
    # long slices that contain / outlast later-starting ones, and arrival orders other than ascending start
    for _ in range(rng.choice([0, 0, 1, 2])):
        j = rng.randrange(len(evs) + 1)
        t0 = F(evs[j][3]) if j < len(evs) else t
        evs.insert(j, K(rng.choice(bases), rng.choice(pids), t0, F(rng.randint(2000, 8000), 4)))
    order = rng.random()
    if order < 0.3:
        evs.reverse()
    elif order < 0.55:
        rng.shuffle(evs)
    return evs


E2E_NAMES = ["mm_0", "mm_1", "mm-17", "addmm_2_MatMul", "addmm_31_MatMul", "conv2d", "softmax_3", "softmax", "final_9",
             "layer_1-2_x", "layer_7-88_x", "gelu"]
E2E_ARGVS = [[], ["--keep_names"], ["--flow"], ["--disable_tb"], ["--keep_prep"], ["--drop_globals"], ["-O", "tid"],
             ["-F", "X"], ["-F", "XC"], ["-k"], ["-C", "power_ts4"]]


def rand_e2e(rng, i):
    R = rng.choice([1, 1, 2, 3])
    spec = {"kind": "e2e", "ranks": [], "dev_epochs": [rng.randrange(0, 1 << 32, 512) for _ in range(R)],
            "allreduce": R >= 2 and rng.random() < 0.6, "argv": E2E_ARGVS[i % len(E2E_ARGVS)], "tail": [],
            "out": ["out.json", "out.json", "out.v2.json", "resnet.bs1.json"][i % 4]}
    names = rng.sample(E2E_NAMES, rng.randint(2, 6))
    for _ in range(R):
        ks = []
        for _ in range(rng.randint(1, 10)):
            ks.append([rng.choice(names), rat(F(rng.randint(4, 40), 4)), rat(F(rng.randint(4, 80), 4)),
                       rat(F(rng.choice([20, 40, 41, 100, 3, 250, rng.randint(1, 400)]), 4))])
        spec["ranks"].append(ks)
    if rng.random() < 0.5:
        spec["long"] = [[[rng.choice(names), rat(F(rng.randint(0, 80), 4)), rat(F(rng.randint(4, 40), 4)),
                          rat(F(rng.randint(400, 4000), 4))]] if rng.random() < 0.7 else [] for _ in range(R)]
    if not spec["allreduce"] and i % 4 == 1:
        spec["split_jobs"] = True
    if spec["allreduce"]:
        spec["tail"] = [[[rng.choice(names), "3", "5", rat(F(rng.randint(1, 200), 4))]] for _ in range(R)]
    return spec


def gen_stage_cases(ctx: Ctx):
    L = 4 if ctx.quick() else 5
    for n in range(0, L + 1):
        for combo in itertools.product(range(len(ALPHABET)), repeat=n):
            yield {"kind": "stage", "events": [ALPHABET[i] for i in combo]}
    ctx.extra["exhaustive_upto_len"] = L
    ctx.extra["alphabet"] = len(ALPHABET)
    for _ in range(ctx.n(2500, 20000)):
        yield {"kind": "stage", "events": rand_stream(ctx.rng)}


def gen_e2e_cases(ctx: Ctx):
    for i in range(ctx.n(60, 400)):
        yield rand_e2e(ctx.rng, i)


# ---------------------------------------------------------------------------------------------

def run_real(case):
    if case["kind"] == "stage":
        return run_real_stage(case["events"])
    return run_real_e2e(case)


def oracle_on_case(ctx: Ctx, case, verbose=False):
    r = run_real(case)
    if verbose:
        print("real:", {k: v for k, v in r.items() if k != "slices"}, "slices:", len(r["slices"]))
    if r["err"] == "ok":
        v = oracle(r["slices"], r["files"], r["perr"])
        if v:
            ctx.violation(v[0], v[1], case)
    elif case["kind"] == "e2e":
        # a well-formed generated scenario must run; a crash is not a C12 statement but it would hide the files
        ctx.violation("stats-run-failed", f"acelyzer failed on a well-formed scenario: {r['err']}", case)
    return r


def _stats_branches(ctx, r):
    if r["err"] != "ok" or not r["files"]:
        ctx.count("err_" + r["err"].split(":")[0])
        return False
    rows = r["files"]["rows"]
    by_pid = {}
    for x in rows:
        by_pid.setdefault(x["pid"], []).append(x)
    raw = {}
    for name, pid, _, _ in r["slices"]:
        raw.setdefault((pid, omask(name)), set()).add(name)
    ctx.count("rows", len(rows))
    ctx.count("groups_with_several_calls", sum(1 for x in rows if x["calls"] > 1))
    ctx.count("single_call_groups", sum(1 for x in rows if x["calls"] == 1))
    ctx.count("groups_merging_different_spellings", sum(1 for v in raw.values() if len(v) > 1))
    sl_pid = {}
    for _, pid, ts, dur in r["slices"]:
        sl_pid.setdefault(pid, []).append((ts, ts + dur))
    ctx.count("ranks_whose_latest_end_is_not_on_the_latest_start",
              sum(1 for v in sl_pid.values() if max(v)[1] != max(e for _, e in v)))
    ctx.count("ranks_with_several_groups", sum(1 for v in by_pid.values() if len(v) > 1))
    ctx.count("ranks_with_tied_totals", sum(1 for v in by_pid.values() if len({x["total"] for x in v}) < len(v)))
    ctx.count("even_sized_groups", sum(1 for x in rows if x["calls"] % 2 == 0))
    ctx.count("runs_with_several_ranks", int(len(by_pid) > 1))
    return any(x["calls"] > 1 for x in rows) or any(len(v) > 1 for v in by_pid.values())


def run(ctx: Ctx):
    cases, reals = [], []
    for case in itertools.chain(gen_stage_cases(ctx), gen_e2e_cases(ctx)):
        r = oracle_on_case(ctx, case)
        nt = _stats_branches(ctx, r)
        ctx.count("cases_" + case["kind"])
        ctx.case_done(case, nontrivial=nt)
        cases.append(case)
        reals.append(r)
    ctx.extra["exhaustive"] = False
    if ctx.search_mode or not ctx.driver or not ctx.driver.ok:
        return
    lines = []
    for case, r in zip(cases, reals):
        if case["kind"] == "stage":
            lines.append(model_line(case["events"]))
        else:
            lines.append(model_line([["X", n, p, rat(t), rat(d), 1] for (n, p, t, d) in r["slices"]]))
    outs = ctx.driver.ask(lines)
    for case, r, o in zip(cases, reals, outs):
        if case["kind"] == "e2e" and r["err"] != "ok":
            continue
        m = parse_model(o)
        cm, cr = canon_pair(m, r, ordered=(case["kind"] == "stage"))
        what = ("stats model vs calculate_stats/drain (error class, summary + active rows in file order)"
                if case["kind"] == "stage" else
                "stats model on the exported Cmpt Exec slices vs the CSV files of the same acelyzer run")
        ctx.compare(what, case, cm, cr)


def shrink(ctx: Ctx, case, classifier):
    def bad(c):
        try:
            r = run_real(c)
        except Exception:
            return False
        if r["err"] != "ok":
            return classifier == "stats-run-failed" and c["kind"] == "e2e"
        v = oracle(r["slices"], r["files"], r["perr"])
        return v is not None and v[0] == classifier
    if case["kind"] == "stage":
        evs = list(case["events"])
        changed = True
        while changed:
            changed = False
            for j in range(len(evs)):
                c2 = {"kind": "stage", "events": evs[:j] + evs[j + 1:]}
                if bad(c2):
                    evs, changed = c2["events"], True
                    break
        return {"kind": "stage", "events": evs}
    spec = {k: (list(v) if isinstance(v, list) else v) for k, v in case.items()}
    changed = True
    while changed:
        changed = False
        for r in range(len(spec["ranks"])):
            for j in range(len(spec["ranks"][r])):
                if len(spec["ranks"][r]) <= 1:
                    continue
                c2 = dict(spec)
                c2["ranks"] = [list(x) for x in spec["ranks"]]
                del c2["ranks"][r][j]
                if bad(c2):
                    spec, changed = c2, True
                    break
            if changed:
                break
    return spec
