"""C02 — well-formed input yields a complete, viewer-loadable trace and exit code 0.  (PARTIAL)

Proved (Lean): the export step's schema and totality guard (`schema_ok`, `export_total`) and, over
the registration order generated from the source, that no scratch key can leave the pipeline for
any switch combination (`no_scratch_*`).  NOT proved: absence of uncaught exceptions in the stage
code that is not modelled — sampled by the e2e runs below and labelled as such.

Tie to /repo:
 (1) translator (site list, guards);
 (2) correspondence of `fromDict` with the real EventProcessor.convert_events + from_dict on random
     raw event dicts (key subsets, falsy tid/bp, unknown phases): exported key set / exception;
 (3) the key-effect table `effect` against real per-stage streams of `-I` runs: a scratch key that
     appears behind a stage although absent in front of it requires `adds`; behind a `cleans` stage
     the key must be gone;
 (4) e2e oracle from the statement on real runs over rich scenarios x option sets of the claimed
     domain: rc 0, strict JSON, per-phase schema with finite numbers and integer pid, no scratch.
Tolerant fields: none.
"""
from __future__ import annotations

import glob
import json
import math
import os
import shutil

from lib import stage, par
from lib.core import Ctx, REPO

ID = "C02"
NEEDS_GEN = True
LEAN_TARGETS = ["AiuVerif.Props.C02", "AiuVerif.Props.C02Total"]
THEOREMS = [
    "AiuVerif.C02.schema_ok",
    "AiuVerif.C02.export_total",
    "AiuVerif.C02.okUncond_sound",
    "AiuVerif.C02.okGuarded_sound",
    "AiuVerif.C02.no_scratch_ts_all",
    "AiuVerif.C02.no_scratch_ts_dev",
    "AiuVerif.C02.no_scratch_jobhash",
    "AiuVerif.C02.no_scratch_helperF",
    "AiuVerif.C02.no_nonslice_dur",
    "AiuVerif.C02.no_scratch_counter_dur",
    "AiuVerif.C02.no_scratch_ts_cycles",
    "AiuVerif.C02.overlap_tid_only_budget_error",
    "AiuVerif.C02.overlap_drop_total",
    "AiuVerif.C02.normalize_total",
    "AiuVerif.C02.timesync_total",
    "AiuVerif.C02.power_total",
    "AiuVerif.C02.bandwidth_total",
    "AiuVerif.C02.tid_mapping_total",
]
RULE = ("(a) random raw event dicts (phase from X,C,M,s,f,b,e,B,E,i,F,Q; random subsets of the keys each phase reads; falsy tid / bp) "
        "through the real convert_events; non-trivial = a required key is missing or an optional one present. (b) rich scenarios "
        "(gen/rich.py) x single options and pairs of options of the claimed domain through the real Acelyzer API; non-trivial = "
        "the run synthesizes counters/flows/metadata. distinct = distinct canonical case.")
TRUSTED = ["json module for the strict re-parse (parse_constant rejects NaN/Infinity)",
           "that every event traverses every selected stage in order (C03.run_eq_runSpec) for the may-carry analysis"]
ASSUMPTIONS = ["PARTIAL: 'no uncaught exception' for stage code outside the models (dict accesses in un-modelled branches, float "
               "rounding inside assertions, pandas) is only sampled by the end-to-end runs of this check",
               "equal guard text means equal truth value during one registration (args are not mutated while stages are registered)"]
NOT_YET_PROVED = ["pipeline_total: runPipeline is total on well-formed input (needs the composition of all stage models); proved "
                  "today only for the modelled stage families: overlap (-O tid: only the lane-budget KeyError; -O drop: total), "
                  "wrap correction + sanity checks (normalize_total); C06.asserts_hold and C10.never_raises cover time conversion "
                  "and the power counter under their own hypotheses",
                  "finite numeric ts/dur and integer pid of every synthesized event (oracle only)"]
LEVEL_TEXT = ("PARTIAL. Lean theorems: schema_ok / export_total for a model of convert_events + from_dict (which keys each phase needs, "
              "what is exported, dur only on complete events, exactly when it raises); no_scratch_* — a may-carry analysis over the "
              "registration sites generated from the source shows for EVERY truth assignment of the guard conditions that ts_all, ts_dev, "
              "jobhash, TS_cycles, helper 'F' events and counter durations are removed behind their last producer (the -c/-t defect was "
              "exactly a failure of this obligation). The remaining clause of the statement (termination without exception, rc 0, finite "
              "numbers) is decided by end-to-end runs only.")
LEVEL_NOTE = ("Trusted: Lean kernel + standard axioms; translator; the effect table is validated on real -I streams each run. The claim is "
              "partial: exception freedom of un-modelled stage code is sampled, not proved.")
TECHNIQUE = "Lean 4 proof (export model; may-carry analysis over source-generated sites, decide +kernel) + correspondence and e2e runs"

DOMAIN_OPTS = [["--flow"], ["--keep_prep"], ["-M"], ["--disable_tb"], ["--tb"], ["-c", "$COMPLOG"], ["--power-stats"],
               ["--comm_summarize_seq"], ["--time_unit", "ms"], ["-t"], ["-O", "drop"]]
SCRATCH = ["ts_all", "ts_dev", "jobhash", "TS_cycles"]
PH_KEYS = ["ts", "pid", "tid", "name", "dur", "id", "cat", "bp", "args", "s", "extra_top"]


# ---------------------------------------------------------------------------------------------
# (2) export correspondence
# ---------------------------------------------------------------------------------------------
def gen_raw(rng):
    ph = rng.choice(["X", "X", "C", "M", "s", "f", "b", "e", "B", "E", "i", "F", "Q"])
    ev = {"ph": ph}
    vals = {"ts": 1.5, "pid": 2, "tid": rng.choice([0, 0, 7]), "name": " nm ", "dur": 2.0, "id": 5, "cat": "c",
            "bp": rng.choice(["e", "", None]), "args": {"a": 1}, "s": "g", "extra_top": 9}
    for k in PH_KEYS:
        if rng.random() < 0.8:
            ev[k] = vals[k]
    return ev


def real_export(ev):
    import copy
    from aiu_trace_analyzer.core.processing import EventProcessor
    proc = EventProcessor(profile=stage.accepting_profile([]))
    try:
        out = proc.convert_events([copy.deepcopy(ev)])
    except KeyError as e:
        return f"err:KeyError:{e.args[0]}"
    except Exception:  # noqa: BLE001
        return "err:Exception"
    return "ok " + ",".join(sorted(out[0].json().keys()))


def export_line(ev):
    keys = ",".join(k for k in ev if k != "ph") or ","
    # convert_events guarantees args
    if "args" not in ev:
        keys = (keys + ",args") if keys != "," else "args"
    return f"c02 export {ev['ph']} {keys} {1 if ev.get('tid') else 0} {1 if ev.get('bp') else 0}"


# ---------------------------------------------------------------------------------------------
# (4) e2e oracle
# ---------------------------------------------------------------------------------------------
def _reject(x):
    raise ValueError("non-strict JSON constant " + x)


def is_num(x):
    return isinstance(x, (int, float)) and not isinstance(x, bool) and math.isfinite(x)


def schema_violation(e, i):
    for k in ("ph", "name", "pid", "ts"):
        if k not in e:
            return f"event #{i} lacks {k}: {str(e)[:160]}"
    if not isinstance(e["pid"], int) or isinstance(e["pid"], bool):
        return f"event #{i} pid is not an integer: {e['pid']!r}"
    if not is_num(e["ts"]):
        return f"event #{i} ts is not a finite number: {e['ts']!r}"
    ph = e["ph"]
    if ph == "F":
        return f"helper event of phase F exported: {str(e)[:160]}"
    if ph == "X":
        if "tid" not in e or not is_num(e.get("dur")) or not e["dur"] > 0:
            return f"slice #{i} without tid or with non-positive/non-finite dur: {str(e)[:160]}"
    if ph == "C":
        if not isinstance(e.get("args"), dict) or not all(is_num(v) for v in e["args"].values()):
            return f"counter #{i} has non-numeric args: {str(e)[:160]}"
        if "dur" in e:
            return f"counter #{i} carries dur: {str(e)[:160]}"
    if ph in ("s", "f", "t") and "id" not in e:
        return f"flow event #{i} lacks id"
    if ph == "M" and "args" not in e:
        return f"metadata event #{i} lacks args"
    for k in SCRATCH:
        if k in e or (isinstance(e.get("args"), dict) and k in e["args"]):
            return f"scratch key {k} exported on event #{i}: {str(e)[:160]}"
    return None


def expand(opts):
    return [str(REPO / "tests/test_data/sample_comp_log_ideal.txt") if o == "$COMPLOG" else o for o in opts]


def e2e_job(job):
    from gen import rich
    spec, opts, with_I = job
    if spec.get("names"):
        files = spec["files"]
    else:
        files, _ = rich.build(spec)
    argv = ["--freq", "512"] + expand(opts) + (["-I"] if with_I else [])
    r = stage.e2e(argv, files, keep_dir=True)
    res = {"rc": r["rc"], "error": r["error"], "viol": None, "n": 0, "kinds": {}, "stages": None}
    d = r.get("dir")
    try:
        if r["error"] is not None or r["rc"] != 0:
            res["viol"] = ("run-failed", f"rc={r['rc']} error={r['error']}")
            return res
        inputs = {os.path.normpath(os.path.join(d, n)) for n in files}
        outs = [p for p in glob.glob(os.path.join(d, "**", "*.json"), recursive=True)
                if os.path.normpath(p) not in inputs and "out.json_" not in os.path.basename(p)]
        if not outs:
            res["viol"] = ("no-output", f"no trace written; directory holds {r.get('listing')}")
            return res
        for p in outs:
            raw = open(p).read()
            try:
                doc = json.loads(raw, parse_constant=_reject)
            except ValueError as e:
                res["viol"] = ("not-strict-json", f"{os.path.basename(p)}: {e}")
                return res
            evs = doc.get("traceEvents") if isinstance(doc, dict) else doc
            if not isinstance(evs, list):
                res["viol"] = ("schema", f"{os.path.basename(p)} has no traceEvents list")
                return res
            for i, e in enumerate(evs):
                v = schema_violation(e, i)
                if v:
                    res["viol"] = ("schema", f"{os.path.basename(p)}: {v}")
                    return res
                res["kinds"][e["ph"]] = res["kinds"].get(e["ph"], 0) + 1
            res["n"] += len(evs)
        if with_I:
            st = []
            for f in sorted(x for x in os.listdir(d) if x.startswith("out.json_")):
                j = json.load(open(os.path.join(d, f)))
                evs = j["traceEvents"] if isinstance(j, dict) else j
                # flow events are exported without args: their top-level extras never reach the output
                has = {k: any((k in e and e.get("ph") not in ("s", "f", "t")) or
                              (isinstance(e.get("args"), dict) and k in e["args"] and e.get("ph") not in ("s", "f", "t"))
                              for e in evs) for k in SCRATCH}
                has["helperF"] = any(e.get("ph") == "F" for e in evs)
                has["counterDur"] = any(e.get("ph") == "C" and "dur" in e for e in evs)
                has["nonSliceDur"] = any(e.get("ph") in ("C", "s", "f", "t", "M", "i", "b", "e") and "dur" in e for e in evs)
                st.append({"name": f[len("out.json_"):][3:], "has": has})
            res["stages"] = st
        return res
    finally:
        if d:
            shutil.rmtree(d, ignore_errors=True)


def known_name_case(name):
    """a host slice whose name makes the FLEX and the generic classifier disagree (open finding)"""
    from gen import scenario as sc
    rk = sc.Rank(0, 512.0, 1e9, 512000)
    sc.kernel(rk, "mm_0", 103.0)
    rk.host_event(name, 77, 10, 50)
    return {"names": True, "files": {"trace_rank_0.json": rk.event_list()}, "name": name}


def oracle_on_case(ctx: Ctx, case, verbose=False):
    if case["kind"] == "export":
        return None
    res = e2e_job((case["spec"], case["opts"], case.get("with_I", False)))
    if verbose:
        print(res)
    if res["viol"]:
        cl, d = res["viol"]
        if case.get("expect") == "classifier-disagreement" and "classificaton diff" in d:
            cl = "classifier-disagreement"
        ctx.violation(cl, f"options {case['opts']}: {d}", case)
    return res


def run(ctx: Ctx):
    from gen import rich
    rng = ctx.rng
    lines, wants, cases = [], [], []
    if not ctx.search_mode:
        for _ in range(ctx.n(1500, 15000)):
            ev = gen_raw(rng)
            case = {"kind": "export", "event": ev}
            want = real_export(ev)
            lines.append(export_line(ev))
            wants.append(want)
            cases.append(case)
            ctx.case_done(case, key=json.dumps(ev, sort_keys=True, default=str), nontrivial=True)
            ctx.count("export_" + ("ok" if want.startswith("ok") else want.split(":")[1]))
    # e2e
    jobs, ecases = [], []
    nsc = ctx.n(9, 150)
    dom = list(DOMAIN_OPTS)
    rng.shuffle(dom)
    for s in range(nsc):
        spec = rich.random_spec(rng)
        if s == 3:
            spec.update(sub_ns=True, bad_dur=True, short=True, meta=True, near_wrap=True, flat_power=True, origin=True)
        if s == 4:
            spec.update(layout="subdirs", kernels=0)
        if s == 5:
            spec.update(groups=0, R=1, pid_base=1)           # one rank of a larger job analysed alone: pid 1, no pid 0
        if s == 6:
            spec.update(groups=0, R=2, pid_base=2)
        if s == 0:
            spec["overlap_depth"] = 5          # exactly the documented lane budget
        if s == 1:
            spec["R"], spec["groups"], spec["stale"] = 2, max(1, spec["groups"]), True   # stale group dropped in-stream
        if s == 2:
            spec["dma_only"] = True            # a job with device events but without any compute kernel
        if s == 8 or (s > 8 and rng.random() < 0.3):
            spec["tag_names"] = True
        if s == 7:
            spec["many_tids"] = rng.randint(31, 45)      # more distinct thread ids in one job than 30
        singles = [[]] + DOMAIN_OPTS
        pairs = []
        for _ in range(ctx.n(6, 20)):
            a, b = rng.sample(DOMAIN_OPTS, 2)
            pairs.append(a + b)
        # quick: single options go round-robin over the scenarios (every one at least twice per check)
        osets = ([[]] + [dom[(s * 3 + j) % len(dom)] for j in range(3)] + pairs[:4]) if ctx.quick() else singles + pairs
        if spec.get("stale") and ["--flow"] not in osets:
            osets = osets + [["--flow"]]
        if spec.get("pid_base") and spec.get("groups") == 0 and ["--tb"] not in osets:
            osets = osets + [["--tb"]]                   # per-rank TensorBoard files for rank ids that do not start at 0
        if spec.get("flat_power") and ["--power-stats"] not in osets:
            osets = osets + [["--power-stats"]]          # statistics over power samples that are all exactly 0 W
        for oi, o in enumerate(osets):
            with_I = oi % 3 == 0 and "--tb" not in o
            ecases.append({"kind": "e2e", "spec": spec, "opts": o, "with_I": with_I})
            jobs.append((spec, o, with_I))
    # the open finding: names on which the two classifiers disagree
    for nm in ["Flex RoundTrip 3", "my barrier: x"]:
        sp = known_name_case(nm)
        ecases.append({"kind": "e2e", "spec": sp, "opts": [], "with_I": False, "expect": "classifier-disagreement"})
        jobs.append((sp, [], False))
    results = par.pmap(e2e_job, jobs)
    eff_lines, eff_pending = [], []
    for case, res in zip(ecases, results):
        if res["viol"]:
            cl, d = res["viol"]
            if case.get("expect") == "classifier-disagreement" and "classificaton diff" in d:
                cl = "classifier-disagreement"
            ctx.violation(cl, f"options {case['opts']}: {d}", case)
        ctx.count("e2e_runs")
        ctx.count("e2e_exported_events", res["n"])
        for k, v in res["kinds"].items():
            ctx.count(f"e2e_ph_{k}", v)
        ctx.case_done(case, key=json.dumps(case, sort_keys=True, default=str),
                      nontrivial=any(k in res["kinds"] for k in ("C", "s", "M")))
        if res.get("stages") and not ctx.search_mode:
            prev = {k: (k == "jobhash") for k in list(SCRATCH) + ["helperF", "counterDur", "nonSliceDur"]}
            for st in res["stages"]:
                for k, now in st["has"].items():
                    eff_lines.append(f"c02 effect {k} {st['name']}")
                    eff_pending.append((case, st["name"], k, prev[k], now))
                prev = st["has"]
    if ctx.search_mode or not ctx.driver or not ctx.driver.ok:
        return
    outs = ctx.driver.ask(lines + eff_lines)
    for case, want, got in zip(cases, wants, outs[:len(lines)]):
        g = got
        if got.startswith("ok "):
            g = "ok " + ",".join(sorted(got[3:].split(",")))
        ctx.compare("fromDict vs real convert_events + from_dict (exported keys / exception)", case, g, want)
    for (case, name, k, before, now), eff in zip(eff_pending, outs[len(lines):]):
        ok = True
        if now and not before and eff != "adds":
            ok = False
        if eff == "cleans" and now:
            ok = False
        ctx.count(f"effect_obs_{eff}")
        ctx.compare(f"effect table: stage {name} on scratch key {k} vs real -I streams",
                    {"opts": case["opts"], "stage": name, "key": k, "spec": case["spec"] if not case["spec"].get("names") else "names"},
                    eff if ok else f"{eff} (model)", eff if ok else f"observed before={before} after={now}")
