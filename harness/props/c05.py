"""C05 — 32-bit cycle-counter wrap correction is consistent across all events of a rank.

Correspondence: the real callbacks and the real shared `NormalizationContext` that the CLI registers
(`lib.stage.cli_stages(['--freq=<f>:1100', ...])`: normalize_phase1 -> pipeline_barrier -> normalize_phase2 ->
event_sanity_checks) are run inside a real EventProcessor/Engine on generated X events; the compiled Lean model
`Normalize.pipeline` gets the same events.  Compared exactly: per surviving event (in order) uid, args.TS1..TS5,
args.OVC, args.TSxOF, and the exception class when the run raises.  No tolerant fields: all inputs are on the
exact grid (freq a power of two, host times multiples of 1/16 us, counters < 2^36).

Oracle (from the statement, never from the model): for every rank whose device slices satisfy the hypothesis
(host ts = T0 + C_start/f for the true counter of the phase start, true counters non-decreasing, span < 2^32,
raw = true mod 2^32): the run does not raise, every slice is exported, TS1..TS5 are non-decreasing, congruent to the
input modulo 2^32, and (exported - true) is one and the same multiple of 2^32 for all counters of all slices of
the rank; hence sorting by corrected TS1 equals sorting by true TS1.  Ground truth (`true`) is carried by the case.

A pinned corpus case (`SENTINEL`) is the Lean witness `C05.old_formula_wrong`: the formula before repair d452497
gives inconsistent offsets on it; it runs first in every run.
"""
from __future__ import annotations

import contextlib
import copy
import io
import itertools
from fractions import Fraction

from lib.core import Ctx, enc, rat
from lib import stage

ID = "C05"
NEEDS_GEN = True
LEAN_TARGETS = ["AiuVerif.Props.C05", "AiuVerif.Props.Order"]
THEOREMS = [
    "AiuVerif.C05.localFix_true",
    "AiuVerif.C05.epoch_final",
    "AiuVerif.C05.wrap_consistent",
    "AiuVerif.C05.wrap_consistent_props",
    "AiuVerif.C05.order_by_corrected_eq_order_by_true",
    "AiuVerif.C05.zerodiv_branch",
    "AiuVerif.C05.old_formula_wrong",
    "AiuVerif.C05.new_formula_right_on_witness",
    "AiuVerif.Order.normalize_order",   # registration order / guards / shared context, re-decided on the generated sites
]
RULE = ("streams of X slices for 1-3 ranks: (i) exhaustive grid = wrap position (exactly at TSk, strictly inside each "
        "gap TSk..TSk+1, before TS1, after TS5, absent) x phase type of the middle slice (DmaI/Prep/Exec/DmaO/other) x "
        "counter-gap pattern x start epoch x input order; (ii) random structured multi-rank/multi-job streams with "
        "0-3 wraps, random host epochs, freq in {256,512,1024,2048}, optional shuffling, hex counters, attr/args form; "
        "(iv) end-to-end: exported JSON of the real Acelyzer API on 1-3 rank chain-allreduce scenarios with a wrap inside, "
        "oracle only; (iii) malformed/non-hypothesis streams (decreasing counters, >= 1 period slices, host jitter, zero-length "
        "Exec, equal-ts Exec (no longer a crash since /repo 9ff54c0), negative ts, non-X events, --ignore_crit). A case is non-trivial when a 2^32 boundary "
        "lies inside the counter span of at least one rank (some slice needs a non-zero correction relative to "
        "another) or an error/drop branch fires; distinct = distinct canonical case")
TRUSTED = ["IEEE doubles of the real code are exact on the generated grid; off-grid rounding at an exact epoch boundary "
           "is outside the theorems (DESIGN.md section 3)",
           "hash(pid) injective on the generated pids (non-negative ints)",
           "barrier semantics (phase 1 completes on the whole stream before phase 2 starts) is taken from C03 "
           "(barrier_separates / shared_barrier_batch) and re-validated here by running the real barrier stage"]
ASSUMPTIONS = ["hypothesis of the statement: per rank one host/device offset T0, slices shorter than one counter period",
               "events carry either all of TS1..TS5 or none; default EventLimiter and empty --event_filter"]
NOT_YET_PROVED = []
LEVEL_TEXT = ("Lean theorems over an executable model of normalize_phase1/barrier/normalize_phase2/event_sanity_checks, for "
              "all streams, all ranks, all positive frequencies (Rat) and all true counter values: the local fix removes "
              "exactly floor(C1/2^32) periods (localFix_true), the reference epoch after phase 1 is T0 + Kmin*2^32/f "
              "(epoch_final), and the pipeline output equals true counters minus Kmin(pid)*2^32 for every slice "
              "(wrap_consistent) with the stated consequences (monotone, congruent, order preserving); the pre-repair "
              "formula is refuted on a concrete witness (old_formula_wrong). Tied to the code by running the real "
              "callbacks/context from the CLI registration and the compiled model on the same streams.")
LEVEL_NOTE = ("Trusted: Lean kernel; axioms propext, Classical.choice, Quot.sound; the hand-written model is validated against "
              "the real code by differential runs (exhaustive wrap-position grid + random streams + malformed streams); "
              "double rounding off the exact grid is not covered by the theorems.")
TECHNIQUE = "Lean 4 proof (induction over the stream, omega/field arithmetic over Int/Rat) + model/implementation correspondence run"

M32 = 1 << 32
PHASES = [("DmaI", " DmaI", 0), ("Prep", " Cmpt Prep", 1), ("Exec", " Cmpt Exec", 2), ("DmaO", " DmaO", 3), ("other", "", 0)]
PHASE_END = {"DmaI": 1, "Prep": 2, "Exec": 3, "DmaO": 4, "other": 4}
ERRMAP = {"AssertionError": "assert", "ZeroDivisionError": "zerodiv", "KeyError": "keyerror"}

# the Lean witness C05.witnessIn / C05.witnessTrue (Prep + Exec slice of one kernel, wrap between TS2 and TS3)
SENTINEL = {
    "freq": 512, "ic": 0, "tag": "sentinel-old-formula",
    "events": [
        {"uid": 1, "ph": "X", "pid": 0, "job": 0, "name": "mm Cmpt Prep", "ts": 1000.0, "dur": 40.0,
         "tsx": [M32 - 5120, M32 - 5120, 15360, 46080, 47104],
         "true": [M32 - 5120, M32 - 5120, M32 + 15360, M32 + 46080, M32 + 47104]},
        {"uid": 2, "ph": "X", "pid": 0, "job": 0, "name": "mm Cmpt Exec", "ts": 1040.0, "dur": 60.0,
         "tsx": [M32 - 5120, M32 - 5120, 15360, 46080, 47104],
         "true": [M32 - 5120, M32 - 5120, M32 + 15360, M32 + 46080, M32 + 47104]},
    ],
}


# ---------------------------------------------------------------------------------------------
# real code
# ---------------------------------------------------------------------------------------------

_STAGE_CACHE: dict = {}
_JOBS: list[int] = []


def _jobs():
    if not _JOBS:
        from aiu_trace_analyzer.types import GlobalIngestData, InputDialectFLEX
        for j in range(3):
            _JOBS.append(GlobalIngestData().add_job_info(f"/nonexistent/c05_job_{j}.json", InputDialectFLEX()))
    return _JOBS


WANT = ["normalize_phase1", "pipeline_barrier", "normalize_phase2", "event_sanity_checks"]
_SHAPE_PROBLEMS: list[str] = []


def _stages(freq: int, ic: int):
    """the registered sub-pipeline normalize_phase1 .. event_sanity_checks of this command line, in registration
    order, with fresh copies of its contexts (sharing preserved; the barrier context is the module singleton)"""
    import aiu_trace_analyzer.pipeline.barrier as barrier_mod
    key = (freq, ic)
    if key not in _STAGE_CACHE:
        argv = [f"--freq={freq}:1100"] + (["--ignore_crit"] if ic else [])
        with contextlib.redirect_stdout(io.StringIO()):
            rec = stage.cli_stages(argv)
        reg = [r for r in rec if r["registered"]]
        names = [r["name"] for r in reg]
        idx = [names.index(n) for n in ("normalize_phase1", "normalize_phase2", "event_sanity_checks") if n in names]
        sub = reg[min(idx):max(idx) + 1]
        if [r["name"] for r in sub] != WANT:
            _SHAPE_PROBLEMS.append(f"registered sub-pipeline is {[r['name'] for r in sub]}, the model assumes {WANT}")
        elif sub[0]["context"] is not sub[2]["context"]:
            _SHAPE_PROBLEMS.append("normalize_phase1 and normalize_phase2 no longer share one NormalizationContext")
        _STAGE_CACHE[key] = sub
    sub = _STAGE_CACHE[key]
    copies = {}
    out = []
    for r in sub:
        c = r["context"]
        if c is not None and c is not barrier_mod._main_barrier_context:
            if id(c) not in copies:
                copies[id(c)] = copy.deepcopy(c)      # fresh state, real constructor arguments
            c = copies[id(c)]
        out.append((r["callback"], c, r["kwargs"]))
    return out


def _real_event(e):
    jobs = _jobs()
    extra = {"jobhash": jobs[e.get("job", 0) % len(jobs)], "uid": e["uid"]}
    d = {"name": e["name"], "ph": e["ph"], "pid": e["pid"], "tid": 7 + e["uid"] % 3, "ts": float(e["ts"])}
    if e["ph"] == "X" or e.get("dur"):
        d["dur"] = float(e.get("dur", 0.0))
    if e["tsx"] is not None:
        for i, v in enumerate(e["tsx"]):
            extra[f"TS{i+1}"] = hex(v) if (e.get("hex") and v >= 0) else str(v)
    d["attr" if e.get("attr") else "args"] = extra
    return d


def run_real(case):
    evs = [_real_event(e) for e in case["events"]]
    out, err = stage.run_stages(_stages(case["freq"], case["ic"]), evs)
    if err is not None:
        return {"err": ERRMAP.get(err, "other:" + err)}
    res = []
    for o in out:
        a = o.get("args", o.get("attr", {}))
        tsx = [int(str(a[f"TS{i}"]), 0) for i in range(1, 6)] if "TS1" in a else None
        of = a.get("TSxOF")
        res.append({"uid": a["uid"], "tsx": tsx, "ovc": a.get("OVC"), "tsxof": int(of[2:]) if of else None})
    return {"ok": res}


# ---------------------------------------------------------------------------------------------
# oracle (from the statement)
# ---------------------------------------------------------------------------------------------

def _phase_start_idx(name):
    """0-based index of the counter taken at the host `ts` (the B event of the slice marks the phase start);
    None when a phase keyword occurs in a non-suffix position (the statement does not define such names)"""
    for _, suffix, idx in PHASES[:4]:
        if name.endswith(suffix):
            return idx
    if any(k in name for k in ("DmaI", "Cmpt Prep", "Cmpt Exec", "DmaO")):
        return None
    return 0


def hypothesis_ranks(case):
    """pids whose device slices all satisfy the hypothesis of the statement (checked on the case's ground truth);
    returns {pid: [events]}"""
    f = Fraction(case["freq"])
    by = {}
    for e in case["events"]:
        if e["ph"] == "X" and e["tsx"] is not None:
            by.setdefault(e["pid"], []).append(e)
    good = {}
    for pid, evs in by.items():
        t0s = set()
        ok = True
        for e in evs:
            tr = e.get("true")
            if tr is None or len(tr) != 5 or len(e["tsx"]) != 5:
                ok = False
                break
            if any(tr[i] > tr[i + 1] for i in range(4)) or tr[4] - tr[0] >= M32:
                ok = False
                break
            if [c % M32 for c in tr] != list(e["tsx"]):
                ok = False
                break
            si = _phase_start_idx(e["name"])
            if si is None:
                ok = False
                break
            t0s.add(Fraction(e["ts"]) - Fraction(tr[si]) / f)
            if Fraction(e["ts"]) + Fraction(e["dur"]) < 0:
                ok = False        # outside the default event window
                break
        if ok and len(t0s) == 1:
            good[pid] = evs
    return good


def _freqstats_would_divide_by_zero(case):
    """documented crash of frequency_stats (float(dur_cycles) / event["dur"]), not a C05 matter: a Cmpt Exec device
    slice of zero host duration inside the event window"""
    for e in case["events"]:
        if e["ph"] == "X" and e["tsx"] is not None and "Cmpt Exec" in e["name"]:
            if Fraction(e["ts"]) + Fraction(e.get("dur", 0)) >= 0 and Fraction(e["dur"]) == 0:
                return True
    return False


def oracle(case, real):
    good = hypothesis_ranks(case)
    if not good:
        return None
    whole = len(good) == len({e["pid"] for e in case["events"] if e["ph"] == "X" and e["tsx"] is not None})
    # counters on a non-slice event (ph != X) are never corrected but still sanity-checked: outside the statement
    whole = whole and not any(e["ph"] != "X" and e["tsx"] is not None for e in case["events"])
    if "err" in real:
        if whole and not _freqstats_would_divide_by_zero(case):
            return ("wrap-crash", f"the run raised {real['err']} on a stream that satisfies the hypothesis")
        return None
    out = {o["uid"]: o for o in real["ok"]}
    for pid, evs in sorted(good.items()):
        ks = set()
        for e in evs:
            o = out.get(e["uid"])
            if o is None or o["tsx"] is None:
                return ("wrap-lost", f"device slice uid={e['uid']} of pid {pid} was not exported with its counters")
            t = o["tsx"]
            if any(t[i] > t[i + 1] for i in range(4)):
                return ("wrap-monotone", f"uid={e['uid']}: exported counters decrease: {t}")
            if any((t[i] - e["tsx"][i]) % M32 for i in range(5)):
                return ("wrap-congruent", f"uid={e['uid']}: exported {t} not congruent to input {e['tsx']} mod 2^32")
            for i in range(5):
                ks.add(Fraction(t[i] - e["true"][i], M32))
        if len(ks) != 1:
            return ("wrap-inconsistent",
                    f"pid {pid}: exported - true counters is not one multiple of 2^32 for the rank: "
                    f"{sorted(str(k) for k in ks)}")
        if next(iter(ks)).denominator != 1:
            return ("wrap-inconsistent", f"pid {pid}: offset {next(iter(ks))} is not a multiple of 2^32")
        a = sorted(evs, key=lambda e: (out[e["uid"]]["tsx"], e["uid"]))
        b = sorted(evs, key=lambda e: (e["true"], e["uid"]))
        if [e["uid"] for e in a] != [e["uid"] for e in b]:
            return ("wrap-order", f"pid {pid}: order by corrected counters differs from order by true counters")
    return None


# ---------------------------------------------------------------------------------------------
# generators
# ---------------------------------------------------------------------------------------------

def dev_slice(uid, pid, ptype, t5, freq, host_epoch, dev_epoch, job=0, name=None, **kw):
    """a device slice observed from ground truth: true counters dev_epoch + t*freq, host ts of the phase start"""
    _, suffix, a = next(p for p in PHASES if p[0] == ptype)
    b = PHASE_END[ptype]
    tr = [int(dev_epoch + Fraction(t) * freq) for t in t5]
    e = {"uid": uid, "ph": "X", "pid": pid, "job": job, "name": name or f"k{uid}{suffix}",
         "ts": float(Fraction(host_epoch) + Fraction(t5[a])), "dur": float(Fraction(t5[b]) - Fraction(t5[a])),
         "tsx": [c % M32 for c in tr], "true": tr}
    e.update(kw)
    return e


PATTERNS = [(0, 10, 20, 30, 40), (0, 0, 40, 100, 102), (0, 7, 7, 7, 19)]


def grid_cases(ctx: Ctx):
    f = 512
    H = 1_000_000.0
    for pat, (pname, _, _), k0, order in itertools.product(PATTERNS, PHASES, (0, 2), (0, 1)):
        tB = [1000 + x for x in pat]
        tA = [100, 110, 120, 130, 140]
        tC = [2000, 2010, 2020, 2030, 2040]
        # wrap positions in device time (us) at which the true counter hits (k0+1)*2^32
        pos = {"none": None, "before": 500, "after": 1500}
        for k in range(5):
            pos[f"at{k+1}"] = tB[k]
            if k < 4 and tB[k] < tB[k + 1]:
                pos[f"in{k+1}{k+2}"] = Fraction(tB[k] + tB[k + 1], 2)
        for wname, w in pos.items():
            D = k0 * M32 + 12345 * f if w is None else (k0 + 1) * M32 - int(Fraction(w) * f)
            evs = [dev_slice(1, 0, PHASES[(k0 + order) % 5][0], tA, f, H, D),
                   dev_slice(2, 0, pname, tB, f, H, D, job=1),
                   dev_slice(3, 0, PHASES[(k0 + 2 * order + 2) % 5][0], tC, f, H, D)]
            if order:
                evs.reverse()
            yield {"freq": f, "ic": 0, "tag": f"grid:{pname}:{wname}:pat{PATTERNS.index(pat)}:k{k0}:o{order}", "events": evs}


def _rand_t5(rng, start, period_us, long_ok):
    gaps = []
    for _ in range(4):
        r = rng.random()
        if r < 0.25:
            gaps.append(0)
        elif r < 0.9 or not long_ok:
            gaps.append(rng.randint(1, 400) / (1 if rng.random() < 0.7 else 16))
        else:
            gaps.append(rng.randint(1, int(period_us // 5)))
    t5 = [Fraction(start)]
    for g in gaps:
        t5.append(t5[-1] + Fraction(g))
    return t5


def random_case(ctx: Ctx):
    rng = ctx.rng
    f = rng.choice([256, 512, 512, 1024, 2048])
    period = M32 / f
    R = rng.choice([1, 1, 2, 3])
    njobs = rng.choice([1, 2, 3])
    uid = 0
    streams = []
    for pid in range(R):
        H = float(rng.randint(0, 1 << 34)) + rng.choice([0, 0, 0.5, 0.0625])
        n = rng.randint(1, 10)
        t = Fraction(rng.randint(0, 5000))
        slices = []
        for _ in range(n):
            ptype = rng.choice(PHASES)[0]
            t5 = _rand_t5(rng, t, period, long_ok=True)
            while (t5[4] - t5[0]) * f >= M32:
                t5 = _rand_t5(rng, t, period, long_ok=False)
            if ptype == "Exec" and t5[3] == t5[2]:
                t5[3] = t5[3] + 1
                t5[4] = max(t5[4], t5[3])
            slices.append((ptype, t5))
            r = rng.random()
            t = t5[0] + (rng.randint(1, 3000) if r < 0.75 else rng.randint(1, int(2.5 * period)) if r < 0.9 else
                         rng.randint(0, 3))
        # place the device epoch so that a 2^32 boundary falls on / near a counter of a random slice
        r = rng.random()
        if r < 0.75:
            ptype, t5 = rng.choice(slices)
            k = rng.randrange(5)
            delta = rng.choice([0, 0, 1, -1, rng.randint(-30000, 30000)])
            D = (rng.randint(1, 3)) * M32 - int(t5[k] * f) + delta
            if D < 0:
                D += M32
        else:
            D = rng.randrange(0, 4 * M32)
        evs = []
        for ptype, t5 in slices:
            uid += 1
            e = dev_slice(uid, pid, ptype, t5, f, H, D, job=rng.randrange(njobs),
                          attr=rng.random() < 0.5, hex=rng.random() < 0.2)
            if rng.random() < 0.08:
                e["name"] = e["name"].replace("k", "SenRdmaReceive_", 1)
            evs.append(e)
            if rng.random() < 0.15:
                uid += 1
                evs.append({"uid": uid, "ph": rng.choice(["X", "X", "C", "i", "M"]), "pid": pid, "job": 0,
                            "name": "host fn", "ts": e["ts"] - 1.0, "dur": 2.0, "tsx": None})
        if rng.random() < 0.2:
            rng.shuffle(evs)
        streams.append(evs)
    # interleave the ranks
    merged = []
    idx = [0] * R
    while any(idx[r] < len(streams[r]) for r in range(R)):
        r = rng.choice([r for r in range(R) if idx[r] < len(streams[r])])
        merged.append(streams[r][idx[r]])
        idx[r] += 1
    return {"freq": f, "ic": rng.choice([0, 0, 0, 1]), "tag": "random", "events": merged}


def big_case(ctx: Ctx):
    """one rank, several thousand device slices (beyond any plausible buffer size of a holding stage), a 2^32 wrap after
    the first few hundred of them in time - and the file lists the part BEHIND the wrap first: the reference epoch of the
    rank is only known once the last listed event has been seen"""
    rng = ctx.rng
    f = rng.choice([512, 1024])
    n = rng.randint(4200, 4600)
    cut = rng.randint(20, 400)
    H = float(rng.randint(0, 1 << 30))
    ts = [Fraction(20 * i) for i in range(n)]
    D = M32 - int(ts[cut] * f) + rng.choice([0, 3, -3])
    evs = []
    for i, t in enumerate(ts):
        ptype = PHASES[i % len(PHASES)][0]
        evs.append(dev_slice(i + 1, 0, ptype, [t, t + 2, t + 5, t + 9, t + 12], f, H, D, job=0, attr=(i % 2 == 0), hex=False))
    return {"freq": f, "ic": 0, "tag": "big-out-of-order", "events": evs[cut:] + evs[:cut]}


def malformed_case(ctx: Ctx):
    """streams outside the hypothesis: model comparison only (the oracle skips ranks that violate it)"""
    rng = ctx.rng
    f = rng.choice([256, 512, 1024])
    base = random_case(ctx)
    base["freq"] = f
    base["tag"] = "malformed"
    base["ic"] = rng.choice([0, 1])
    evs = base["events"]
    kind = rng.choice(["decreasing", "long", "jitter", "zerodur", "samets", "negts", "rawrand", "misplaced-keyword"])
    base["tag"] += ":" + kind
    devs = [e for e in evs if e["tsx"] is not None]
    if not devs:
        return base
    e = rng.choice(devs)
    if kind == "decreasing":
        i = rng.randrange(1, 5)
        e["tsx"] = list(e["tsx"])
        e["tsx"][i] = max(0, e["tsx"][i - 1] - rng.randint(1, 1000))
        if rng.random() < 0.5 and i < 4:
            e["tsx"][i + 1] = max(0, e["tsx"][i] - rng.randint(1, 1000))
        e["true"] = None
    elif kind == "long":
        k = rng.randrange(1, 5)
        add = rng.choice([M32, M32 + 12345, 2 * M32, M32 - 1])
        tr = list(e["true"])
        for i in range(k, 5):
            tr[i] += add
        e["true"] = tr
        e["tsx"] = [c % M32 for c in tr]
        e["dur"] = float(Fraction(e["dur"]) + Fraction(add, f))
    elif kind == "jitter":
        e["ts"] = float(Fraction(e["ts"]) + rng.choice([1, -1]) * Fraction(rng.randint(1, 3 * M32 // f)))
    elif kind == "zerodur":
        e["name"] = "z Cmpt Exec"
        e["dur"] = 0.0
        e["true"] = None
    elif kind == "samets":
        e2 = copy.deepcopy(e)
        e["name"] = "s1 Cmpt Exec"
        e2["name"] = "s2 Cmpt Exec tail" if rng.random() < 0.3 else "s2 Cmpt Exec"
        e2["uid"] = 9000 + e["uid"]
        e["dur"] = e2["dur"] = 3.0
        e["true"] = e2["true"] = None
        evs.insert(evs.index(e) + 1 + rng.randrange(0, 2), e2)
    elif kind == "negts":
        e["ts"] = -float(rng.randint(5, 50))
        e["dur"] = float(rng.choice([1, 2, 5, 60]))
        if rng.random() < 0.3:
            # a non-X event keeps its dict untouched (no attr->args, no hex->int): give it plain decimal args
            e["ph"], e["attr"], e["hex"] = rng.choice(["M", "i"]), False, False
    elif kind == "rawrand":
        e["tsx"] = [rng.choice([rng.randrange(0, M32), rng.randrange(0, 100), M32 - 1, 0]) for _ in range(5)]
        if rng.random() < 0.2:
            e["tsx"][0] = -rng.randrange(1, 1 << 50)
        e["true"] = None
    else:
        e["name"] = rng.choice(["a DmaO b", "Cmpt Exec", "xCmpt Prep", "a DmaI b Cmpt Exec", "DmaI", " DmaI", "a  DmaO"])
    return base


def gen_cases(ctx: Ctx):
    yield SENTINEL
    yield from grid_cases(ctx)
    ctx.extra["exhaustive_grid"] = "wrap position x middle phase type x gap pattern x start epoch x order"
    for _ in range(ctx.n(3000, 40000)):
        yield random_case(ctx)
    for _ in range(ctx.n(1200, 12000)):
        yield malformed_case(ctx)
    for _ in range(ctx.n(1, 4)):
        yield big_case(ctx)


# ---------------------------------------------------------------------------------------------
# end-to-end stream (oracle only): the exported JSON of the real Acelyzer API on multi-rank scenarios
# ---------------------------------------------------------------------------------------------

def e2e_case(ctx: Ctx):
    rng = ctx.rng
    R = rng.choice([1, 2, 3])
    f = 512
    # a 2^32 boundary at a random device time inside the scenario (it spans roughly 100..1500 us)
    epochs = [rng.randint(1, 3) * M32 - int(rng.randint(90, 1200) * f) + rng.choice([0, 0, 1, -1, 256]) for _ in range(R)]
    return {"tag": "e2e", "R": R, "groups": rng.choice([1, 2, 2]), "freq": f, "gen_seed": rng.randrange(1000),
            "dev_epochs": epochs, "host_epochs": [float(rng.randrange(1 << 28, 1 << 31)) for _ in range(R)],
            "torch_doc": rng.random() < 0.25}


def run_e2e(case):
    from gen import scenario
    files = scenario.scenario_events(R=case["R"], groups=case["groups"], freq=float(case["freq"]), seed=case["gen_seed"],
                                     dev_epochs=case["dev_epochs"], host_epochs=case["host_epochs"])
    # switches the wrap correction does not depend on (they register or leave out LATER stages); chosen from the case
    extra = [[], ["--drop_globals"], ["-t"], ["--flow"], ["--disable_tb"], ["-k"], ["-M"], ["-C", "power_ts4"],
             ["--drop_globals", "--flow", "-t"]][case["gen_seed"] % 9]
    if case["R"] == 1:
        # a one-rank "collective" of the scenario builder has an empty peer list: not a well-formed flow input
        extra = [x for x in extra if x != "--flow"]
    if case.get("torch_doc"):
        # the same events inside a torch-profiler style document (TORCH dialect: deviceProperties): device slices with
        # TS1..TS5 are device slices whatever the dialect calls their category
        files = {fn: {"schemaVersion": 1, "deviceProperties": [{"id": 0, "name": "AIU"}], "traceEvents": evs}
                 for fn, evs in files.items()}
        extra = [x for x in extra if x != "--flow"]
    with contextlib.redirect_stdout(io.StringIO()):
        return stage.e2e([f"--freq={case['freq']}:1100", "--keep_prep"] + extra, files)


def oracle_e2e(case, r):
    if r["error"] or r["rc"] != 0 or r["events"] is None:
        return ("wrap-crash", f"acelyzer failed on a generated scenario: rc={r['rc']} {r['error']}")
    by = {}
    for e in r["events"]:
        a = e.get("args", {})
        if e.get("ph") == "X" and "TS1" in a and "true_TS" in a:
            by.setdefault(e["pid"], []).append((a["uid"], [int(a[f"TS{i}"]) for i in range(1, 6)], a["true_TS"]))
    if len(by) != case["R"]:
        return ("wrap-lost", f"device slices of {case['R'] - len(by)} rank(s) missing in the exported trace")
    for pid, evs in sorted(by.items()):
        ks = set()
        for uid, t, tr in evs:
            if any(t[i] > t[i + 1] for i in range(4)):
                return ("wrap-monotone", f"exported slice {uid}: counters decrease: {t}")
            ks |= {Fraction(t[i] - tr[i], M32) for i in range(5)}
        if len(ks) != 1 or next(iter(ks)).denominator != 1:
            return ("wrap-inconsistent", f"exported trace, pid {pid}: exported - true counters is not one multiple of 2^32: "
                                         f"{sorted(str(k) for k in ks)}")
    return None


# ---------------------------------------------------------------------------------------------
# model side
# ---------------------------------------------------------------------------------------------

def line(case, op="new"):
    items = []
    for e in case["events"]:
        tsx = "-" if e["tsx"] is None else ":".join(str(int(c)) for c in e["tsx"])
        dur = e.get("dur", 0.0) if (e["ph"] == "X" or e.get("dur")) else 0.0
        items.append(",".join([str(e["uid"]), enc(e["ph"]), str(e["pid"]), enc(e["name"]), rat(e["ts"]), rat(dur), tsx]))
    return f"c05 {op} {rat(case['freq'])} {case['ic']} " + ";".join(items)


def parse_model(s):
    if s.startswith("err:"):
        return {"err": s[4:]}
    assert s.startswith("ok"), s
    res = []
    for item in s[2:].strip().split(";"):
        if not item:
            continue
        uid, ovc, of, tsx = item.split(",")
        res.append({"uid": int(uid), "tsx": None if tsx == "-" else [int(x) for x in tsx.split(":")],
                    "ovc": None if ovc == "-" else int(ovc), "tsxof": None if of == "-" else int(of)})
    return {"ok": res}


def classify(case, real):
    """(nontrivial, branch labels) from the case and the real result only"""
    labels = []
    spans = {}
    for e in case["events"]:
        if e["ph"] == "X" and e["tsx"] is not None and e.get("true"):
            lo, hi = spans.get(e["pid"], (None, None))
            a, b = e["true"][0] // M32, e["true"][4] // M32
            spans[e["pid"]] = (a if lo is None else min(lo, a), b if hi is None else max(hi, b))
    wraps = max([hi - lo for lo, hi in spans.values()], default=0)
    labels.append(f"wraps_in_rank_span={min(wraps, 4)}")
    if "err" in real:
        labels.append("err:" + real["err"])
    else:
        if any(o["tsxof"] for o in real["ok"]):
            labels.append("intra_event_wrap")
        if any((o["ovc"] or 0) != 0 for o in real["ok"]):
            labels.append("nonzero_ovc")
        if len(real["ok"]) < len(case["events"]):
            labels.append("dropped_by_window")
    nontrivial = wraps > 0 or "err" in real or "dropped_by_window" in labels
    return nontrivial, labels


def oracle_on_case(ctx: Ctx, case, verbose=False):
    if case.get("tag") == "e2e":
        r = run_e2e(case)
        v = oracle_e2e(case, r)
        if verbose:
            print("rc:", r["rc"], r["error"], "exported events:", len(r["events"] or []))
        if v:
            ctx.violation(v[0], v[1], case)
        return None
    real = run_real(case)
    v = oracle(case, real)
    if verbose:
        print("hypothesis holds for pids:", sorted(hypothesis_ranks(case)))
        print("real:", real)
    if v:
        ctx.violation(v[0], v[1], case)
    return real


def run(ctx: Ctx):
    cases, reals = [], []
    for case in gen_cases(ctx):
        real = oracle_on_case(ctx, case)
        nt, labels = classify(case, real)
        for l in labels:
            ctx.count(l)
        ctx.count("oracle_applied", int(bool(hypothesis_ranks(case))))
        ctx.count("stream:" + case["tag"].split(":")[0])
        ctx.case_done(case, nontrivial=nt)
        cases.append(case)
        reals.append(real)
    for _ in range(ctx.n(40, 400)):
        case = e2e_case(ctx)
        oracle_on_case(ctx, case)
        ctx.count("stream:e2e")
        ctx.case_done(case, nontrivial=True)
    ctx.extra["exhaustive"] = False
    for pb in sorted(set(_SHAPE_PROBLEMS)):
        if not any(b["what"].endswith(pb) for b in ctx.broken):
            ctx.obligation_broken("pipeline shape (normalize_phase1 < pipeline_barrier < normalize_phase2 < "
                                  "event_sanity_checks, shared context): " + pb, pb)
    if ctx.search_mode or not ctx.driver or not ctx.driver.ok:
        return
    outs = ctx.driver.ask([line(c) for c in cases] + [line(SENTINEL, "old")])
    for case, real, o in zip(cases, reals, outs):
        ctx.compare("normalize model vs normalize_phase1/barrier/normalize_phase2/event_sanity_checks "
                    "(TS1..TS5, OVC, TSxOF, error class)", case, parse_model(o), real)
    # regression sentinel: the pre-repair formula (model `pipelineOld`) must be rejected by the oracle, the real code not
    old = parse_model(outs[-1])
    ctx.extra["sentinel_old_formula_rejected_by_oracle"] = oracle(SENTINEL, old) is not None
    if oracle(SENTINEL, old) is None:
        ctx.obligation_broken("oracle sensitivity: the pre-repair formula passes the oracle on the sentinel", str(old))


def shrink(ctx: Ctx, case, classifier):
    if case.get("tag") == "e2e":
        return case
    case = copy.deepcopy(case)

    budget = [400]

    def bad(c):
        if budget[0] <= 0:
            return False
        budget[0] -= max(1, len(c["events"]) // 50)      # long streams cost more per evaluation
        try:
            v = oracle(c, run_real(c))
        except Exception:
            return False
        return v is not None and v[0] == classifier
    changed = True
    while changed and budget[0] > 0:
        changed = False
        for j in range(len(case["events"])):
            c2 = dict(case, events=case["events"][:j] + case["events"][j + 1:])
            if bad(c2):
                case, changed = c2, True
                break
    for e in case["events"]:
        for k in ("attr", "hex"):
            if e.get(k):
                c2 = copy.deepcopy(case)
                for e2 in c2["events"]:
                    if e2["uid"] == e["uid"]:
                        e2[k] = False
                if bad(c2):
                    case = c2
    return case
