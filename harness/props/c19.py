"""C19 — time-weighted power statistics partition time correctly and respect bounds.

Real code driven: the callback `analyze_power_statistics` with the `PowerStatisticsContext` the CLI
registers for `--power-stats` (taken from the real registration, deep-copied fresh per case), inside
a real EventProcessor/Engine.run; the statistics are read off the INFO log lines the context prints
at drain (stdout captured).  In addition the three context methods named by the property
(`_merge_periods`, `_split_power_period`, `_compute_weighted_stats`) are called on the same object.

Correspondence (model = lean/AiuVerif/Model/PowerStats.lean, ops merge / split / msplit / stats /
pipe): every value is compared exactly as a rational on the dyadic grid (times multiples of 1/4,
powers multiples of 1/4).  The only values that are not exactly representable are the three
quotients `avg_total`, `mean_non_zero` (one IEEE division of two exactly represented sums) — they
are compared *exactly* against the correctly rounded double of the model's rational
(`float(Fraction)`), not with a tolerance.  The log line is compared as text against the model's
numbers formatted with the same `%.2f`.

Oracle (from the statement, never calls the model): brute-force grid integration.  The sampled time
is cut into cells of the common denominator of all time stamps; a cell of a power period belongs to
"with kernels" iff some kernel slice covers it.  Checked on the log lines (to the printed 2
decimals): dur_total(with) = kernel-covered sampled time, dur_total(without) = the rest, their sum =
total sampled time; avg_total / mean_non_zero = sum(P*dt)/sum(dt) over the cells; dur_non_zero, max,
min_non_zero from the cells; median_non_zero is *a* weighted median of the non-zero cells
(W(<m) <= half <= W(<=m)); min<=median<=max, min<=mean<=max, dur_nz<=dur_total; "No data" exactly
when the scenario has no cell.  On the method level the same is checked exactly (Fractions).
Domain of the oracle: events with ts != 0 (the callback ignores `ts == 0` like a missing ts — see
the report; such cases are correspondence-only) and powers >= 0 (C10).
Tolerant fields: none in the correspondence; the log-line oracle works to the 2 printed decimals.

End to end (oracle only, `e2e_eval`): `acelyzer --power-stats` on generated single-rank traces with explicit,
wrapping charge readings; the two logged lines are compared with the grid integration of the timeline the INPUT
describes (power series 12 V * dQ / 512 / dt from the input counters, 0 above 100 W; kernel intervals = the Exec
phases [TS3, TS4) of the input).  A defect upstream of the stage (a lost sample, a kernel interval converted
with the wrong clock) leaves the stage-level statements true of what the stage receives; this layer shows it.
"""
from __future__ import annotations

import contextlib
import copy
import io
import itertools
import math
import os
import re
from fractions import Fraction

from lib.core import Ctx, rat
from lib import stage

ID = "C19"
LEAN_TARGETS = ["AiuVerif.Props.C19", "AiuVerif.Props.C19Link", "AiuVerif.Props.C19Ranks"]
THEOREMS = [
    "AiuVerif.C19.merge_sorted_disjoint",
    "AiuVerif.C19.merge_covers",
    "AiuVerif.C19.split_partitions",
    "AiuVerif.C19.split_kernel_measure",
    "AiuVerif.C19.split_power_tag",
    "AiuVerif.C19.with_plus_without_eq_total",
    "AiuVerif.C19.with_dur_eq_kernel_measure",
    "AiuVerif.C19.weighted_mean_def",
    "AiuVerif.C19.scenario_energy",
    "AiuVerif.C19.bounds",
    "AiuVerif.C19.drain_bounds",
    "AiuVerif.C19.collect_guards",
    "AiuVerif.C19.analyze_partitions_time",
    "AiuVerif.C19.analyze_bounds",
    "AiuVerif.C19.drain_reports",
    # the excluded branches, proved on concrete witnesses
    "AiuVerif.C19.split_zero_length_period",
    "AiuVerif.C19.bounds_fail_negative_power",
    "AiuVerif.C19.ts_zero_is_ignored",
    "AiuVerif.C19.bounds_behind_compute_power",   # Watts >= 0 discharged by C10.nonneg
    # several ranks, rank after rank: no period across ranks whose sampled ranges overlap (and the converse witness)
    "AiuVerif.C19.foldl_frame",
    "AiuVerif.C19.collect_append_overlapping",
    "AiuVerif.C19.cross_rank_period_when_disjoint",
]
RULE = ("ops merge/msplit/split/stats/pipe. Exhaustive: all kernel families of <=3 intervals with endpoints 0..4 "
        "(merge), all power periods in 0..4 x kernel families of <=2 (quick) / <=3 (thorough) intervals over 0..5 "
        "(msplit), all segment lists of <=3 (quick) / <=4 over dur {1,2} x power {0,1,2} (stats), all sample "
        "sequences of <=3 over times {1,2,3} x watts {0,2} x <=2 (quick) / <=3 kernels over 1..4 (pipe); random: "
        "longer streams on the 1/4 grid with ties, unsorted samples, nested/touching/outside kernels, name/ph "
        "variants, missing keys, ts == 0. Non-trivial: merge with >=2 input intervals; split with >=2 segments; "
        "stats with >=2 non-zero segments; pipe where both scenarios have data. distinct = distinct canonical case")
TRUSTED = ["IEEE doubles: on the dyadic grid every sum/product of the real code is exact; the two quotients are "
           "compared against the correctly rounded model value",
           "Python `sorted` is a stable sort (modelled by List.mergeSort, also stable)"]
ASSUMPTIONS = ["time stamps are non-zero (`if not ts` drops ts == 0 like a missing ts; modelled, excluded from the oracle)",
               "power samples are >= 0 (guaranteed by compute_power, C10); the bounds clause is false for negative powers",
               "one power-sample stream: the context keeps a single `last_power_sample` for all pids. Several ranks reach the "
               "stage rank after rank; as long as their sampled ranges overlap in time (ranks of one aligned job) every period "
               "lies between two samples of one rank and the end-to-end layer decides the partition clause on the pooled "
               "timeline. For ranks sampled over DISJOINT time ranges the stage also forms a period across the gap (last sample "
               "of one rank to first sample of the next; observed, design_probes/e11.py) - outside the property's quantifier "
               "(one sample sequence) and not generated"]
NOT_YET_PROVED = []

Q = Fraction
INFO_RE = re.compile(r"(Power with kernels|Power without kernels): (No data|min_non_zero=(\S+)W, max=(\S+)W, "
                     r"mean_non_zero=(\S+)W, median_non_zero=(\S+)W, avg_total=(\S+)W \(time-weighted, "
                     r"dur_total=(\S+)ms, dur_non_zero=(\S+)ms\))")
KEYS = ["min_non_zero", "max", "mean_non_zero", "median_non_zero", "avg_total", "dur_total", "dur_non_zero"]

_cache = {}


def fresh_context():
    """a fresh copy of the PowerStatisticsContext the CLI registers for --power-stats, and its callback"""
    if "stage" not in _cache:
        with contextlib.redirect_stdout(io.StringIO()):
            rec = stage.cli_stages(["--power-stats"])
        st = [s for s in rec if s["name"] == "analyze_power_statistics" and s["registered"]]
        if len(st) != 1:
            raise RuntimeError("analyze_power_statistics is not registered exactly once for --power-stats")
        _cache["stage"] = st[0]
        import aiu_trace_analyzer.logger as aiulog
        aiulog.loglevel = -1
    s = _cache["stage"]
    return s["callback"], copy.deepcopy(s["context"]), s["kwargs"]


@contextlib.contextmanager
def capture_info():
    import aiu_trace_analyzer.logger as aiulog
    buf = io.StringIO()
    saved = aiulog.loglevel
    aiulog.loglevel = aiulog.INFO
    try:
        with contextlib.redirect_stdout(buf):
            yield buf
    finally:
        aiulog.loglevel = saved


def fl(x) -> float:
    q = Q(x)
    f = float(q)
    assert Q(f) == q, "generator left the exact grid"
    return f


# ---------------------------------------------------------------------------------------------
# real code
# ---------------------------------------------------------------------------------------------

def ev_to_dict(e):
    d = {"ph": e["ph"], "pid": 0, "tid": 0}
    if e["name"] is not None:
        d["name"] = e["name"]
    if e["ts"] is not None:
        d["ts"] = fl(e["ts"])
    if e["dur"] is not None:
        d["dur"] = fl(e["dur"])
    if e.get("args", True):
        d["args"] = {}
        if e["watts"] is not None:
            d["args"]["Watts"] = fl(e["watts"])
    return d


def parse_lines(text):
    res = {}
    warn = "Insufficient power data" in text
    for m in INFO_RE.finditer(text):
        label = "W" if m.group(1) == "Power with kernels" else "WO"
        res[label] = None if m.group(2) == "No data" else dict(zip(KEYS, m.groups()[2:]))
    return res, warn


def real_pipe(events):
    """run the stage on the events; returns dict(lines, periods, kernels, passed, err)"""
    cb, cx, kw = fresh_context()
    dicts = [ev_to_dict(e) for e in events]
    direct = any(e["name"] is None or e["ts"] is None for e in events)
    with capture_info() as buf:
        if direct:
            # events without `ts`/`name` never pass EventProcessor.sanity_check: call the callback itself
            err, out = None, []
            try:
                for d in copy.deepcopy(dicts):
                    out += cb(d, cx)
                cx.drain()
            except Exception as e:  # noqa: BLE001
                err = type(e).__name__
        else:
            out, err = stage.run_stages([(cb, cx, kw)], dicts)
    lines, _warn = parse_lines(buf.getvalue())
    return {"lines": lines, "err": err, "passed": len(out),
            "periods": [[rat(x) for x in p] for p in getattr(cx, "power_periods", [])],
            "kernels": [[rat(x) for x in p] for p in getattr(cx, "kernel_periods", [])]}


def real_merge(periods):
    _, cx, _ = fresh_context()
    return [[rat(a), rat(b)] for a, b in cx._merge_periods([(fl(a), fl(b)) for a, b in periods])]


def real_split(ps, pe, v, timeline):
    _, cx, _ = fresh_context()
    segs = cx._split_power_period(fl(ps), fl(pe), fl(v), [(fl(a), fl(b)) for a, b in timeline])
    return [[rat(d), rat(p), int(bool(k))] for d, p, k in segs]


def real_msplit(ps, pe, v, kernels):
    _, cx, _ = fresh_context()
    tl = cx._merge_periods([(fl(a), fl(b)) for a, b in kernels])
    segs = cx._split_power_period(fl(ps), fl(pe), fl(v), tl)
    return [[rat(d), rat(p), int(bool(k))] for d, p, k in segs]


def real_stats(segs):
    _, cx, _ = fresh_context()
    r = cx._compute_weighted_stats([(fl(d), fl(p)) for d, p in segs])
    if r is None:
        return None
    return {k: r[k] for k in KEYS}


# ---------------------------------------------------------------------------------------------
# oracle: brute-force grid integration (from the statement)
# ---------------------------------------------------------------------------------------------

def lcm_den(xs):
    g = 1
    for x in xs:
        g = g * x.denominator // math.gcd(g, x.denominator)
    return g


def covered_cells(lo, hi, g, kernels):
    """cover[i] for the cell [lo + i/g, lo + (i+1)/g)"""
    n = int((hi - lo) * g)
    cover = [False] * n
    for s, e in kernels:
        a, b = max(s, lo), min(e, hi)
        if a < b:
            for i in range(int((a - lo) * g), int((b - lo) * g)):
                cover[i] = True
    return cover


def grid_scenarios(periods, kernels):
    """periods [(ps,pe,w)] ps<pe; kernels [(s,e)] s<e -> ({w: cells} with, {w: cells} without, g)"""
    g = lcm_den([x for p in periods for x in p[:2]] + [x for k in kernels for x in k])
    lo, hi = min(p[0] for p in periods), max(p[1] for p in periods)
    cover = covered_cells(lo, hi, g, kernels)
    w, wo = {}, {}
    for ps, pe, pw in periods:
        for i in range(int((ps - lo) * g), int((pe - lo) * g)):
            d = w if cover[i] else wo
            d[pw] = d.get(pw, 0) + 1
    return w, wo, g


def expected_stats(cells, g):
    """cells {power: number of cells of width 1/g} -> exact expected values, None for no data"""
    if not cells:
        return None
    tot = Q(sum(cells.values()), g)
    nz = {p: n for p, n in cells.items() if p > 0}
    nzd = Q(sum(nz.values()), g)
    return {"dur_total": tot, "dur_non_zero": nzd,
            "avg_total": sum(p * n for p, n in cells.items()) / g / tot,
            "mean_non_zero": (sum(p * n for p, n in nz.items()) / g / nzd) if nz else Q(0),
            "max": max(cells), "min_non_zero": min(nz) if nz else Q(0), "_nz": nz}


def median_ok(m, nz, g):
    if not nz:
        return m == 0
    if m not in nz:
        return False
    half = Q(sum(nz.values()), g) / 2
    below = Q(sum(n for p, n in nz.items() if p < m), g)
    upto = Q(sum(n for p, n in nz.items() if p <= m), g)
    return below <= half <= upto


def check_stats(label, got, exp, g, tol):
    """got: values (Fractions) reported by the real code, exp: expected_stats(...). -> violation text or None"""
    if exp is None:
        return None if got is None else f"{label}: statistics reported for a scenario without any sampled time: {got}"
    if got is None:
        return f"{label}: 'No data' although {rat(exp['dur_total'])} time units of sampled time belong to the scenario"
    for k in ["dur_total", "dur_non_zero", "avg_total", "mean_non_zero", "max", "min_non_zero"]:
        if abs(got[k] - exp[k]) > tol:
            return f"{label}: {k} reported {float(got[k])} but grid integration gives {rat(exp[k])} (= {float(exp[k]):.6g})"
    m = got["median_non_zero"]
    if tol == 0:
        if not median_ok(m, exp["_nz"], g):
            return f"{label}: median_non_zero {rat(m)} is not a weighted median of the non-zero samples {exp['_nz']}"
    else:
        if not any(abs(m - p) <= tol and median_ok(p, exp["_nz"], g) for p in (exp["_nz"] or {Q(0): 0})):
            return f"{label}: median_non_zero {float(m)} is not a weighted median of the non-zero samples"
    if not (got["min_non_zero"] <= got["median_non_zero"] <= got["max"]):
        return f"{label}: min_non_zero <= median_non_zero <= max violated: {got}"
    if not (got["min_non_zero"] <= got["mean_non_zero"] <= got["max"]):
        return f"{label}: min_non_zero <= mean_non_zero <= max violated: {got}"
    if not got["dur_non_zero"] <= got["dur_total"]:
        return f"{label}: dur_non_zero <= dur_total violated: {got}"
    return None


def classify(e):
    """statement-level reading of an input event: ('P', ts, watts) / ('K', s, e) / None"""
    if e["ts"] is None or e["name"] is None:
        return None
    if e["ph"] == "C" and e["name"] == "Power" and e["watts"] is not None:
        return ("P", Q(e["ts"]), Q(e["watts"]))
    if e["ph"] == "X" and "Cmpt Exec" in e["name"] and e["dur"] is not None and Q(e["dur"]) > 0:
        return ("K", Q(e["ts"]), Q(e["ts"]) + Q(e["dur"]))
    return None


def in_oracle_domain(events):
    cl = [classify(e) for e in events]
    return all(c is None or (c[1] != 0 and (c[0] != "P" or c[2] >= 0)) for c in cl)


def oracle_pipe(events, r):
    if r["err"]:
        return ("power-stats-raises", f"the stage raised {r['err']}")
    if r["passed"] != sum(1 for e in events if e["name"] is not None and e["ts"] is not None) and \
            not any(e["name"] is None or e["ts"] is None for e in events):
        return ("power-stats-passthrough", "the stage did not pass every event on unchanged in number")
    if not in_oracle_domain(events):
        return None
    cl = [c for c in map(classify, events) if c]
    samples = [(c[1], c[2]) for c in cl if c[0] == "P"]
    kernels = [(c[1], c[2]) for c in cl if c[0] == "K"]
    periods = [(a[0], b[0], a[1]) for a, b in zip(samples, samples[1:]) if b[0] > a[0]]
    if not periods:
        # nothing was sampled: no line at all (the "Insufficient power data" warning) or "No data" lines
        if any(v is not None for v in r["lines"].values()):
            return ("power-stats-time-partition", f"statistics printed although no power period exists: {r['lines']}")
        return None
    if set(r["lines"]) != {"W", "WO"}:
        return ("power-stats-time-partition", f"expected one line per scenario, got {sorted(r['lines'])}")
    w, wo, g = grid_scenarios(periods, kernels)
    got = {k: (None if v is None else {a: Q(b) for a, b in v.items()}) for k, v in r["lines"].items()}
    tol = Q(1, 200) + Q(1, 10 ** 9)
    total = sum(p[1] - p[0] for p in periods)
    dsum = sum((got[k]["dur_total"] if got[k] else 0) for k in ("W", "WO"))
    if abs(dsum - total) > 2 * tol:
        return ("power-stats-time-partition",
                f"dur_total with ({got['W'] and float(got['W']['dur_total'])}) + without "
                f"({got['WO'] and float(got['WO']['dur_total'])}) != total sampled time {rat(total)}")
    for label, cells in (("W", w), ("WO", wo)):
        v = check_stats("with kernels" if label == "W" else "without kernels", got[label], expected_stats(cells, g), g, tol)
        if v:
            cls = "power-stats-time-partition" if ("dur_total" in v or "No data" in v or "without any" in v) else "power-stats-values"
            return (cls, v)
    return None


def kernel_measure(ps, pe, kernels):
    ks = [(a, b) for a, b in kernels if a < b]
    g = lcm_den([ps, pe] + [x for k in ks for x in k])
    return Q(sum(covered_cells(ps, pe, g, ks)), g)


def oracle_msplit(ps, pe, v, kernels, segs):
    """exact, on the values returned by _split_power_period over the merged kernel timeline"""
    segs = [(Q(d), Q(p), k) for d, p, k in segs]
    if any(d <= 0 for d, _, _ in segs):
        return ("power-stats-time-partition", f"segment with non-positive duration: {segs}")
    if any(p != v for _, p, _ in segs):
        return ("power-stats-values", "a segment does not carry the power of its period")
    if sum(d for d, _, _ in segs) != pe - ps:
        return ("power-stats-time-partition", f"segment durations sum to {rat(sum(d for d, _, _ in segs))}, period is {rat(pe - ps)} long")
    km = kernel_measure(ps, pe, kernels)
    if sum(d for d, _, k in segs if k) != km:
        return ("power-stats-time-partition",
                f"time tagged 'with kernel' is {rat(sum(d for d, _, k in segs if k))}, kernels cover {rat(km)} of the period")
    return None


def oracle_merge(periods, merged):
    merged = [(Q(a), Q(b)) for a, b in merged]
    if any(not a < b for a, b in merged) or any(not x[1] <= y[0] for x, y in zip(merged, merged[1:])):
        return ("power-stats-merge", f"merged timeline not sorted/disjoint: {merged}")
    g = lcm_den([x for p in periods for x in p] + [Q(1)])
    lo, hi = min(p[0] for p in periods), max(p[1] for p in periods)
    if covered_cells(lo, hi, g, periods) != covered_cells(lo, hi, g, merged):
        return ("power-stats-merge", "merged timeline covers a different set of points than the kernel intervals")
    return None


def oracle_stats(segs, r):
    if not segs:
        return None if r is None else ("power-stats-values", "statistics for an empty segment list")
    if r is None:
        return ("power-stats-values", "no statistics for a non-empty segment list")
    cells = {}
    g = lcm_den([d for d, _ in segs])
    for d, p in segs:
        cells[p] = cells.get(p, 0) + int(d * g)
    exp = expected_stats(cells, g)
    got = {k: Q(r[k]) for k in KEYS}
    # quotients are doubles: allow the one rounding of the division
    for k in ("avg_total", "mean_non_zero"):
        if abs(got[k] - exp[k]) > abs(exp[k]) * Q(1, 10 ** 12):
            return ("power-stats-values", f"{k} = {r[k]!r}, sum(P*dt)/sum(dt) = {rat(exp[k])}")
        got[k] = exp[k]
    v = check_stats("segments", got, exp, g, 0)
    return ("power-stats-values", v) if v else None


# ---------------------------------------------------------------------------------------------
# protocol
# ---------------------------------------------------------------------------------------------

def plist(l):
    return ";".join(",".join(rat(x) for x in p) for p in l) or "_"


def enc_name(s):
    if s is None:
        return "~"
    return "=" + "".join(ch if ch.isalnum() else "%%%02X" % ord(ch) for ch in s)


def opt(x):
    return "~" if x is None else rat(x)


def line(case):
    op = case["op"]
    if op == "merge":
        return "c19 merge " + plist(case["periods"])
    if op in ("split", "msplit"):
        return f"c19 {op} {rat(case['ps'])} {rat(case['pe'])} {rat(case['v'])} " + plist(case["kernels"])
    if op == "stats":
        return "c19 stats " + plist(case["segs"])
    if op == "pipe":
        return "c19 pipe " + (";".join(",".join([enc_name(e["ph"])[1:], enc_name(e["name"]), opt(e["ts"]), opt(e["watts"]),
                                                    opt(e["dur"])]) for e in case["events"]) or "_")
    raise ValueError(op)


def model_stats(s):
    if s == "none":
        return None
    return dict(zip(KEYS, (Q(x) for x in s.split(","))))


def fmt_stats(st):
    """the model's numbers as the real code prints them (`%.2f` of the correctly rounded double)"""
    return None if st is None else {k: f"{float(v):.2f}" for k, v in st.items()}


def parse_model(case, s):
    op = case["op"]
    if s == "bad-op":
        return "bad-op"
    if op == "merge":
        return [] if s == "_" else [x.split(",") for x in s.split(";")]
    if op in ("split", "msplit"):
        return [] if s == "_" else [[a, b, int(c)] for a, b, c in (x.split(",") for x in s.split(";"))]
    if op == "stats":
        return model_stats(s)
    if op == "pipe":
        m = re.fullmatch(r"P=(\S+) K=(\S+) (insufficient|W=(\S+) WO=(\S+))", s)
        pp = [] if m.group(1) == "_" else [x.split(",") for x in m.group(1).split(";")]
        kk = [] if m.group(2) == "_" else [x.split(",") for x in m.group(2).split(";")]
        lines = {} if m.group(3) == "insufficient" else {"W": fmt_stats(model_stats(m.group(4))),
                                                         "WO": fmt_stats(model_stats(m.group(5)))}
        return {"periods": pp, "kernels": kk, "lines": lines}
    raise ValueError(op)


def canon_real(case, r):
    op = case["op"]
    if op == "stats":
        if r is None:
            return None
        return {k: rat(r[k]) for k in KEYS}
    if op == "pipe":
        return {"periods": r["periods"], "kernels": r["kernels"], "lines": r["lines"]}
    return r


def canon_model(case, m):
    if case["op"] == "stats" and isinstance(m, dict):
        # the two quotients: the real code performs ONE correctly rounded division of exact operands
        return {k: rat(float(v)) if k in ("avg_total", "mean_non_zero") else rat(v) for k, v in m.items()}
    return m


# ---------------------------------------------------------------------------------------------
# generators
# ---------------------------------------------------------------------------------------------

def S(x):
    return rat(Q(x))


def intervals(lo, hi):
    return [(a, b) for a in range(lo, hi + 1) for b in range(a + 1, hi + 1)]


def gen_grid(ctx: Ctx):
    quick = ctx.quick()
    iv4 = intervals(0, 4)
    for n in range(0, 4):
        for fam in itertools.product(iv4, repeat=n):
            yield {"op": "merge", "periods": [[S(a), S(b)] for a, b in fam]}
    iv5 = intervals(0, 5)
    for ps, pe in iv4:
        for n in range(0, 3 if quick else 4):
            for fam in (itertools.product(iv5, repeat=n) if n < 3 else itertools.combinations(iv5, 3)):
                yield {"op": "msplit", "ps": S(ps), "pe": S(pe), "v": "5/2", "kernels": [[S(a), S(b)] for a, b in fam]}
    segs = [(d, p) for d in (1, 2) for p in (0, 1, 2)]
    for n in range(0, 4 if quick else 5):
        for fam in itertools.product(segs, repeat=n):
            yield {"op": "stats", "segs": [[S(d), S(p)] for d, p in fam]}
    samp = [(t, w) for t in (1, 2, 3) for w in (0, 2)]
    kiv = intervals(1, 4)
    for n in range(0, 4):
        for ss in itertools.product(samp, repeat=n):
            for kn in range(0, 3 if quick else 4):
                for ks in itertools.combinations(kiv, kn):
                    evs = [kev(a, b - a) for a, b in ks] + [pev(t, w) for t, w in ss]
                    yield {"op": "pipe", "events": evs}


def pev(t, w, name="Power", ph="C"):
    return {"ph": ph, "name": name, "ts": S(t), "watts": None if w is None else S(w), "dur": None}


def kev(t, d, name="fn Cmpt Exec", ph="X"):
    return {"ph": ph, "name": name, "ts": S(t), "watts": None, "dur": None if d is None else S(d)}


KNAMES = ["fn Cmpt Exec", "Cmpt Exec", "a_1 Cmpt Exec_2", "xCmpt Execy"]
ODD_KNAMES = ["fn Cmpt Prep", "Cmpt  Exec", "cmpt exec", "Cmpt Exe", "", "Power"]


def rand_time(rng, hi, g):
    return Q(rng.randint(1 * g, hi * g), g)


def gen_random(ctx: Ctx):
    rng = ctx.rng
    for _ in range(ctx.n(4000, 30000)):
        g = rng.choice([1, 1, 2, 4])
        hi = rng.choice([6, 12, 40])
        n = rng.randint(0, 14)
        ts = [rand_time(rng, hi, g) for _ in range(n)]
        mode = rng.random()
        if mode < 0.75:
            ts.sort()
        evs = []
        for t in ts:
            w = Q(rng.choice([0, 0, 1, 2, 3, 5, 10, 41, 99, 200]), rng.choice([1, 1, 2, 4]))
            evs.append(pev(t, w))
        for _k in range(rng.randint(0, 8)):
            s = rand_time(rng, hi, g) - (1 if rng.random() < 0.2 else 0)
            d = Q(rng.randint(1, max(1, hi * g // 2)), g)
            if rng.random() < 0.2:
                d = rng.choice([Q(1, 16), Q(3, 32), Q(1, 8)])      # very short kernels, around 0.1 us
            if s <= 0:
                s = Q(1, g)
            evs.insert(rng.randint(0, len(evs)), kev(s, d, name=rng.choice(KNAMES)))
        # distractors and malformed events
        r = rng.random()
        if r < 0.35:
            for _k in range(rng.randint(1, 4)):
                kind = rng.randint(0, 9)
                t = rand_time(rng, hi, g)
                if kind == 0:
                    e = kev(t, Q(rng.randint(1, 4)), name=rng.choice(ODD_KNAMES))
                elif kind == 1:
                    e = kev(t, rng.choice([None, Q(0), Q(-1)]))
                elif kind == 2:
                    e = pev(t, None)
                elif kind == 3:
                    e = pev(t, Q(3), name=rng.choice(["power", "Power ", "Powers", "Cmpt Exec"]))
                elif kind == 4:
                    e = pev(t, Q(3), ph=rng.choice(["X", "i", "B"]))
                elif kind == 5:
                    e = kev(t, Q(2), ph=rng.choice(["C", "B", "b"]))
                elif kind == 6:
                    e = kev(Q(0), Q(rng.randint(1, 5)))          # ts == 0: ignored by the callback
                elif kind == 7:
                    e = pev(Q(0), Q(4))
                elif kind == 8:
                    e = dict(kev(t, Q(2)), name=None) if rng.random() < 0.5 else dict(pev(t, Q(1)), ts=None)
                else:
                    e = dict(pev(t, Q(7)), dur=S(3))
                evs.insert(rng.randint(0, len(evs)), e)
        yield {"op": "pipe", "events": evs}
    for _ in range(ctx.n(1500, 12000)):
        g = rng.choice([1, 2, 4])
        hi = rng.choice([6, 20])
        fam = []
        for _k in range(rng.randint(0, 9)):
            a = Q(rng.randint(0, hi * g), g)
            b = a + Q(rng.randint(1, hi * g // 2), g)
            fam.append([S(a), S(b)])
        yield {"op": "merge", "periods": fam}
        ps = Q(rng.randint(0, hi * g), g)
        pe = ps + Q(rng.randint(1, hi * g), g)
        yield {"op": "msplit", "ps": S(ps), "pe": S(pe), "v": S(Q(rng.randint(0, 400), 4)), "kernels": fam}
        # the raw split on an arbitrary (unmerged, unsorted, possibly degenerate) timeline: correspondence only
        tl = [[S(Q(rng.randint(0, hi * g), g)), S(Q(rng.randint(0, hi * g), g))] for _k in range(rng.randint(0, 5))]
        yield {"op": "split", "ps": S(ps), "pe": S(pe if rng.random() < 0.9 else ps), "v": "3", "kernels": tl}
        segs = [[S(Q(rng.randint(1, 40), g)), S(Q(rng.choice([0, 0, 1, 2, 3, 7, 50, 99, 123]), rng.choice([1, 2, 4])))]
                for _k in range(rng.randint(0, 10))]
        yield {"op": "stats", "segs": segs}
        if rng.random() < 0.3:      # outside the domain (zero / negative durations and powers): correspondence only
            segs = [[S(Q(rng.randint(-2, 6), g)), S(Q(rng.randint(-3, 6), 2))] for _k in range(rng.randint(1, 6))]
            yield {"op": "stats", "segs": segs, "outside_domain": True}


# ---------------------------------------------------------------------------------------------

def run_real(case):
    op = case["op"]
    if op == "merge":
        return real_merge([(Q(a), Q(b)) for a, b in case["periods"]])
    if op == "split":
        return real_split(Q(case["ps"]), Q(case["pe"]), Q(case["v"]), [(Q(a), Q(b)) for a, b in case["kernels"]])
    if op == "msplit":
        return real_msplit(Q(case["ps"]), Q(case["pe"]), Q(case["v"]), [(Q(a), Q(b)) for a, b in case["kernels"]])
    if op == "stats":
        return real_stats([(Q(d), Q(p)) for d, p in case["segs"]])
    if op == "pipe":
        return real_pipe(case["events"])
    raise ValueError(op)


def oracle(case, r):
    op = case["op"]
    if op == "merge":
        per = [(Q(a), Q(b)) for a, b in case["periods"]]
        if not per or any(not a < b for a, b in per):
            return None
        return oracle_merge(per, r)
    if op == "msplit":
        ps, pe = Q(case["ps"]), Q(case["pe"])
        ks = [(Q(a), Q(b)) for a, b in case["kernels"]]
        if not ps < pe or any(not a < b for a, b in ks):
            return None
        return oracle_msplit(ps, pe, Q(case["v"]), ks, r)
    if op == "stats":
        segs = [(Q(d), Q(p)) for d, p in case["segs"]]
        if case.get("outside_domain") or any(d <= 0 or p < 0 for d, p in segs):
            return None
        return oracle_stats(segs, r)
    if op == "pipe":
        return oracle_pipe(case["events"], r)
    return None


def oracle_on_case(ctx: Ctx, case, verbose=False):
    if case.get("op") in ("e2e", "e2e_multi"):
        v = e2e_eval(case) if case["op"] == "e2e" else e2e_multi_eval(case)
        if v:
            ctx.violation(v[0], v[1], case)
        return {"e2e": v}
    try:
        r = run_real(case)
    except AttributeError as e:
        # a context method named by the property no longer exists: not an oracle matter
        ctx.count("real_method_missing")
        return {"missing": str(e)}
    v = oracle(case, r)
    if verbose:
        print("case:", case)
        print("real:", r)
    if v:
        ctx.violation(v[0], v[1], case)
    return r


def nontrivial(case, r):
    op = case["op"]
    if isinstance(r, dict) and "missing" in r:
        return False
    if op == "merge":
        return len(case["periods"]) >= 2
    if op in ("split", "msplit"):
        return len(r) >= 2
    if op == "stats":
        return sum(1 for _, p in case["segs"] if Q(p) > 0) >= 2
    if op == "pipe":
        return bool(r["lines"].get("W")) and bool(r["lines"].get("WO"))
    return False


# ---------------------------------------------------------------------------------------------
# end to end: the statistics the CLI logs for --power-stats against the timeline the INPUT describes
# ---------------------------------------------------------------------------------------------

def e2e_eval(case):
    """single-rank trace (gen/scenario + explicit wrapping charge readings, as in C10's e2e): the expected power
    series follows from the input counters (12 V * dQ / 512 / dt, 0 above 100 W), the kernel intervals are the
    Exec phases [TS3, TS4) of the input; both on the device time base (the host clock of the generated trace
    is that base plus a constant, statistics are shift invariant).  Returns (classifier, text) or None."""
    from props import c10
    files, truth = c10.e2e_inputs({"seed": case["seed"], "R": 1, "groups": 1, "rates": case["rates"]})
    res = stage.e2e(["--freq=512:1100", "--power-stats", *case.get("opts", [])], files, capture_log=True)
    if res["error"] or res["rc"] != 0:
        return ("power-stats-raises", f"acelyzer --power-stats failed on a well-formed single-rank trace: rc={res['rc']} {res['error']}")
    lines, _warn = parse_lines(res.get("log", ""))
    from gen import scenario
    epoch = scenario.build_ranks(R=1, groups=1, freq=512.0, seed=case["seed"], kernels=2)[0].dev_epoch   # deterministic
    tr = truth[0]
    samples = [(x["t4"], x["U"] % c10.M32, x["U"]) for x in tr if " Prep" not in x["name"]]
    exp, _energy = c10.expected_series(samples)
    periods = [(a[0], b[0], a[1]) for a, b in zip(exp, exp[1:]) if b[0] > a[0]]
    kernels = []
    for evs in files.values():
        for e in evs:
            a = e.get("attr")
            if e["ph"] == "B" and a and "Cmpt Exec" in e["name"]:
                t = a["true_TS"]
                kernels.append((Q(t[2] - epoch, 512), Q(t[3] - epoch, 512)))
    if not periods:
        return None
    if set(lines) != {"W", "WO"}:
        return ("power-stats-time-partition", f"e2e: expected one statistics line per scenario, got {sorted(lines)}")
    w, wo, g = grid_scenarios(periods, kernels)
    got = {k: (None if v is None else {a: Q(b) for a, b in v.items()}) for k, v in lines.items()}
    tol = Q(1, 200) + Q(1, 10 ** 6)
    for label, cells in (("W", w), ("WO", wo)):
        v = check_stats("e2e, with kernels" if label == "W" else "e2e, without kernels", got[label], expected_stats(cells, g), g, tol)
        if v:
            return ("power-stats-e2e", v + " (timeline taken from the input counters and Exec phases)")
    return None


def e2e_multi_eval(case):
    """several ranks sampled over overlapping wall-clock ranges: the statistics pool the ranks' timelines (each
    period lies between two consecutive samples of ONE rank).  Decided here: the partition clause on the pooled
    timeline - dur_total(with) + dur_total(without) = sum over the ranks of their sampled time, and the two
    time-weighted averages carry the pooled energy - against the Power counters of the exported trace."""
    from props import c10
    files, _truth = c10.e2e_inputs({"seed": case["seed"], "R": case["R"], "groups": 1, "rates": case["rates"]})
    res = stage.e2e(["--freq=512:1100", "--power-stats", *case.get("opts", [])], files, capture_log=True)
    if res["error"] or res["rc"] != 0 or res["events"] is None:
        return ("power-stats-raises", f"acelyzer --power-stats failed on a well-formed {case['R']}-rank trace: rc={res['rc']} {res['error']}")
    lines, _warn = parse_lines(res.get("log", ""))
    by = {}
    for e in res["events"]:
        if e.get("ph") == "C" and e.get("name") == "Power":
            by.setdefault(e["pid"], []).append((Q(e["ts"]), Q(e["args"]["Watts"])))
    total, energy = Q(0), Q(0)
    for pid, l in by.items():
        for (t0, w0), (t1, _w1) in zip(l, l[1:]):
            if t1 > t0:
                total += t1 - t0
                energy += w0 * (t1 - t0)
    if total == 0:
        return None
    if not lines:
        return ("power-stats-time-partition", f"e2e, {case['R']} ranks: no statistics line although {float(total)} us were sampled")
    got_d = sum((Q(v["dur_total"]) for v in lines.values() if v), Q(0))
    got_e = sum((Q(v["dur_total"]) * Q(v["avg_total"]) for v in lines.values() if v), Q(0))
    tol_d = Q(2, 100) + total / 10 ** 9
    if abs(got_d - total) > tol_d:
        return ("power-stats-time-partition", f"e2e, {case['R']} ranks: the durations with and without kernels add up to "
                f"{float(got_d)} but the ranks' Power counters of the exported trace sample {float(total)} in total")
    tol_e = Q(1, 100) * total + Q(1, 100) * (energy / total + 1) * 2 + energy / 10 ** 6
    if abs(got_e - energy) > tol_e:
        return ("power-stats-weighted-average", f"e2e, {case['R']} ranks: avg_total x dur_total over both scenarios is "
                f"{float(got_e)}, the exported Power counters carry {float(energy)} (sum of P x dt per rank)")
    return None


def run(ctx: Ctx):
    cases, reals = [], []
    only = os.environ.get("VERIF_C19_OPS")          # debugging aid: restrict to some ops, e.g. "pipe"
    for case in itertools.chain(gen_grid(ctx), gen_random(ctx)):
        if only and case["op"] not in only.split(","):
            continue
        r = oracle_on_case(ctx, case)
        ctx.case_done(case, nontrivial=nontrivial(case, r))
        ctx.count("op_" + case["op"])
        if case["op"] == "pipe" and not (isinstance(r, dict) and "missing" in r):
            ctx.count("pipe_insufficient", int(not r["lines"]))
            ctx.count("pipe_with_nodata", int(bool(r["lines"]) and r["lines"].get("W") is None))
            ctx.count("pipe_without_nodata", int(bool(r["lines"]) and r["lines"].get("WO") is None))
            ctx.count("pipe_outside_oracle_domain", int(not in_oracle_domain(case["events"])))
            ctx.count("pipe_power_periods", len(r["periods"]))
            ctx.count("pipe_kernel_periods", len(r["kernels"]))
        if case["op"] == "msplit" and isinstance(r, list):
            ctx.count("split_segments_with_kernel", sum(1 for s in r if s[2]))
            ctx.count("split_segments_without_kernel", sum(1 for s in r if not s[2]))
        cases.append(case)
        reals.append(r)
    # end to end (oracle only)
    for i in range(ctx.n(8, 60)):
        case = {"op": "e2e", "seed": ctx.rng.randint(0, 10 ** 6),
                "rates": ctx.rng.choice([[200, 1000, 2000, 4000], [50, 3000], [1000, 2500, 6000], [0, 0, 1500]]),
                "opts": ctx.rng.choice([[], [], ["-t"], ["--keep_prep"], ["--drop_globals"]])}
        v = e2e_eval(case)
        if v:
            ctx.violation(v[0], v[1], case)
        ctx.case_done(case, nontrivial=True)
        ctx.count("op_e2e")
    for i in range(ctx.n(6, 40)):
        case = {"op": "e2e_multi", "seed": ctx.rng.randint(0, 10 ** 6), "R": ctx.rng.choice([2, 3]),
                "rates": ctx.rng.choice([[200, 1000, 2000, 4000], [50, 3000], [1000, 2500, 6000]]),
                "opts": ctx.rng.choice([[], ["-t"], ["--keep_prep"], ["-M"]])}
        v = e2e_multi_eval(case)
        if v:
            ctx.violation(v[0], v[1], case)
        ctx.case_done(case, nontrivial=True)
        ctx.count("op_e2e_multi")
    ctx.extra["exhaustive"] = False
    ctx.extra["exhaustive_streams"] = "the four small grids named in `rule` are enumerated completely; the random streams are not"
    if ctx.search_mode or not ctx.driver or not ctx.driver.ok:
        return
    outs = ctx.driver.ask([line(c) for c in cases])
    for case, r, o in zip(cases, reals, outs):
        if isinstance(r, dict) and "missing" in r:
            ctx.disagree("context method named by the property is missing in the real code", case, o, r)
            continue
        m = parse_model(case, o)
        ctx.compare(f"power_stats model vs real code ({case['op']})", case, canon_model(case, m), canon_real(case, r))


def shrink(ctx: Ctx, case, classifier):
    if case.get("op") in ("e2e", "e2e_multi"):
        return case
    key = {"merge": "periods", "msplit": "kernels", "split": "kernels", "stats": "segs", "pipe": "events"}[case["op"]]

    def bad(c):
        try:
            v = oracle(c, run_real(c))
        except Exception:  # noqa: BLE001
            return False
        return v is not None and v[0] == classifier
    cur = copy.deepcopy(case)
    changed = True
    while changed:
        changed = False
        for j in range(len(cur[key])):
            c2 = dict(cur)
            c2[key] = cur[key][:j] + cur[key][j + 1:]
            if bad(c2):
                cur, changed = c2, True
                break
    return cur


LEVEL_TEXT = ("Lean theorems over an executable model of power_stats.py, for all rational inputs: _merge_periods yields a "
              "sorted, pairwise separated timeline covering exactly the points of the kernel intervals; for ps < pe "
              "_split_power_period over such a timeline emits only positive durations that sum to pe - ps, the kernel-tagged "
              "ones summing to the overlap of the period with the kernels; hence in drain dur_total(with) + dur_total(without) "
              "= total sampled time and each scenario's avg_total x dur_total equals the power-time integral over its part; "
              "the reported statistics satisfy min_nz <= median_nz <= max, min_nz <= mean_nz <= max, dur_nz <= dur_total; "
              "the callback's guards (ts > last_ts, dur > 0) establish the side conditions. Tied to the code by running the "
              "real callback/context (INFO log lines parsed) and the three context methods against the compiled model on "
              "exhaustive small grids and random streams, exact comparison.")
LEVEL_NOTE = ("Trusted: Lean kernel; axioms propext, Classical.choice, Quot.sound; the hand-written model is validated against "
              "the code by differential runs only; IEEE rounding of the two quotients (compared against the correctly rounded "
              "rational) and of realistic non-dyadic inputs is outside the proof; ts == 0 events are ignored by the code "
              "(modelled; outside the oracle domain).")
TECHNIQUE = "Lean 4 proof (induction over the kernel timeline / segment lists, Rat arithmetic) + model/implementation correspondence run"
