"""C15 — multi-file ingestion is a loss-free time-ordered merge with correct B/E pairing.

Real code: generated trace files are written to a `tempfile.mkdtemp()` directory and iterated through the
public iterator `MultifileIngest(source_uri="f0.json,f1.json,…")`; every yielded dict is projected to
(u, ph, ts, dur, pid, name, has-args, has-attr, args.rank, attr.rank) at the moment it is yielded, the
exception that ends the iteration (if any) is mapped to {assert, key, index, <class name>}, and the
per-file warning counters are read from `ingesters[i].warnings[…]`.
Model: `AiuVerif.Ingest.merge ∘ fileStream` behind the `c15` line of the compiled driver, same files.
Compared exactly (all values are on the exact grid: ts multiples of 1/16, plus the doubles around 1e-9 that
decide `math.isclose`; `E.ts - B.ts` is exact on these): the yield sequence with all projected fields, the
error kind, and — for runs that end without exception — the warning counts.  No tolerant field.

Oracle (from the statement, computed from the *input files* only, never from the model), on files that are
well-formed in the sense of the statement's quantifier (X / M / other single events, adjacent B,E pairs with
the same name and both ts; integer pids; M-like events carry args):
  O1 every single event and every B/E pair is yielded exactly once unless its duration is <= 0 (|dur| <= 1e-9)
     [ingest-loss-or-dup]; the yields of one file keep their file order [ingest-file-order];
  O2 a pair is yielded as ph=X, ts=B.ts, dur=E.ts-B.ts [ingest-pairing]; metadata is passed on whatever dur;
  O3 skipped slices are counted: per file, negative / zero warning counts equal the skipped ones [ingest-skip-count];
  O4 if each file's yield sequence is ordered by ts (absent ts = 0.0, the documented sort key) so is the
     merged stream [ingest-order];
  O5 FLEX file without distributedInfo whose first event is rank-annotated (ph X/B/E/M/b/e/i) with pid p >= 0:
     every yielded rank-annotated event of that file has pid p and rank p [ingest-rank];
  O6 no exception [ingest-raises].
On ill-formed files only "nothing invented, nothing twice" is demanded [ingest-loss-or-dup].
Outside the statement's domain and therefore covered by the correspondence only: counter/flow events
(ph C/s/f/t are passed through un-annotated, also when they come first), first pid < 0, distributedInfo.rank,
the "already processed by acelyzer -> all events dropped" branch, a dangling B at end of file (silently dropped).
Stream H stores a file under a path whose job hash (crc32(path) % 10000) equals that of the constant job
"top_level_multifile"; before /repo 91f149a such a file was read under the TORCH dialect (rank -1); a relapse is
reported under the classifier ingest-jobhash-collision.
"""
from __future__ import annotations

import itertools
import json
import math
import os
import shutil
import tempfile
from fractions import Fraction

from lib.core import Ctx, rat

ID = "C15"
LEAN_TARGETS = ["AiuVerif.Props.C15"]
THEOREMS = [
    "AiuVerif.C15.merge_perm",
    "AiuVerif.C15.merge_sorted",
    "AiuVerif.C15.merge_file_order",
    "AiuVerif.C15.merge_ok_iff",
    "AiuVerif.C15.merge_subperm",
    "AiuVerif.C15.unreachable_discard",
    "AiuVerif.C15.pairing_spec",
    "AiuVerif.C15.skipped_counted",
    "AiuVerif.C15.rank_is_first_pid",
    "AiuVerif.C15.annotate_keeps",
]
RULE = ("file sets for MultifileIngest: (G1) exhaustive k<=2 (thorough: k<=3) files x all slice streams of length <=2 "
        "with ts in {absent,0,1,2}; (G2) exhaustive single files of <=3 raw events over a 13-letter alphabet of "
        "B/E/X/M/i events (matching, mismatching, missing ts/name, zero/negative dur), alone and merged with a "
        "second file; (R) random well-formed sets of 1..5 files (X, B/E pairs, M, i, C, b/e, missing ts, ties on a "
        "1/16 grid, sorted and unsorted, list and dict form, distributedInfo, processed flag, durations around "
        "the 1e-9 isclose threshold); (M) random ill-formed files. Non-trivial: at least two files yield events, "
        "or a B/E pair / a skipped slice / an error branch occurs. distinct = distinct protocol line")
TRUSTED = ["json.load / json.dump round-trip floats exactly (repr)",
           "list.sort(reverse=True, key=…) is the stable descending sort (CPython documentation)",
           "pathlib.Path.glob of a wildcard-free file name yields that file"]
ASSUMPTIONS = ["FLEX dialect JSON files, scale 1.0 (as MultifileIngest constructs them); TORCH profiles, "
               "perfetto and api:// inputs are outside the model",
               "pid / tid values are JSON integers",
               "per-file iterators share no state: the job hashes (crc32(path) % 10000) of the input files of one run are "
               "pairwise distinct, so every file is read under its own dialect (two colliding files of one run share one "
               "GlobalIngestData slot, the later one wins; the harness re-chooses file names until the hashes differ). "
               "A collision with the constant job 'top_level_multifile' that MultifileIngest registers with the TORCH "
               "dialect is NOT assumed away: stream H forces it as a regression sentinel (it was a defect, fixed in "
               "/repo 91f149a)"]
NOT_YET_PROVED = []
LEVEL_TEXT = ("Lean theorems over a model of MultifileIngest and the per-file JSON iterator, for any number of files "
              "of any length: the merged stream is a permutation of the per-file yield sequences (merge_perm) and "
              "restricted to one file it is that file's sequence in order (merge_file_order); if every file is "
              "ordered by the sort key so is the output (merge_sorted); the iteration ends with an exception iff some "
              "file does, and then nothing is invented or duplicated (merge_ok_iff, merge_subperm); the code path "
              "that would discard a popped event is unreachable (unreachable_discard); on well-formed files the "
              "per-file sequence is exactly 'pairs become X with dur = E.ts-B.ts, dur<=1e-9 skipped, metadata passed' "
              "and every item is yielded or counted (pairing_spec, skipped_counted); all events carry the first pid "
              "as rank (rank_is_first_pid). Tied to the code by diffing the real MultifileIngest iteration against "
              "the compiled model on generated file sets.")
LEVEL_NOTE = ("Trusted: Lean kernel; axioms propext, Classical.choice, Quot.sound; the hand-written model is validated "
              "against the real code by differential runs only; IEEE arithmetic is exact on the generated grid and "
              "not modelled elsewhere; TORCH dialect, perfetto, api:// ingestion are outside the model.")
TECHNIQUE = "Lean 4 proof (invariant induction over the merge front) + model/implementation correspondence run"

TOL = 1e-9
TOL_UP = math.nextafter(1e-9, 1.0)
ANNOT = ("X", "B", "E", "M", "b", "e", "i")
KNOWN_PH = ("X", "B", "E", "M", "i", "C", "s", "f", "t", "b", "e")


# ---------------------------------------------------------------------------------------------
# cases:  {"files": [{"form": "list"|"dict", "rank": int|None, "processed": bool, "events": [raw dict]}]}
# ---------------------------------------------------------------------------------------------

def mk(u, ph, ts=None, dur=None, pid=0, name="n", args=True, attr=False):
    e = {"ph": ph, "u": u}
    if ts is not None:
        e["ts"] = ts
    if dur is not None:
        e["dur"] = dur
    if pid is not None:
        e["pid"] = pid
    if name is not None:
        e["name"] = name
    if args:
        e["args"] = {"k": u}
    if attr:
        e["attr"] = {"TS1": "1"}
    return e


def mkfile(events, form="list", rank=None, processed=False):
    return {"form": form, "rank": rank, "processed": processed, "events": events}


def file_json(f):
    if f["form"] == "list":
        return f["events"]
    d = {"traceEvents": f["events"]}
    if f["rank"] is not None:
        d["distributedInfo"] = {"rank": f["rank"]}
    if f["processed"]:
        d["otherData"] = {"Application": "Acelyzer 1.0"}
    return d


def _o(x, f=str):
    return "-" if x is None else f(x)


def _s(x):
    return "%00" if x == "" else x


def line(case):
    ws = []
    for f in case["files"]:
        evs = []
        for e in f["events"]:
            evs.append(":".join([str(e["u"]), _s(e["ph"]), _o(e.get("ts"), rat), _o(e.get("dur"), rat),
                                 _o(e.get("pid")), _o(e.get("name"), _s), "1" if "args" in e else "0",
                                 "1" if "attr" in e else "0"]))
        rank0 = f["rank"] if (f["form"] == "dict" and f["rank"] is not None) else -1
        ws.append(f"{rank0};{1 if (f['form'] == 'dict' and f['processed']) else 0};" + ",".join(evs))
    return "c15 " + " ".join(ws)


def parse_model(s):
    o, rest = s.split(" err=")
    err, w = rest.split(" warn=")
    out = []
    for x in o[4:].split(","):
        if not x:
            continue
        p = x.split(":")
        out.append([int(p[0]), int(p[1])] + p[2:])
    warn = [[int(y) for y in x.split(":")] for x in w.split(",") if x]
    return {"out": out, "err": err, "warn": warn}


# ---------------------------------------------------------------------------------------------
# real code
# ---------------------------------------------------------------------------------------------

def _proj(e, owner):
    a, t = e.get("args"), e.get("attr")
    return [e.get("u"), owner.get(e.get("u"), -1), _s(e.get("ph")), _o(e.get("ts"), rat), _o(e.get("dur"), rat),
            _o(e.get("pid")), _o(e.get("name"), _s), "1" if a is not None else "0", "1" if t is not None else "0",
            _o(a.get("rank") if isinstance(a, dict) else None), _o(t.get("rank") if isinstance(t, dict) else None)]


def _collision_name(tmp, i):
    """a file name in `tmp` whose job hash equals that of MultifileIngest's own constant job
    "top_level_multifile" (crc32 % 10000 in the current tree); None if none is found"""
    import zlib
    h0 = zlib.crc32(b"top_level_multifile") % 10000
    for j in range(200000):
        p = os.path.join(tmp, f"f{i}_{j}.json")
        if zlib.crc32(p.encode()) % 10000 == h0:
            return p
    return None


def run_real(case):
    """case["collide"] (optional): indices of files whose path must share the job hash of the top-level
    ingester (stream H).  All other paths are re-chosen until the job hashes are pairwise distinct and
    distinct from the top-level one, so that no file inherits the dialect of another job."""
    from aiu_trace_analyzer.ingest.ingestion import MultifileIngest
    tmp = tempfile.mkdtemp(prefix="aiuverif_c15_")
    owner = {e["u"]: i for i, f in enumerate(case["files"]) for e in f["events"]}
    collide = set(case.get("collide") or [])
    out, err, warn, forced = [], "none", None, None
    try:
        gen = 0
        while True:
            paths = []
            same0 = set(case.get("same_id_as_0") or [])
            for i, f in enumerate(case["files"]):
                p = _collision_name(tmp, i) if i in collide else None
                if p is None and i in same0 and paths:
                    # a DIFFERENT file whose 4-digit job id equals that of file 0 (crc32(path) % 10000 collides about
                    # once in 10000 pairs): both are FLEX, so sharing the registry slot changes nothing - and it must
                    # not cost any event
                    import zlib
                    h0 = zlib.crc32(paths[0].encode()) % 10000
                    p = next((q for q in (os.path.join(tmp, f"f{i}_{j}.json") for j in range(200000))
                              if zlib.crc32(q.encode()) % 10000 == h0), None)
                if p is None and case.get("layout") == "dirs":
                    # one base name in per-file directories (run/rank0/trace.json, run/rank1/trace.json, ...)
                    p = os.path.join(tmp, f"d{i}" if gen == 0 else f"d{i}_g{gen}", "trace.json")
                    os.makedirs(os.path.dirname(p), exist_ok=True)
                if p is None and case.get("glob"):
                    # the files are given by ONE wildcard pattern (dir/f*); what a trace file is called is up to the
                    # user (rank2.trace, no extension at all) - the content decides
                    p = os.path.join(tmp, f"f{i}{['.json', '.trace', '', '.json.1'][(i + case['glob']) % 4]}")
                # a JSON trace is a JSON trace whatever else its name says (rank1.log.json, run.pftrace.json)
                tagn = ["", "", ".log", ".pftrace"][(i + len(case["files"])) % 4]
                p = p or os.path.join(tmp, f"f{i}{tagn}.json" if gen == 0 else f"f{i}_g{gen}{tagn}.json")
                with open(p, "w") as fh:
                    json.dump(file_json(f), fh)
                paths.append(p)
            if case.get("torch_last"):
                # a file of ANOTHER dialect (torch profile: deviceProperties) with the same base name, registered
                # last; its single event lies far behind everything else and carries no id (dropped from `out`)
                p = os.path.join(tmp, "dT" if gen == 0 else f"dT_g{gen}", "trace.json")
                os.makedirs(os.path.dirname(p), exist_ok=True)
                with open(p, "w") as fh:
                    json.dump({"deviceProperties": [{"id": 0}],
                               "traceEvents": [{"ph": "X", "name": "t", "pid": 0, "tid": 0, "ts": 4.0e9, "dur": 1.0}]}, fh)
                paths.append(p)
            ing = None
            try:
                uri = os.path.join(tmp, "f*") if case.get("glob") else ",".join(paths)
                ing = MultifileIngest(source_uri=uri, show_warnings=False)
                hs = [g.jobhash for g in ing.ingesters]
                plain = [h for i, h in enumerate(hs) if i not in collide and i not in same0]
                if not case.get("glob") and gen < 20 and (len(set(plain)) != len(plain) or ing.jobhash in plain):
                    gen += 1
                    _quiet(ing)
                    continue
                forced = [i for i in sorted(collide) if i < len(hs) and hs[i] == ing.jobhash]
                for ev in ing:
                    if case.get("torch_last") and "u" not in ev:
                        continue
                    out.append(_proj(ev, owner))
            except AssertionError:
                err = "assert"
            except KeyError:
                err = "key"
            except IndexError:
                err = "index"
            except Exception as e:  # noqa: BLE001 - the class is the observable
                err = type(e).__name__
            if ing is not None:
                warn = [[g.warnings["negative_duration"].args_list["count"],
                         g.warnings["zero_duration"].args_list["count"]] for g in ing.ingesters][:len(case["files"])]
                _quiet(ing)
            break
    finally:
        shutil.rmtree(tmp, ignore_errors=True)
    return {"out": out, "err": err, "warn": warn, "collision_forced": forced}


def _quiet(ing):
    for g in list(ing.ingesters) + [ing]:
        for w in g.warnings.values():
            w.auto_log = False


# ---------------------------------------------------------------------------------------------
# oracle (from the statement; input files only)
# ---------------------------------------------------------------------------------------------

def expected_file(f):
    """None if the file is not well-formed; else list of items
    dict(u, kind single|pair, fate emit|neg|zero, ts, dur, ph, annotated)"""
    if f["form"] == "dict" and f["processed"]:
        return None
    raws, items, i = f["events"], [], 0
    for e in raws:
        if e["ph"] not in KNOWN_PH:
            return None
        if e["ph"] in ANNOT and not isinstance(e.get("pid"), int):
            return None
        if e["ph"] in ("M", "b", "e", "i") and "args" not in e:
            return None
    while i < len(raws):
        e = raws[i]
        if e["ph"] == "B":
            if i + 1 >= len(raws):
                return None
            e2 = raws[i + 1]
            if e2["ph"] != "E" or "name" not in e or "name" not in e2 or e["name"] != e2["name"] \
                    or "ts" not in e or "ts" not in e2:
                return None
            dur = float(e2["ts"]) - float(e["ts"])
            items.append({"u": e["u"], "kind": "pair", "ts": e["ts"], "dur": dur, "ph": "X"})
            i += 2
        elif e["ph"] == "E":
            return None
        else:
            items.append({"u": e["u"], "kind": "single", "ts": e.get("ts"), "dur": e.get("dur"), "ph": e["ph"]})
            i += 1
    for it in items:
        d = it["dur"]
        if it["ph"] == "M" or d is None:
            it["fate"] = "emit"
        elif d < 0:
            it["fate"] = "neg"
        elif abs(d) <= TOL:
            it["fate"] = "zero"
        else:
            it["fate"] = "emit"
    return items


def oracle(case, r):
    files = case["files"]
    exp = [expected_file(f) for f in files]
    outs = r["out"]
    us = [o[0] for o in outs]
    owner = {e["u"]: i for i, f in enumerate(files) for e in f["events"]}
    inputs_non_e = {e["u"] for f in files for e in f["events"]}
    if len(set(us)) != len(us):
        return ("ingest-loss-or-dup", f"an event is yielded twice: {us}")
    if not set(us) <= inputs_non_e:
        return ("ingest-loss-or-dup", f"a yielded event is no input event: {us}")
    if any(x is None for x in exp):
        return None
    if r["err"] != "none":
        return ("ingest-raises", f"well-formed files raise {r['err']} after {len(outs)} events")
    want = [it["u"] for x in exp for it in x if it["fate"] == "emit"]
    if sorted(want) != sorted(us):
        return ("ingest-loss-or-dup", f"yielded ids {sorted(us)} but the files hold (after the documented skips) {sorted(want)}")
    byu = {o[0]: o for o in outs}
    for i, x in enumerate(exp):
        seq = [it["u"] for it in x if it["fate"] == "emit"]
        got = [u for u in us if owner[u] == i]
        if seq != got:
            return ("ingest-file-order", f"file {i} yields {got}, file order is {seq}")
        for it in x:
            if it["fate"] != "emit":
                continue
            o = byu[it["u"]]
            if it["kind"] == "pair":
                if o[2] != "X" or o[3] != rat(float(it["ts"])) or o[4] != rat(it["dur"]):
                    return ("ingest-pairing", f"B/E pair u={it['u']} yielded as ph={o[2]} ts={o[3]} dur={o[4]}, "
                                              f"expected X ts={rat(float(it['ts']))} dur={rat(it['dur'])}")
            else:
                if o[2] != it["ph"] or o[3] != _o(it["ts"], rat) or o[4] != _o(it["dur"], rat):
                    return ("ingest-pairing", f"single event u={it['u']} changed: ph={o[2]} ts={o[3]} dur={o[4]}")
        neg = sum(1 for it in x if it["fate"] == "neg")
        zero = sum(1 for it in x if it["fate"] == "zero")
        if r["warn"] is None or r["warn"][i] != [neg, zero]:
            return ("ingest-skip-count", f"file {i}: {neg} negative / {zero} zero-duration slices skipped, "
                                         f"warnings count {r['warn'][i] if r['warn'] else None}")
    key = lambda o: Fraction(o[3]) if o[3] != "-" else Fraction(0)  # noqa: E731
    per_file_sorted = all(
        all(key(byu[a]) <= key(byu[b]) for a, b in zip(s, s[1:]))
        for s in ([u for u in us if owner[u] == i] for i in range(len(files))))
    if per_file_sorted and any(key(a) > key(b) for a, b in zip(outs, outs[1:])):
        return ("ingest-order", f"every file is ordered by ts but the merged stream is not: {[str(key(o)) for o in outs]}")
    for i, f in enumerate(files):
        if f["form"] == "dict" and f["rank"] is not None:
            continue
        if not f["events"] or f["events"][0]["ph"] not in ANNOT:
            continue
        p = f["events"][0]["pid"]
        if p < 0:
            continue
        for o in outs:
            if o[1] == i and o[2] in ANNOT:
                rk = o[10] if o[8] == "1" and o[2] == "X" else o[9]
                if o[5] != str(p) or rk != str(p):
                    return ("ingest-rank", f"file {i}: first pid {p}, but event u={o[0]} has pid={o[5]} rank={rk}")
    return None


# ---------------------------------------------------------------------------------------------
# generators
# ---------------------------------------------------------------------------------------------

class U:
    def __init__(self):
        self.n = 0

    def __call__(self):
        self.n += 1
        return self.n


def g1_streams():
    vals = [None, 0, 1, 2]
    yield []
    for a in vals:
        yield [a]
    for a in vals:
        for b in vals:
            yield [a, b]


def gen_g1(ctx: Ctx):
    streams = list(g1_streams())
    kmax = 2 if ctx.quick() else 3
    for k in range(1, kmax + 1):
        for combo in itertools.product(streams, repeat=k):
            u = U()
            yield {"files": [mkfile([mk(u(), "X", ts=t, dur=1, pid=i, name="a") for t in s]) for i, s in enumerate(combo)]}
    if ctx.quick():
        for _ in range(ctx.n(300, 0)):
            combo = [ctx.rng.choice(streams) for _ in range(3)]
            u = U()
            yield {"files": [mkfile([mk(u(), "X", ts=t, dur=1, pid=i, name="a") for t in s]) for i, s in enumerate(combo)]}


ALPHA = [
    lambda u: mk(u, "B", ts=0, name="a", args=False, attr=True),
    lambda u: mk(u, "B", ts=1, name="a", args=False, attr=True),
    lambda u: mk(u, "E", ts=1, name="a", args=False, attr=True),
    lambda u: mk(u, "E", ts=0, name="a", args=False, attr=True),
    lambda u: mk(u, "E", ts=2, name="b", args=False, attr=True),
    lambda u: mk(u, "X", ts=0, dur=1, name="a"),
    lambda u: mk(u, "X", ts=1, dur=0, name="a"),
    lambda u: mk(u, "X", ts=1, dur=-1, name="a"),
    lambda u: mk(u, "M", name="process_name"),
    lambda u: mk(u, "B", name="a", args=False, attr=True),
    lambda u: mk(u, "E", name="a", args=False, attr=True),
    lambda u: mk(u, "B", ts=0, name=None, args=False, attr=True),
    lambda u: mk(u, "i", ts=2, name="a"),
]


def gen_g2(ctx: Ctx):
    n = 0
    for L in range(0, 4):
        for combo in itertools.product(range(len(ALPHA)), repeat=L):
            u = U()
            f0 = mkfile([ALPHA[j](u()) for j in combo])
            n += 1
            if n % 2 == 0:
                yield {"files": [f0]}
            else:
                f1 = mkfile([mk(u(), "X", ts=0.5, dur=1, pid=1, name="z"), mk(u(), "X", ts=1.5, dur=1, pid=1, name="z")])
                yield {"files": [f0, f1] if n % 4 == 1 else [f1, f0]}


DURS = [0.0625, 1, 2.5, 3, 0, 0.0, -0.0625, -2, TOL, TOL_UP, 1e-12, -1e-12, None]


def gen_wf_file(ctx: Ctx, u: U, fi: int):
    rng = ctx.rng
    pf = rng.choice([0, 1, 2, 3, 4, 5, 7, 1000]) if rng.random() < 0.88 else rng.choice([-1, -1, -3])
    n = rng.choice([0, 0, 1, 1, 2, 3, 4, 5, 8, 12])
    sorted_ = rng.random() < 0.85
    t = Fraction(rng.randint(0, 48), 16)
    evs = []
    for _ in range(n):
        if sorted_:
            t += rng.choice([0, 0, Fraction(1, 16), Fraction(1, 2), 1, 3])
        else:
            t = Fraction(rng.randint(0, 96), 16)
        ts = float(t) if rng.random() < 0.7 or t.denominator != 1 else int(t)
        pid = pf if rng.random() < 0.85 else rng.choice([0, 1, 2, 9, -1])
        name = rng.choice(["a", "b", "c"])
        k = rng.random()
        cont = rng.random()
        args, attr = (False, True) if cont < 0.5 else (True, False) if cont < 0.9 else (False, False) if cont < 0.95 else (True, True)
        if k < 0.33:
            evs.append(mk(u(), "X", ts=ts, dur=rng.choice(DURS), pid=pid, name=name, args=args, attr=attr))
        elif k < 0.70:
            d = rng.choice([1, 0.0625, 3, 0, 0, -0.5, 2])
            if t == 0 and rng.random() < 0.5:
                d = rng.choice([TOL, TOL_UP, 1e-12])
            evs.append(mk(u(), "B", ts=ts, pid=pid, name=name, args=args, attr=attr))
            evs.append(mk(u(), "E", ts=float(t) + d, pid=pid if rng.random() < 0.9 else 6, name=name,
                          args=args, attr=attr))
        elif k < 0.80:
            evs.append(mk(u(), "M", ts=None if rng.random() < 0.8 else 0, dur=rng.choice([None, None, 0, -1]),
                          pid=pid, name="process_name"))
        elif k < 0.86:
            evs.append(mk(u(), "i", ts=ts, pid=pid, name=name))
        elif k < 0.91:
            evs.append(mk(u(), "C", ts=ts, pid=rng.choice([pid, 12]), name="ctr", dur=rng.choice([None, None, 0])))
        elif k < 0.94:
            evs.append(mk(u(), "X", ts=None, dur=1, pid=pid, name=name, args=args, attr=attr))
        elif k < 0.97:
            evs.append(mk(u(), rng.choice(["b", "e"]), ts=ts, pid=pid, name=name))
        else:
            evs.append(mk(u(), rng.choice(["s", "f", "t"]), ts=ts, pid=pid, name=name, args=rng.random() < 0.5))
    form = "list" if rng.random() < 0.6 else "dict"
    rank = None
    processed = False
    if form == "dict":
        if rng.random() < 0.3:
            rank = rng.choice([0, 3, 5, -1, -2])
        processed = rng.random() < 0.06
    return mkfile(evs, form, rank, processed)


def gen_wf(ctx: Ctx):
    for _ in range(ctx.n(1200, 20000)):
        u = U()
        k = ctx.rng.choice([1, 2, 2, 3, 3, 4, 5])
        case = {"files": [gen_wf_file(ctx, u, i) for i in range(k)]}
        if k >= 2 and ctx.rng.random() < 0.06:
            case["same_id_as_0"] = sorted(ctx.rng.sample(range(1, k), ctx.rng.randint(1, min(2, k - 1))))
        elif ctx.rng.random() < 0.1:
            case["glob"] = ctx.rng.randint(1, 4)
        elif ctx.rng.random() < 0.2:
            case["layout"] = "dirs"
            if ctx.rng.random() < 0.5:
                case["torch_last"] = True
        yield case


def gen_bad(ctx: Ctx):
    rng = ctx.rng
    phs = ["X", "B", "E", "B", "E", "M", "i", "C", "", "BE", "XB", "b", "s", "Mb"]
    for _ in range(ctx.n(800, 12000)):
        u = U()
        files = []
        for fi in range(rng.choice([1, 1, 2, 3])):
            evs = []
            for _ in range(rng.choice([0, 1, 2, 3, 4, 6])):
                ph = rng.choice(phs)
                evs.append(mk(u(), ph,
                              ts=None if rng.random() < 0.15 else rng.choice([0, 0.5, 1, 2, 3.0625]),
                              dur=rng.choice([None, None, 1, 0, -1]) if ph not in ("B", "E") else None,
                              pid=None if rng.random() < 0.12 else rng.choice([0, 1, 2, -1, -2]),
                              name=None if rng.random() < 0.1 else rng.choice(["a", "a", "b"]),
                              args=rng.random() < 0.6, attr=rng.random() < 0.4))
            form = "list" if rng.random() < 0.7 else "dict"
            files.append(mkfile(evs, form, rng.choice([None, None, 2, -1]) if form == "dict" else None, False))
        yield {"files": files}


def gen_collide(ctx: Ctx):
    """stream H (regression sentinel, fixed: 91f149a): a well-formed FLEX file stored under a path whose job
    hash collides with the top-level ingester's constant job name must still get rank = first pid"""
    for n in range(ctx.n(6, 24)):
        u = U()
        k = 1 + n % 2
        files = [mkfile([mk(u(), "X", ts=t, dur=1, pid=3 + i, name="a") for t in range(ctx.rng.randint(1, 3))])
                 for i in range(k)]
        yield {"files": files, "collide": [ctx.rng.randrange(k)]}


def gen_cases(ctx: Ctx):
    for name, g in (("H", gen_collide), ("G1", gen_g1), ("G2", gen_g2), ("R", gen_wf), ("M", gen_bad)):
        for c in g(ctx):
            yield name, c


# ---------------------------------------------------------------------------------------------

def oracle_on_case(ctx: Ctx, case, verbose=False):
    r = run_real(case)
    v = oracle(case, r)
    if v and v[0] == "ingest-rank" and case.get("collide") and r.get("collision_forced"):
        # the only difference to the other streams is the path: same file, other name => no violation
        v = ("ingest-jobhash-collision", v[1] + f" [file(s) {r['collision_forced']} stored under a path whose job hash "
                                                f"equals that of the constant job 'top_level_multifile']")
    if verbose:
        print("input files:")
        for i, f in enumerate(case["files"]):
            print(f"  f{i}.json:", json.dumps(file_json(f)))
        print("yielded (u, file, ph, ts, dur, pid, name, args?, attr?, args.rank, attr.rank):")
        for o in r["out"]:
            print("  ", o)
        print("ended with:", r["err"], " warning counts [neg, zero] per file:", r["warn"])
        if v:
            print("oracle:", v)
    if v:
        ctx.violation(v[0], v[1], case)
    return r


def nontrivial(case, r):
    files_yielding = {o[1] for o in r["out"]}
    paired = any(e["ph"] == "B" for f in case["files"] for e in f["events"])
    skipped = bool(r["warn"]) and any(a + b for a, b in r["warn"])
    return len(files_yielding) >= 2 or paired or skipped or r["err"] != "none"


def run(ctx: Ctx):
    cases, reals = [], []
    for stream, case in gen_cases(ctx):
        r = oracle_on_case(ctx, case)
        ln = line(case)
        ctx.case_done(case, key=ln, nontrivial=nontrivial(case, r))
        ctx.count("stream_" + stream)
        ctx.count("err_" + r["err"])
        ctx.count("files", len(case["files"]))
        ctx.count("events_yielded", len(r["out"]))
        ctx.count("cases_merging_2plus_files", int(len({o[1] for o in r["out"]}) >= 2))
        ctx.count("cases_with_ts_tie_across_files",
                  int(any(a[3] == b[3] and a[1] != b[1] for a, b in zip(r["out"], r["out"][1:]))))
        ctx.count("pairs_yielded", sum(1 for o in r["out"] if o[2] == "X" and any(
            e["u"] == o[0] and e["ph"] == "B" for f in case["files"] for e in f["events"])))
        if r["warn"]:
            ctx.count("skipped_negative", sum(a for a, _ in r["warn"]))
            ctx.count("skipped_zero", sum(b for _, b in r["warn"]))
        ctx.count("well_formed_cases", int(all(expected_file(f) is not None for f in case["files"])))
        if case.get("collide"):
            ctx.count("jobhash_collision_forced", int(bool(r.get("collision_forced"))))
        cases.append((case, ln))
        reals.append(r)
    ctx.extra["exhaustive"] = False
    ctx.extra["exhaustive_streams"] = "G1 (k<=2 quick / k<=3 thorough), G2 (length<=3)"
    if ctx.search_mode or not ctx.driver or not ctx.driver.ok:
        return
    outs = ctx.driver.ask([ln for _, ln in cases])
    for (case, _), r, o in zip(cases, reals, outs):
        if o == "bad-op":
            ctx.compare("ingest model could not parse the case", case, o, "ok")
            continue
        m = parse_model(o)
        model = {"out": [[str(x) for x in e] for e in m["out"]], "err": m["err"]}
        real = {"out": [[str(x) for x in e] for e in r["out"]], "err": r["err"]}
        if m["err"] == "none" and r["err"] == "none":
            model["warn"], real["warn"] = m["warn"], r["warn"]
        ctx.compare("ingest model vs MultifileIngest iteration (yield sequence, fields, error, warning counts)",
                    case, model, real)


def shrink(ctx: Ctx, case, classifier):
    def bad(c):
        if not c["files"]:
            return False
        try:
            v = oracle(c, run_real(c))
        except Exception:  # noqa: BLE001
            return False
        return v is not None and v[0] == classifier

    cur = json.loads(json.dumps(case))
    if cur.get("collide"):
        return cur
    changed = True
    while changed:
        changed = False
        for i in range(len(cur["files"])):
            c2 = {"files": cur["files"][:i] + cur["files"][i + 1:]}
            if bad(c2):
                cur, changed = c2, True
                break
        if changed:
            continue
        for i, f in enumerate(cur["files"]):
            evs = f["events"]
            for j in range(len(evs)):
                for width in (2, 1):
                    if j + width > len(evs):
                        continue
                    f2 = dict(f, events=evs[:j] + evs[j + width:])
                    c2 = {"files": cur["files"][:i] + [f2] + cur["files"][i + 1:]}
                    if bad(c2):
                        cur, changed = c2, True
                        break
                if changed:
                    break
            if changed:
                break
    return cur
