#!/venv/bin/python
"""check.py <Cxx> [--tier quick|thorough] [--replay FILE] — decide one property (see lib/core.py)."""
from __future__ import annotations

import argparse
import importlib
import json
import os
import sys
import time
import traceback
from pathlib import Path

sys.path.insert(0, str(Path(__file__).resolve().parent))
sys.path.insert(0, os.path.join(os.environ.get("AIU_REPO", "/repo"), "src"))

from lib import core  # noqa: E402
from lib.core import Ctx, Infra  # noqa: E402


def silence_repo_logging():
    try:
        import aiu_trace_analyzer.logger as aiulog
        aiulog.loglevel = -1
    except Exception:
        pass


def lean_phase(ctx: Ctx, mod) -> str:
    """translate, build the property's theorems + the driver, audit axioms. Returns checker_cmd."""
    targets = list(mod.LEAN_TARGETS)
    checker_cmd = f"cd lean && lake build {' '.join(targets)} aiudrv && lake env lean <#print axioms of {len(mod.THEOREMS)} theorems>"
    if getattr(mod, "NEEDS_GEN", False):
        import translate
        try:
            notes = translate.generate()
            ctx.extra["translator"] = notes
        except translate.ShapeNotRecognised as e:
            ctx.obligation_broken("translator: source shape not recognised", str(e))
    # the theorems of this property (each module separately: a module that no longer builds only
    # takes its own theorems down)
    built = []
    for t in targets:
        ok_t, out = core.lake_build([t])
        if ok_t:
            built.append(t)
        else:
            ctx.obligation_broken(f"lake build {t}", out)
    ok = bool(built)
    # the executable model driver
    okd, outd = core.lake_build(["aiudrv"])
    if not okd:
        ctx.obligation_broken("lake build aiudrv (executable models)", outd)
    ctx.driver = core.Driver()
    if not okd:
        ctx.driver.ok = False
    # audit
    if ok:
        res, raw = core.audit_axioms(ctx.id, built, mod.THEOREMS)
        ctx.obligations = res
        for name, ax in res.items():
            if ax is None:
                ctx.obligation_broken(f"theorem {name} not found in the built environment", raw)
            elif not set(ax) <= core.ALLOWED_AXIOMS:
                ctx.obligation_broken(f"theorem {name} depends on axioms outside the allowed set: {ax}", raw)
    else:
        ctx.obligations = {t: None for t in mod.THEOREMS}
    hits = core.forbidden_tokens()
    if hits:
        ctx.obligation_broken("forbidden tokens in Lean sources", "\n".join(hits))
    if ctx.tier == "thorough" and ok and os.environ.get("VERIF_LEANCHECKER", "1") == "1":
        with core.lean_lock():
            rc, o = core._run(["lake", "env", "leanchecker", *built], cwd=core.LEAN, timeout=3600)
        ctx.extra["leanchecker"] = "ok" if rc == 0 else "FAILED"
        if rc != 0:
            ctx.obligation_broken("leanchecker re-check of the compiled theorems", o)
    return checker_cmd


def _shrink(mod, ctx, case, classifier):
    """mod.shrink with the early stop switched off (shrinking probes the oracle many times on purpose)"""
    core.EARLY_STOP[0] = False
    try:
        return mod.shrink(ctx, case, classifier)
    finally:
        core.EARLY_STOP[0] = True


def decide(ctx: Ctx, mod) -> int:
    """apply the verdict logic; prints KNOWN-FINDING / VIOLATION lines; returns exit code"""
    rc = 0
    for cls, hit in ctx.known_hits.items():
        print(f"KNOWN-FINDING: property={ctx.id} {hit['finding'].get('what', cls)} [{cls}; {hit['count']} case(s) this run]")
    if ctx.violations:
        v = ctx.violations[0]
        case = v["case"]
        if hasattr(mod, "shrink"):
            try:
                case = _shrink(mod, ctx, case, v["classifier"])
            except Exception:
                pass
        path = core.write_replay(ctx, {"kind": "oracle-violation-on-real-code", "classifier": v["classifier"],
                                       "desc": v["desc"], "case": case,
                                       "other_violations": [x["desc"] for x in ctx.violations[1:6]],
                                       "broken": [{"kind": b["kind"], "what": b["what"]} for b in ctx.broken]})
        print(f"VIOLATION property={ctx.id} replay={path}")
        return 1
    if ctx.broken:
        # a proof obligation or the correspondence no longer checks: search the real code for a failing input
        found = None
        if hasattr(mod, "run"):
            ctx.search_mode = True
            before = len(ctx.violations)
            try:
                # seed the search with the disagreeing cases, then a wider sweep
                for b in ctx.broken:
                    if b["kind"] == "correspondence" and hasattr(mod, "oracle_on_case") and b.get("case") is not None:
                        mod.oracle_on_case(ctx, b["case"])
                if len(ctx.violations) == before:
                    mod.run(ctx)
            except core.Enough as ex:
                ctx.notes.append(str(ex))
            except Infra:
                raise
            except Exception:
                ctx.notes.append("failing-input search raised: " + traceback.format_exc()[-500:])
            if len(ctx.violations) > before:
                found = ctx.violations[before]
        if found:
            case = found["case"]
            if hasattr(mod, "shrink"):
                try:
                    case = _shrink(mod, ctx, case, found["classifier"])
                except Exception:
                    pass
            path = core.write_replay(ctx, {"kind": "failing-input-after-broken-obligation",
                                           "classifier": found["classifier"], "desc": found["desc"], "case": case,
                                           "broken": ctx.broken[:5]})
            print(f"VIOLATION property={ctx.id} replay={path}")
        else:
            path = core.write_replay(ctx, {"kind": "no-longer-checks",
                                           "no_longer_checks": [b["what"] for b in ctx.broken],
                                           "broken": ctx.broken[:5]})
            print(f"VIOLATION property={ctx.id} replay={path} no-failing-input-found")
        return 1
    return rc


def main() -> int:
    ap = argparse.ArgumentParser()
    ap.add_argument("prop")
    ap.add_argument("--tier", default=os.environ.get("VERIF_TIER", "quick"), choices=["quick", "thorough"])
    ap.add_argument("--replay", default=None)
    ap.add_argument("--selftest", action="store_true")
    a = ap.parse_args()
    seed = int(os.environ.get("VERIF_SEED", "0") or 0)
    pid = a.prop.upper()
    silence_repo_logging()
    mod = importlib.import_module(f"props.{pid.lower()}")
    ctx = Ctx(pid, a.tier, seed)
    try:
        if a.replay:
            ctx.driver = core.Driver()
            payload = json.loads((core.ROOT / a.replay).read_text() if not os.path.isabs(a.replay) else Path(a.replay).read_text())
            case = payload.get("case")
            if case is None:
                print("replay file names obligations that no longer check:", payload.get("no_longer_checks"))
                return 1
            mod.oracle_on_case(ctx, case, verbose=True)
            if ctx.violations or ctx.known_hits:
                for v in ctx.violations:
                    print("REPRODUCED:", v["classifier"], v["desc"])
                for k in ctx.known_hits:
                    print("REPRODUCED (known finding):", k)
                return 1
            print("not reproduced on the current tree")
            return 0
        checker_cmd = lean_phase(ctx, mod)
        try:
            mod.run(ctx)
        except core.Enough as ex:
            ctx.notes.append(str(ex))
        except Infra:
            raise
        except Exception:
            # the harness could not interpret what the implementation did (output of a shape no run of the unchanged
            # tree produces): the correspondence no longer checks
            ctx.broken.append({"kind": "correspondence", "case": None,
                               "what": "the harness could not interpret the implementation's behaviour",
                               "detail": traceback.format_exc()[-3000:]})
        rc = decide(ctx, mod)
        core.write_evidence(ctx, mod, violations=(1 if rc == 1 else 0), checker_cmd=checker_cmd)
        print(f"[{pid}] tier={a.tier} seed={seed} obligations={len(ctx.obligations)} "
              f"discharged={sum(1 for v in ctx.obligations.values() if v is not None and set(v) <= core.ALLOWED_AXIOMS)} "
              f"cases={ctx.evaluations} nontrivial={len(ctx.nontrivial)} compared={ctx.compared} "
              f"disagreements={ctx.disagreements} wall={time.time()-ctx.t0:.1f}s rc={rc}")
        return rc
    except Infra as e:
        print(f"INFRA-ERROR property={pid}: {e}", file=sys.stderr)
        return 2
    except subprocess_timeout() as e:  # pragma: no cover
        print(f"TIMEOUT property={pid}: {e}", file=sys.stderr)
        return 2


def subprocess_timeout():
    import subprocess
    return subprocess.TimeoutExpired


if __name__ == "__main__":
    sys.exit(main())
