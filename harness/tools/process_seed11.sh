#!/bin/bash
# process_seed5.sh <Cxx> <A|B> [extra checks...] : eleventh wave (two simple changes per property, delivered as
# /tmp/mut11/<Cxx>/<A|B>/{patch.diff,demo.py,meta.json} on a clean worktree): verify, then run the checks
P=$1; X=$2; shift; shift
W=/tmp/mut11/$P
echo "=== $P/$X"
( cd $W && git checkout -q -- src && git apply $X/patch.diff && cp $X/demo.py $X/meta.json $X/patch.diff . ) || { echo "cannot apply"; exit 2; }
/verif/harness/tools/verify_seed.sh $W 2>&1 | grep -v conda | grep "exit=\|passed\|failed" | tr '\n' ' '; echo
/verif/harness/tools/try_seed_iso.sh $W/$X/patch.diff $P "$@" 2>&1 | grep -v "conda\|KNOWN" | cut -c1-220
