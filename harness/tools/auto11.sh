#!/bin/bash
# auto5.sh <Cxx> ... : process both fifth-wave changes of each property; keep the ones caught at once
for P in "$@"; do
  for X in A B; do
    [ -f /tmp/mut11/$P/$X/patch.diff ] || { echo "=== $P/$X missing"; continue; }
    out=$(/verif/harness/tools/process_seed11.sh $P $X 2>&1); echo "$out"
    if echo "$out" | grep -q "exit=1 exit=0" && echo "$out" | grep -q "VIOLATION property=$P"; then
      slug=$(python3 -c "import json,re,sys; m=json.load(open('/tmp/mut11/$P/$X/meta.json')); s=re.sub(r'[^a-z0-9]+','-',m['summary'].lower())[:48].strip('-'); print('w11'+'$X'.lower()+'-'+s)")
      /verif/harness/tools/keep11.sh $P $X "$slug" "eleventh wave (a mechanism, site and input situation none of the earlier seeds uses): caught at once by the quick check of $P ($(echo "$out" | grep '^\[C' | head -1 | grep -o 'disagreements=[0-9]*'))" | tail -1
    else
      echo "!!! $P/$X NOT kept automatically"
    fi
  done
done
