#!/bin/bash
# verify_seed.sh <mutation worktree> : confirm suite passes with the change, demo fails with it and passes without it
set -u
W=$1
cd "$W" || exit 2
git diff -- src > patch.diff.check
echo "== suite with change"; PYTHONPATH=$W/src /venv/bin/python -m pytest -q -p no:cacheprovider --timeout=900 2>&1 | tail -1
echo "== demo with change"; PYTHONPATH=$W/src /venv/bin/python demo.py > demo.with.out 2>&1; echo "exit=$?"; tail -3 demo.with.out
git diff -- src > .vs.diff; git apply -R .vs.diff
echo "== demo without change"; PYTHONPATH=$W/src /venv/bin/python demo.py > demo.without.out 2>&1; echo "exit=$?"; tail -2 demo.without.out
git apply .vs.diff
git diff --stat -- src | tail -1
