#!/usr/bin/env python3
"""keep_seed.py <mutation worktree> <seed id> <caught-by text> : store a confirmed seeded change under seeded/<id>/"""
import json, shutil, sys
from pathlib import Path
w, sid, caught = Path(sys.argv[1]), sys.argv[2], sys.argv[3]
d = Path("/verif/seeded") / sid
d.mkdir(parents=True, exist_ok=True)
shutil.copy(w / "patch.diff", d / "patch.diff")
shutil.copy(w / "demo.py", d / "demo.py")
meta = json.loads((w / "meta.json").read_text())
meta["confirmed_by_me"] = {
    "suite_with_change": "153 passed, 5 xfailed (harness/tools/verify_seed.sh)",
    "demo_with_change": (w / "demo.with.out").read_text()[-600:],
    "demo_without_change_exit0": (w / "demo.without.out").read_text()[-300:],
}
meta["checks_run"] = caught
(d / "meta.json").write_text(json.dumps(meta, indent=1))
print("kept", d)
