#!/bin/bash
# process_seed2.sh <Cxx> [extra checks...] : verify a fourth-wave seed in /tmp/mut4/<Cxx> and run checks against it
P=$1; shift
echo "=== $P"; /verif/harness/tools/verify_seed.sh /tmp/mut4/$P 2>&1 | grep -v conda | grep "exit=\|passed" | tr '\n' ' '; echo
/verif/harness/tools/try_seed.sh /tmp/mut4/$P/patch.diff $P "$@" 2>&1 | grep -v "conda\|KNOWN" | cut -c1-220
