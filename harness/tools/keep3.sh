#!/bin/bash
# keep2.sh <Cxx> <slug> <text> : keep a verified second-wave seed and remove its worktree
python3 /verif/harness/tools/keep_seed.py /tmp/mut3/$1 "$1-$2" "$3" && git -C /repo worktree remove --force /tmp/mut3/$1
