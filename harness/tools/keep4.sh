#!/bin/bash
# keep2.sh <Cxx> <slug> <text> : keep a verified fourth-wave seed and remove its worktree
python3 /verif/harness/tools/keep_seed.py /tmp/mut4/$1 "$1-$2" "$3" && git -C /repo worktree remove --force /tmp/mut4/$1
