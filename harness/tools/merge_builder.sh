#!/bin/bash
# merge_builder.sh <branch> <Cxx> [<Cyy>...] : merge a builder branch, regenerate generated files, build, run quick checks
set -u
B=$1; shift
cd /verif
git merge -q --no-edit "$B" 2>&1 | tail -3
/venv/bin/python harness/mkroot.py | tail -1
(cd lean && lake build 2>&1 | grep -v conda | grep -E "error|Build completed" | head -5)
for c in "$@"; do /venv/bin/python harness/check.py $c --tier quick 2>&1 | grep -E "VIOLATION|KNOWN-FINDING|^\[C|INFRA|Traceback" | cut -c1-300; done
/venv/bin/python harness/mkmanifest.py 2>&1 | grep -v conda
python3-vt - <<'PY'
import json,jsonschema,glob
m=json.load(open('/verif/MANIFEST.json')); jsonschema.validate(m, json.load(open('/root/.vp/MANIFEST.schema.json')))
s=json.load(open('/root/.vp/EVIDENCE.schema.json'))
for c in m['checks']:
    try: jsonschema.validate(json.load(open('/verif/'+c['evidence_file'])), s)
    except Exception as e: print('EVIDENCE INVALID', c['property_id'], str(e)[:200])
print('manifest+evidence valid')
PY
