#!/bin/bash
# ref_sweep.sh <dir with refactor_*.diff> ... : run every quick check against each behaviour-preserving
# refactoring (scratch worktree of /repo + AIU_REPO); for `vp run` (builds the snapshot's Lean project first)
cd "$(dirname "$0")/../.."
(cd lean && lake build 2>&1 | grep -E "error|Build completed" | head -3)
IDS=$(python3 -c "import json; print(' '.join(c['property_id'] for c in json.load(open('MANIFEST.json'))['checks']))")
for d in "$@"; do
  for f in $d/refactor_*.diff; do
    W=/tmp/refw_$$; git -C /repo worktree add -q --detach $W
    if ( cd $W && git apply "$f" ); then
      echo "### $f"
      for c in $IDS; do
        out=$(AIU_REPO=$W timeout 1800 /venv/bin/python harness/check.py $c --tier quick 2>&1); rc=$?
        [ $rc -ne 0 ] && { echo "$c rc=$rc"; echo "$out" | grep -E "VIOLATION|INFRA|Traceback|^\[C" | head -4; }
      done
      echo "done $f"
    else echo "### $f DOES NOT APPLY"; fi
    git -C /repo worktree remove --force $W
  done
done
