#!/bin/bash
# try_seed.sh <patch.diff> <Cxx> [<Cyy> ...] : apply the change to a SCRATCH worktree of /repo (never to
# /repo itself: other checks may be importing it), run the quick checks against it via AIU_REPO, clean up.
set -u
P=$(readlink -f "$1"); shift
W=/tmp/seedtry_$$
git -C /repo worktree add -q --detach $W || exit 2
( cd $W && git apply "$P" ) || { echo "patch does not apply"; git -C /repo worktree remove --force $W; exit 2; }
cd /verif
BK=$(mktemp -d); cp -a evidence/. $BK/    # evidence of a run against a seeded change must not replace the committed one
for c in "$@"; do
  AIU_REPO=$W /venv/bin/python harness/check.py $c --tier quick 2>&1 | grep -E "VIOLATION|KNOWN-FINDING|^\[C|INFRA|Traceback"
done
cp -a $BK/. evidence/; rm -rf $BK
git -C /repo worktree remove --force $W
# the generated Lean data must describe /repo again
/venv/bin/python harness/translate.py >/dev/null 2>&1
