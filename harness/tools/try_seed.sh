#!/bin/bash
# try_seed.sh <patch.diff> <Cxx> [<Cyy> ...] : apply to /repo, run the quick checks, always revert
set -u
P=$1; shift
cd /repo && git apply "$P" || { echo "patch does not apply"; exit 2; }
cd /verif
BK=$(mktemp -d); cp -a evidence/. $BK/    # evidence of a run against a seeded change must not replace the committed one
for c in "$@"; do
  /venv/bin/python harness/check.py $c --tier quick 2>&1 | grep -E "VIOLATION|KNOWN-FINDING|^\[C|INFRA|Traceback" 
done
git -C /repo checkout -- . ; git -C /repo status --short | head -3
cp -a $BK/. evidence/; rm -rf $BK
