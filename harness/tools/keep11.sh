#!/bin/bash
# keep5.sh <Cxx> <A|B> <slug> <text> : keep a verified fifth-wave seed (worktree stays until both are processed)
python3 /verif/harness/tools/keep_seed.py /tmp/mut11/$1 "$1-$3" "$4" && ( cd /tmp/mut11/$1 && git checkout -q -- src && rm -f demo.py meta.json patch.diff demo.with.out demo.without.out patch.diff.check .vs.diff )
