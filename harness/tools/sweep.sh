#!/bin/bash
# sweep.sh <tier> <seed...> : run every claimed check for the given seeds; print one line per run
# (for `vp run`: builds the Lean project of the snapshot first)
TIER=$1; shift
cd "$(dirname "$0")/../.."
(cd lean && lake build 2>&1 | grep -E "error|Build completed" | head -3)
IDS=$(python3 -c "import json; print(' '.join(c['property_id'] for c in json.load(open('MANIFEST.json'))['checks']))")
for s in "$@"; do
  for c in $IDS; do
    out=$(VERIF_SEED=$s timeout 3600 /venv/bin/python harness/check.py $c --tier $TIER 2>&1); rc=$?
    echo "seed=$s $c rc=$rc $(echo "$out" | grep -E '^\[C' | tail -1)"
    echo "$out" | grep -E "VIOLATION|INFRA|Traceback" | head -3
  done
done
