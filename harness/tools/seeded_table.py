#!/usr/bin/env python3
"""print the markdown table of the seeded changes kept under seeded/ (for DESIGN.md 11.7)"""
import json
from pathlib import Path
rows = []
for d in sorted(Path("/verif/seeded").iterdir()):
    m = json.loads((d / "meta.json").read_text())
    first = "MISSED at first" if ("MISSED" in m.get("checks_run", "") or "first run" in m.get("checks_run", "")
                                  or "caught after" in m.get("checks_run", "")) else "caught at once"
    rows.append(f"| `{d.name}` | {m['summary'][:230].replace('|', '/')} | {first} | {m.get('checks_run', '')[:420].replace('|', '/')} |")
print("| seeded/<id> | what the change does | first run | outcome / what was strengthened |")
print("|---|---|---|---|")
print("\n".join(rows))
