#!/bin/bash
# pk9.sh <Cxx> <A|B> <slug> <text> : process a eleventh-wave seed and keep it when the property's check reports it
out=$(/verif/harness/tools/process_seed11.sh $1 $2 2>&1); echo "$out"
if echo "$out" | grep -q "^VIOLATION property=$1 " && echo "$out" | grep -q "exit=1 exit=0"; then
  /verif/harness/tools/keep11.sh $1 $2 "$3" "$4" | tail -1
else echo "NOT kept"; fi
