#!/bin/bash
# ref_sweep_all.sh [-P n] : all archived refactorings (refactorings/*.diff), n at a time (default 4)
cd "$(dirname "$0")/../.."
P=4; [ "$1" = "-P" ] && P=$2
(cd lean && lake build 2>&1 | grep -E "error|Build completed" | head -3)
ls refactorings/*.diff | xargs -P $P -n 1 harness/tools/ref_one.sh
