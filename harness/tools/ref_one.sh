#!/bin/bash
# ref_one.sh <refactoring.diff> : every quick check against one behaviour-preserving refactoring (scratch worktree)
cd "$(dirname "$0")/../.."
SRC=$PWD
# private copy of the machinery: translate / lake build / evidence of concurrent workers must not interfere
V=/tmp/vw_$$; rm -rf $V; mkdir -p $V
rsync -a --exclude .git --exclude seeded --exclude refactorings --exclude replays --exclude design_probes $SRC/ $V/
trap 'rm -rf $V' EXIT
f=$(readlink -f "$1"); tag=$(basename $f .diff)
cd $V
IDS=$(python3 -c "import json; print(' '.join(c['property_id'] for c in json.load(open('MANIFEST.json'))['checks']))")
W=/tmp/refw_${tag}_$$; git -C /repo worktree add -q --detach $W || exit 2
res=""
if ( cd $W && git apply "$f" ); then
  for c in $IDS; do
    out=$(AIU_REPO=$W timeout 2400 /venv/bin/python harness/check.py $c --tier quick 2>&1); rc=$?
    [ $rc -ne 0 ] && res="$res $c(rc=$rc$(echo "$out" | grep -q no-failing-input-found && echo ,no-failing-input-found))"
  done
  echo "ref $tag alarms:${res:- none}"
else echo "ref $tag DOES NOT APPLY"; fi
git -C /repo worktree remove --force $W
