#!/bin/bash
# seed_one.sh <seeded/<id>> : one kept seeded change against the quick check of its property
cd "$(dirname "$0")/../.."
SRC=$PWD
# private copy of the machinery: translate / lake build / evidence of concurrent workers must not interfere
V=/tmp/vw_$$; rm -rf $V; mkdir -p $V
rsync -a --exclude .git --exclude seeded --exclude refactorings --exclude replays --exclude design_probes $SRC/ $V/
trap 'rm -rf $V' EXIT
d=$(readlink -f ${1%/}); id=$(basename $d); P=${id%%-*}
cd $V
W=/tmp/sreg_${id:0:40}_$$; git -C /repo worktree add -q --detach $W || exit 2
if ( cd $W && git apply "$d/patch.diff" 2>/dev/null ); then
  out=$(AIU_REPO=$W timeout 2400 /venv/bin/python harness/check.py $P --tier quick 2>&1); rc=$?
  v=$(echo "$out" | grep -c "^VIOLATION property=$P")
  nf=$(echo "$out" | grep -c "no-failing-input-found")
  w=$(echo "$out" | grep -o "wall=[0-9.]*s" | tail -1)
  if [ $v -ge 1 ]; then echo "caught $id rc=$rc $w $([ $nf -ge 1 ] && echo no-failing-input-found)"; else echo "MISSED $id rc=$rc $w"; fi
else echo "NOAPPLY $id"; fi
git -C /repo worktree remove --force $W
