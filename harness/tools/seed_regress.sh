#!/bin/bash
# seed_regress.sh [<Cxx> ...] : every kept seeded change against the quick check of its property (scratch worktree +
# AIU_REPO, /repo untouched); prints one line per seed, "MISSED" when the check stays green.  For `vp run`.
cd "$(dirname "$0")/../.."
(cd lean && lake build 2>&1 | grep -E "error|Build completed" | head -3)
sel="$*"
for d in seeded/*/; do
  id=$(basename $d); P=${id%%-*}
  [ -n "$sel" ] && ! echo " $sel " | grep -q " $P " && continue
  W=/tmp/sreg_$$; git -C /repo worktree add -q --detach $W || exit 2
  if ( cd $W && git apply "$OLDPWD/$d/patch.diff" 2>/dev/null ); then
    out=$(AIU_REPO=$W timeout 2400 /venv/bin/python harness/check.py $P --tier quick 2>&1); rc=$?
    v=$(echo "$out" | grep -c "^VIOLATION property=$P")
    nf=$(echo "$out" | grep -c "no-failing-input-found")
    w=$(echo "$out" | grep -o "wall=[0-9.]*s" | tail -1)
    if [ $v -ge 1 ]; then echo "caught $id rc=$rc $w $([ $nf -ge 1 ] && echo no-failing-input-found)"; else echo "MISSED $id rc=$rc $w"; fi
  else echo "NOAPPLY $id"; fi
  git -C /repo worktree remove --force $W
done
