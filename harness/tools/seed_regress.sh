#!/bin/bash
# seed_regress.sh [-P n] : every kept seeded change against the quick check of its property, n at a time (default 4);
# scratch worktrees + AIU_REPO, /repo untouched; one line per seed, "MISSED" when the check stays green.
cd "$(dirname "$0")/../.."
P=4; [ "$1" = "-P" ] && P=$2
(cd lean && lake build 2>&1 | grep -E "error|Build completed" | head -3)
ls -d seeded/*/ | xargs -P $P -n 1 harness/tools/seed_one.sh
