#!/bin/bash
# try_seed_iso.sh <patch.diff> <Cxx> [<Cyy> ...] : like try_seed.sh, but the checks run from a PRIVATE copy of the
# committed machinery (git archive HEAD + the build output), so that /verif's generated Lean data, evidence and
# work in progress are not touched while a seeded change is tried.
set -u
P=$(readlink -f "$1"); shift
W=/tmp/seedtry_$$; V=/tmp/vwiso_$$
git -C /repo worktree add -q --detach $W || exit 2
( cd $W && git apply "$P" ) || { echo "patch does not apply"; git -C /repo worktree remove --force $W; exit 2; }
mkdir -p $V && git -C /verif archive HEAD | tar -x -C $V --exclude=seeded --exclude=refactorings --exclude=design_probes
mkdir -p $V/lean/.lake && rsync -a /verif/lean/.lake/ $V/lean/.lake/
cd $V
for c in "$@"; do
  AIU_REPO=$W /venv/bin/python harness/check.py $c --tier quick 2>&1 | grep -E "VIOLATION|KNOWN-FINDING|^\[C|INFRA|Traceback"
done
cd /; rm -rf $V
git -C /repo worktree remove --force $W
