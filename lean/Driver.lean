/-
Line-protocol driver of the executable models: one request per line on stdin, one answer per
line on stdout.  Imports models only (no Mathlib) so it can be built as `lean_exe aiudrv`.
-/
import AiuVerif.Drv.C03

open AiuVerif

def dispatch (line : String) : String :=
  match words line.trimAscii.toString with
  | "c03" :: rest => Drv.C03.handle rest
  | _ => "bad-op"

partial def loop (h : IO.FS.Stream) (out : IO.FS.Stream) : IO Unit := do
  let line ← h.getLine
  if line.isEmpty then return ()
  out.putStrLn (dispatch line)
  loop h out

def main : IO Unit := do
  let stdin ← IO.getStdin
  let stdout ← IO.getStdout
  loop stdin stdout
  stdout.flush
