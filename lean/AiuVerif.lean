-- Root of the `AiuVerif` library: models, lemmas and property theorems.
import AiuVerif.Basic
import AiuVerif.Model.Engine
import AiuVerif.Lemmas.Engine
import AiuVerif.Props.C03
