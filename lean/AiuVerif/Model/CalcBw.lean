/-
`mp_calc_bw` + `MpCalcBwContext` (pipeline/mp_calc_bw.py): the collective-bandwidth stage that the
default counter set (`coll_bw`) registers.  It is a hold-all stage: the callback buffers a copy of
every event and returns `[]`; `drain()` sweeps the slices in order of their end time, synthesizes
`BW allreduce` / `BW all-pcie` counters for every completed all-reduce window and releases the
buffer back to front (`while all_events: revents += [all_events.pop()]`).

Modelled: `mp_gather_events`, `calc_bw` (the three-way branch, Python's `L[i-1]` with `i = 0`
meaning the LAST element, the `ZeroDivisionError` of an empty window, the `break` on an AllGather
group), `_gen_bw_counter_events`, `drain`.  Not modelled: `round(·, 3)` of the bandwidth value (the
model carries the exact quotient; the correspondence accepts any rounding of it to 3 decimals), the
`int()` conversion of a non-numeric `Bytes` entry, a non-string `CollGroup`.
Core Lean only.
-/
import AiuVerif.Basic
import AiuVerif.Model.PhaseName

namespace AiuVerif.CalcBw
open AiuVerif.PhaseName (hasSub)

/-- what the stage reads of an event (and what it writes into a synthesized counter) -/
structure BEv where
  uid : Option Nat              -- identity of an input event; `none` on synthesized counters
  ph : String
  pid : Int
  ts : Rat
  dur : Rat                     -- read only when `ph ∈ ["X", "b"]`
  hasArgs : Bool
  collGroup : Option String     -- `args["CollGroup"]`
  bytes : Option Int            -- `int(args["Bytes"])`
  name : String
  value : Option Rat := none    -- `args["Unit GBps"]` of a synthesized counter
deriving Repr, DecidableEq

def BEv.isXb (e : BEv) : Bool := e.ph == "X" || e.ph == "b"
def BEv.tsEnd (e : BEv) : Rat := e.ts + e.dur

/-- stable insertion behind every element whose key is not larger (`list.sort` is stable) -/
def ins (x : Rat × BEv) : List (Rat × BEv) → List (Rat × BEv)
  | [] => [x]
  | y :: ys => if x.1 < y.1 then x :: y :: ys else y :: ins x ys

/-- `all_events_w_ts_end.sort(key=lambda x: x[0])` -/
def sortEnd (l : List (Rat × BEv)) : List (Rat × BEv) := l.foldl (fun acc x => ins x acc) []

/-- `all_events_w_ts_end`: `(ts + dur, event)` of the buffered `X`/`b` events in arrival order -/
def withEnd (evs : List BEv) : List (Rat × BEv) :=
  (evs.filter BEv.isXb).map (fun e => (e.tsEnd, e))

/-- number of distinct pids of ALL buffered events (`len(self.proc_ids)`) -/
def np (evs : List BEv) : Nat := (evs.map (·.pid)).eraseDups.length

/-- sweep state of `calc_bw` -/
structure Sw where
  inColl : Bool := false
  gotBytes : Bool := false
  numBytes : Int := 0
  recvCount : Nat := 0
  tBeg : Rat := 0
  out : List BEv := []          -- synthesized counters in generation order
  stop : Bool := false          -- the `break`
deriving Repr

def counter (name : String) (ts v : Rat) : BEv :=
  { uid := none, ph := "C", pid := -1, ts := ts, dur := 0, hasArgs := true, collGroup := none,
    bytes := none, name := name, value := some v }

/-- `_gen_bw_counter_events` -/
def genCounters (tBeg tEnd reduceBw collBw : Rat) : List BEv :=
  [counter "BW allreduce" tBeg reduceBw, counter "BW allreduce" tEnd 0,
   counter "BW all-pcie" tBeg collBw, counter "BW all-pcie" tEnd 0]

/-- `num_bytes / (t_bw_end - t_bw_beg) / 1000` (GB/s with times in microseconds), before `round(·, 3)` -/
def reduceBw (numBytes : Int) (tBeg tEnd : Rat) : Rat := (numBytes : Rat) / (tEnd - tBeg) / 1000

def inAllReduce (e : BEv) : Bool :=
  e.isXb && e.hasArgs && (match e.collGroup with
    | some g => hasSub g "AllReduce_all_reduce_"
    | none => false)

def isAllGather (e : BEv) : Bool :=
  e.hasArgs && (match e.collGroup with
    | some g => hasSub g "AllGather"
    | none => false)

/-- one iteration of the `for i, (_ts_end, e_idx) in enumerate(...)` loop; `prev` is
`all_events_w_ts_end[i-1][0]` -/
def sweep1 (n : Nat) (prev : Rat) (e : BEv) (s : Sw) : Except String Sw :=
  if s.stop then .ok s
  else if inAllReduce e then
    let s1 := if !s.inColl then { s with tBeg := prev, inColl := true } else s
    let s2 := match (!s1.gotBytes && hasSub e.name "SenRdmaSend"), e.bytes with
      | true, some b => { s1 with numBytes := b, gotBytes := true }
      | _, _ => s1
    .ok (if hasSub e.name "SenRdmaRecv" then { s2 with recvCount := s2.recvCount + 1 } else s2)
  else if s.inColl && s.gotBytes && decide ((n : Int) - 1 < (s.recvCount : Int)) && e.isXb && e.hasArgs
      && e.collGroup.isNone && hasSub e.name " Cmpt Exec" then
    -- `t_bw_end = all_events_w_ts_end[i - 1][0]` is `prev`
    if prev - s.tBeg = 0 then .error "zerodiv"
    else
      .ok { s with out := s.out ++ genCounters s.tBeg prev (reduceBw s.numBytes s.tBeg prev)
                            (2 * ((n : Rat) - 1) * reduceBw s.numBytes s.tBeg prev),
                   inColl := false, gotBytes := false, numBytes := 0, recvCount := 0 }
  else if s.inColl && s.gotBytes && isAllGather e then .ok { s with stop := true }
  else .ok s

/-- the loop over the sorted list, `prev` threaded through (Python's `L[-1]` for the first element) -/
def sweep (n : Nat) : Rat → List (Rat × BEv) → Sw → Except String Sw
  | _, [], s => .ok s
  | prev, (k, e) :: rest, s =>
    match sweep1 n prev e s with
    | .error m => .error m
    | .ok s' => sweep n k rest s'

def lastKey (l : List (Rat × BEv)) : Rat :=
  match l.getLast? with
  | some x => x.1
  | none => 0

/-- `calc_bw`: the counters appended to `all_events` -/
def calcBw (evs : List BEv) : Except String (List BEv) :=
  let l := sortEnd (withEnd evs)
  match sweep (np evs) (lastKey l) l {} with
  | .error m => .error m
  | .ok s => .ok s.out

/-- `drain()`: everything buffered plus the synthesized counters, back to front -/
def drain (evs : List BEv) : Except String (List BEv) :=
  match calcBw evs with
  | .error m => .error m
  | .ok cs => .ok (evs ++ cs).reverse

/-- the callback: buffers, emits nothing -/
def step (buf : List BEv) (e : BEv) : List BEv × List BEv := (buf ++ [e], [])

end AiuVerif.CalcBw
