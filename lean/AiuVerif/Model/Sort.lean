/-
Model of pipeline/sort.py: EventSortingContext.sort / drain and the `sort_events` callback.

  sort(event):  events whose ph is not in `event_types` (when given) or that lack the primary sort
                key pass through at once; the others are appended to the queue of their lane
                (one single queue when `global_sort`, else one per (pid, tid-or-0)).
  drain():      every queue is sorted with Python's stable sort by the key tuple
                (rev_k * value_k, missing secondary keys count as 0.0); the queues are emitted one
                after the other in first-seen order.
Core Lean only.
-/
import AiuVerif.Basic
import AiuVerif.Model.Engine

namespace AiuVerif.Sort

/-- what the sort stage reads of an event (`uid` is the identity used by the harness) -/
structure SEv where
  uid : Nat
  accepted : Bool            -- ph ∈ event_types (or no restriction)
  pid : Int
  tid : Int                  -- 0 when the event has no tid
  vals : List (Option Rat)   -- value of each configured sort key, `none` = key absent
deriving Repr, DecidableEq

/-- Python tuple comparison `a <= b` for equal-length tuples of numbers -/
def lexLE : List Rat → List Rat → Bool
  | [], _ => true
  | _ :: _, [] => false
  | a :: as, b :: bs => if a < b then true else if b < a then false else lexLE as bs

/-- key tuple: `float(rev) * float(x[k] if k in x else 0.0)` -/
def keyOf (revs : List Int) (e : SEv) : List Rat :=
  (revs.zip e.vals).map fun p => (p.1 : Rat) * p.2.getD 0

def evLE (revs : List Int) (a b : SEv) : Bool := lexLE (keyOf revs a) (keyOf revs b)

/-- primary key present? (`_check_keys`) -/
def hasPrimary (e : SEv) : Bool :=
  match e.vals with
  | some _ :: _ => true
  | _ => false

def queued (e : SEv) : Bool := e.accepted && hasPrimary e

abbrev Lane := Int × Int

def laneOf (global : Bool) (e : SEv) : Lane := if global then (0, 0) else (e.pid, e.tid)

/-- queues in first-seen order (a Python dict keeps insertion order) -/
def insertQ (l : Lane) (e : SEv) : List (Lane × List SEv) → List (Lane × List SEv)
  | [] => [(l, [e])]
  | (l', q) :: rest => if l' = l then (l', q ++ [e]) :: rest else (l', q) :: insertQ l e rest

def stepQ (global : Bool) (qs : List (Lane × List SEv)) (e : SEv) :
    List (Lane × List SEv) × List SEv :=
  if queued e then (insertQ (laneOf global e) e qs, []) else (qs, [e])

def drainQ (revs : List Int) (qs : List (Lane × List SEv)) : List SEv :=
  (qs.map fun q => q.2.mergeSort (evLE revs)).flatten

/-- the registered stage: `sort_events` + its EventSortingContext -/
def sortStage (revs : List Int) (global : Bool) : RS SEv :=
  { σ := List (Lane × List SEv), s := [], step := stepQ global, drain := drainQ revs }

end AiuVerif.Sort
