/-
Model of the `ConcurrentPreps` counter (property C13).  Core Lean only.

Python modelled (src/aiu_trace_analyzer):
* `pipeline/cmpt_collection.py`
    - `QueueingCounterContext.update_queues`   → `updateQueues`
    - `QueueingCounterContext.create_counter`  → `createCounter`   (per-pid breakpoint lists kept in
      a dict; modelled as an association list in insertion order, `setQ` keeps the position of an
      existing key exactly like `dict.__setitem__`)
    - `QueueingCounterContext.make_events`     → `Out.counter pid t c`
    - `QueueingCounterContext.drain`           → `drain` (`dict.popitem()` = last inserted pid first)
    - `queueing_counter`                       → `stepEv`
* `pipeline/tools.py` `PipelineContextTool.get_dialect_of_event` / `is_category(event,
  "acc_compute_prep")` with the dialect entry `"is.name;Cmpt Prep$"` of `types.py` (identical in
  the FLEX and the TORCH table)              → `classify`, `isPrepName`
    - no `args`            → not Prep
    - `args` without `jobhash` → not Prep (the code prints an error and goes on)
    - unknown `jobhash`    → `KeyError` (re-raised by `GlobalIngestData.get_dialect`)
    - job registered without dialect → not Prep
    - (`name`, `ph`, `ts`, `pid` are always present: `EventProcessor.sanity_check` drops any
      other event before the first registered stage)
    - `re.search("Cmpt Prep$", name)`: `$` also matches before one trailing newline
* `event["ph"] in "X"` is a substring test: true for `"X"` and for the empty string.
* A selected event without `dur` raises `KeyError` (`event["ts"]+event["dur"]`).

The stage never looks at the order of its input: `updateQueues` is three `filter`s over the stored
list, so the model is total and equal to the code on unsorted / degenerate input as well; the
theorems of `Props/C13.lean` need the start-sorted hypothesis.
-/
import AiuVerif.Basic

namespace AiuVerif.Preps

/-- breakpoint `(time, number of Prep slices in flight from that time on)` -/
abbrev BP := Num × Nat

/-- `l[-1][1] if len(l) else d` -/
def lastVal (l : List BP) (d : Nat) : Nat :=
  match l.getLast? with
  | some x => x.2
  | none => d

/-- the optional new breakpoint at the start `s` -/
def headPart (mid : List BP) (s : Num) (lr : Nat) : List BP :=
  match mid with
  | [] => [(s, lr + 1)]
  | m :: _ => if s < m.1 then [(s, lr + 1)] else []

/-- the optional new breakpoint at the end `e` -/
def tailPart (post : List BP) (e : Num) (lo : Nat) : List BP :=
  match post with
  | [] => [(e, lo)]
  | p :: _ => if e < p.1 then [(e, lo)] else []

def bump (x : BP) : BP := (x.1, x.2 + 1)

/-- `update_queues(s, e, qid)` on the stored list `q`: `(ready_list, new_list)` -/
def updateQueues (q : List BP) (s e : Num) : List BP × List BP :=
  match q with
  | [] => ([], [(s, 1), (e, 0)])
  | _ :: _ =>
    let ready := q.filter (fun x => decide (x.1 < s))
    let lastReady := lastVal ready 0
    let mid := q.filter (fun x => decide (s ≤ x.1) && decide (x.1 < e))
    let post := q.filter (fun x => decide (e ≤ x.1))
    let lastOverlap := lastVal mid lastReady
    (ready, headPart mid s lastReady ++ mid.map bump ++ tailPart post e lastOverlap ++ post)

/-! ### single-rank sweep (what the theorems talk about) -/

/-- one Prep interval `(s, e)` arrives: emitted samples are appended, the queue is replaced -/
def sweepStep (st : List BP × List BP) (iv : Num × Num) : List BP × List BP :=
  let r := updateQueues st.1 iv.1 iv.2
  (r.2, st.2 ++ r.1)

/-- `(queue, emitted so far)` after a sequence of Prep intervals -/
def sweepFrom (st : List BP × List BP) (ivs : List (Num × Num)) : List BP × List BP :=
  ivs.foldl sweepStep st

/-- all samples of one rank: emitted while streaming, followed by the drained queue -/
def sweep (ivs : List (Num × Num)) : List BP :=
  let st := sweepFrom ([], []) ivs
  st.2 ++ st.1

/-- number of intervals in flight at `t`: `#{i | sᵢ ≤ t < eᵢ}` -/
def inFlight (ivs : List (Num × Num)) (t : Num) : Nat :=
  (ivs.filter (fun iv => decide (iv.1 ≤ t) && decide (t < iv.2))).length

/-! ### the stage with its per-pid dict -/

abbrev QS := List (Int × List BP)

/-- `self.queues[pid]` (after `if qid not in self.queues: self.queues[qid] = []`) -/
def getQ : QS → Int → List BP
  | [], _ => []
  | kv :: rest, pid => if kv.1 == pid then kv.2 else getQ rest pid

/-- `self.queues[pid] = q` : replace in place, or append a new key at the end -/
def setQ : QS → Int → List BP → QS
  | [], pid, q => [(pid, q)]
  | kv :: rest, pid, q => if kv.1 == pid then (pid, q) :: rest else kv :: setQ rest pid q

def createCounter (st : QS) (pid : Int) (s e : Num) : QS × List BP :=
  let r := updateQueues (getQ st pid) s e
  (setQ st pid r.2, r.1)

/-- how `get_dialect_of_event` ends for an event -/
inductive Dial where
  | noArgs | noJobhash | unknownJob | noDialect | flex | torch
  deriving DecidableEq, Repr

structure PEv where
  uid : Nat
  ph : String
  name : String
  pid : Int
  ts : Num
  dur : Option Num
  dial : Dial

inductive Out where
  | pass (uid : Nat)
  | counter (pid : Int) (t : Num) (c : Nat)
  deriving DecidableEq

/-- `re.search("Cmpt Prep$", name) is not None` -/
def isPrepName (n : String) : Bool :=
  n.endsWith "Cmpt Prep" || n.endsWith "Cmpt Prep\n"

/-- `PipelineContextTool.is_category(event, "acc_compute_prep")` -/
def classify (ev : PEv) : Except String Bool :=
  match ev.dial with
  | .noArgs => .ok false
  | .noJobhash => .ok false
  | .unknownJob => .error "keyerror"
  | .noDialect => .ok false
  | .flex | .torch => .ok (isPrepName ev.name)

/-- `event["ph"] in "X"` -/
def phX (ph : String) : Bool := ph == "X" || ph == ""

def counters (pid : Int) (l : List BP) : List Out := l.map (fun b => Out.counter pid b.1 b.2)

/-- `queueing_counter(event, ctx, {"keep_prep": keep})` -/
def stepEv (keep : Bool) (st : QS) (ev : PEv) : Except String (QS × List Out) :=
  if phX ev.ph then
    match classify ev with
    | .error e => .error e
    | .ok false => .ok (st, [Out.pass ev.uid])
    | .ok true =>
      match ev.dur with
      | none => .error "keyerror"
      | some d =>
        let r := createCounter st ev.pid ev.ts (ev.ts + d)
        .ok (r.1, (if keep then [Out.pass ev.uid] else []) ++ counters ev.pid r.2)
  else .ok (st, [Out.pass ev.uid])

def runFrom (keep : Bool) : QS → List PEv → Except String (QS × List Out)
  | st, [] => .ok (st, [])
  | st, ev :: rest =>
    match stepEv keep st ev with
    | .error e => .error e
    | .ok r1 =>
      match runFrom keep r1.1 rest with
      | .error e => .error e
      | .ok r2 => .ok (r2.1, r1.2 ++ r2.2)

/-- `while len(self.queues): pid, q = self.queues.popitem(); …` -/
def drain (st : QS) : List Out := st.reverse.flatMap (fun kv => counters kv.1 kv.2)

/-- everything that leaves the stage: streamed output followed by the drain -/
def runStage (keep : Bool) (evs : List PEv) : Except String (List Out) :=
  match runFrom keep [] evs with
  | .error e => .error e
  | .ok r => .ok (r.2 ++ drain r.1)

end AiuVerif.Preps
