/-
Model of `src/aiu_trace_analyzer/pipeline/stats.py` (C12):

* `calculate_stats`  — selection of the kernel slices (`ph == "X"` and `"Cmpt Exec" in name`), the
  `KeyError` branch (`float(event['args']['TSn'])` on missing counters, evaluated first), the
  `assert event_dur > 0.0` branch, digit masking `re.sub(r"[_-]\d+", "_[N]", name)`, grouping by
  `queue_hash(masked name, pid)` in first-seen (dict insertion) order, `update_min_ts` /
  `update_max_ts` with their initial values `1e30` / `0.0`;
* `StatsExtractionContext.calculate_stats_using_event_duration` — calls, total, mean, median, min, max
  (exact values: the `round(·, 3)` and the `%8.3f` printing are a tolerance of the correspondence;
  `statistics.stdev` is irrational, the model carries its square, the sample variance);
* `StatsExtractionContext.drain` — per pid (ascending) the groups stable-sorted by total, descending
  (`sorted(..., reverse=True)` keeps first-seen order among equal totals), share
  `total / total_times[pid] * 100`, and the active row `total, elapsed = max_ts - min_ts, start, end,
  total / elapsed * 100`.

The group key is the Python hash of `(masked name, pid)`; the model uses the pair itself (hash
injectivity is in the trusted base).  `\d` is modelled as an ASCII digit.  Core Lean only.
-/
import AiuVerif.Basic

namespace AiuVerif.Stats

/-! ### name classification -/

def isSep (c : Char) : Bool := c == '_' || c == '-'

def nextIsDigit : List Char → Bool
  | [] => false
  | d :: _ => d.isDigit

/-- `re.sub(r"[_-]\d+", "_[N]", ·)` as a left-to-right scan; `skip` = inside the digits of a match -/
def maskGo : Bool → List Char → List Char
  | _, [] => []
  | skip, c :: cs =>
    if skip && c.isDigit then maskGo true cs
    else if isSep c && nextIsDigit cs then '_' :: '[' :: 'N' :: ']' :: maskGo true cs
    else c :: maskGo false cs

def mask (name : String) : String := String.ofList (maskGo false name.toList)

def containsChars (pat : List Char) : List Char → Bool
  | [] => pat.isEmpty
  | c :: cs => pat.isPrefixOf (c :: cs) || containsChars pat cs

/-- `"Cmpt Exec" in name` -/
def isExecName (name : String) : Bool := containsChars "Cmpt Exec".toList name.toList

/-! ### events and kernel slices -/

/-- an event as `calculate_stats` reads it -/
structure SEv where
  ph : String
  name : String
  pid : Int
  ts : Rat
  dur : Rat
  /-- `args` carries TS1..TS5 in a form `float()` accepts -/
  tsOk : Bool

/-- a kernel slice that entered the statistics -/
structure Sl where
  name : String
  pid : Int
  ts : Rat
  dur : Rat

def isKernel (e : SEv) : Bool := e.ph == "X" && isExecName e.name

/-- the slices `calculate_stats` accepts, in stream order; the first offending kernel slice aborts the
run (`KeyError` is raised before the duration assertion is reached) -/
def select : List SEv → Except String (List Sl)
  | [] => .ok []
  | e :: es =>
    if isKernel e then
      if !e.tsOk then .error "keyerror"
      else if e.dur ≤ 0 then .error "assert"
      else
        match select es with
        | .ok sl => .ok (⟨e.name, e.pid, e.ts, e.dur⟩ :: sl)
        | .error x => .error x
    else select es

/-! ### grouping -/

abbrev Key := String × Int

def keyOf (s : Sl) : Key := (mask s.name, s.pid)

structure Grp where
  key : Key
  durs : List Rat

/-- `context.queues[qid]` lookup / creation, durations appended in arrival order -/
def insert : List Grp → Sl → List Grp
  | [], s => [⟨keyOf s, [s.dur]⟩]
  | g :: gs, s => if g.key = keyOf s then ⟨g.key, g.durs ++ [s.dur]⟩ :: gs else g :: insert gs s

def collect (sl : List Sl) : List Grp := sl.foldl insert []

/-! ### statistics of one group -/

def leRat (a b : Rat) : Bool := decide (a ≤ b)

def sortAsc (l : List Rat) : List Rat := l.mergeSort leRat

def mean (l : List Rat) : Rat := l.sum / (l.length : Rat)

/-- `statistics.median`: middle element, or the average of the two middle elements -/
def median (l : List Rat) : Rat :=
  let s := sortAsc l
  let n := s.length
  if n % 2 = 1 then s.getD (n / 2) 0 else (s.getD (n / 2 - 1) 0 + s.getD (n / 2) 0) / 2

/-- the square of `statistics.stdev` (sample variance, `n - 1` in the denominator); `0` for a single
call, where the code writes `stdev = 0.0` without calling `statistics.stdev` -/
def variance (l : List Rat) : Rat :=
  if l.length ≤ 1 then 0
  else (l.map (fun x => (x - mean l) * (x - mean l))).sum / ((l.length : Rat) - 1)

def minL (l : List Rat) : Rat := l.foldl min (l.headD 0)
def maxL (l : List Rat) : Rat := l.foldl max (l.headD 0)

/-! ### the two files -/

structure Row where
  pid : Int
  name : String
  calls : Nat
  total : Rat
  mean : Rat
  median : Rat
  min : Rat
  max : Rat
  share : Rat
  /-- StDev², exact -/
  var : Rat

structure ARow where
  pid : Int
  total : Rat
  elapsed : Rat
  start : Rat
  stop : Rat
  active : Rat

def insPid (p : Int) : List Int → List Int
  | [] => [p]
  | q :: qs => if p < q then p :: q :: qs else if p = q then q :: qs else q :: insPid p qs

/-- `sorted(dict keyed by pid)` -/
def pidsOf (l : List Int) : List Int := l.foldr insPid []

def groupsOf (gs : List Grp) (p : Int) : List Grp := gs.filter (fun g => g.key.2 = p)

/-- `total_times[pid]` -/
def pidTotal (gs : List Grp) (p : Int) : Rat := ((groupsOf gs p).map (fun g => g.durs.sum)).sum

def geTotal (a b : Grp) : Bool := decide (b.durs.sum ≤ a.durs.sum)

def mkRow (tot : Rat) (g : Grp) : Row :=
  { pid := g.key.2, name := g.key.1, calls := g.durs.length, total := g.durs.sum, mean := mean g.durs,
    median := median g.durs, min := minL g.durs, max := maxL g.durs, share := g.durs.sum / tot * 100,
    var := variance g.durs }

def rowsOfPid (gs : List Grp) (p : Int) : List Row :=
  ((groupsOf gs p).mergeSort geTotal).map (mkRow (pidTotal gs p))

def summaryRows (gs : List Grp) : List Row :=
  (pidsOf (gs.map (fun g => g.key.2))).flatMap (rowsOfPid gs)

/-- `update_min_ts` over the slices of `p` (initial value `1e30`) -/
def minTs (sl : List Sl) (p : Int) : Rat :=
  ((sl.filter (fun s => s.pid = p)).map (fun s => s.ts)).foldl min ((10 : Rat) ^ 30)

/-- `update_max_ts` over the slices of `p` (initial value `0.0`) -/
def maxTs (sl : List Sl) (p : Int) : Rat :=
  ((sl.filter (fun s => s.pid = p)).map (fun s => s.ts + s.dur)).foldl max 0

def mkARow (sl : List Sl) (gs : List Grp) (p : Int) : ARow :=
  let tot := ((rowsOfPid gs p).map (fun r => r.total)).sum
  let el := maxTs sl p - minTs sl p
  { pid := p, total := tot, elapsed := el, start := minTs sl p, stop := maxTs sl p, active := tot / el * 100 }

def activeRows (sl : List Sl) (gs : List Grp) : List ARow :=
  (pidsOf (gs.map (fun g => g.key.2))).map (mkARow sl gs)

structure Out where
  rows : List Row
  active : List ARow

def outOf (sl : List Sl) : Out := ⟨summaryRows (collect sl), activeRows sl (collect sl)⟩

/-- the stage from the first event to the two files written by `drain` -/
def run (evs : List SEv) : Except String Out :=
  match select evs with
  | .ok sl => .ok (outOf sl)
  | .error x => .error x

end AiuVerif.Stats
