/-
Model of the collective-call flow stages (property C09):

  pipeline/coll_group.py
    flow_prepare_event_data            → `prepare`   (name functions `stripBytes`, `isSendData`,
                                                      `recvPeer`, `syncTag`, `typeCode`, `parsePeers`)
    CollectiveGroupingContext.insert   → `insert`
      .group_candidates                → `candidates`
      .detect_final                    → `detectFinal` (`sgStep`, `sgFold`)
      .check_drop_group                → `checkDrop`
      .find_recv_partner               → `findPartner`
      .create_flow_events_from_pair    → `mkS`, `mkF`
      .build_flows                     → `buildFlows`   (with `build_coll_event = False`, the `--flow` default)
      .drain                           → `drainGroups`
    flow_extraction                    → `extractStep`
    flow_data_cleanup                  → `cleanup`
  core/acelyzer.py registers  flow_prepare_event_data → flow_extraction → … → flow_data_cleanup ;
  `runFlow` is the batch composition of the three (engine = batch composition: C03 `run_eq_runSpec`).

Conventions.  A Python dict event is `Ev`; the four top-level keys that `flow_prepare_event_data`
adds to the helper copy (`cat`/`sync`/`Peers`/`Type`) travel together in `hlp` (the code asserts all
of them before emitting the helper).  `self.queues` (an insertion-ordered dict keyed by
`hash(CollGroup)`) is an association list in insertion order; `hash` is assumed injective on the
strings met (trusted base).  Every `assert` / `KeyError` / `ValueError` / `IndexError` on a modelled
path is an `Err` branch.  `drain` of the real code loops forever if a group is neither final nor
stale against `1e30`; that branch is `Err.hang`.  Not modelled: `-R` (`build_coll_event`), the
`_FLOW_STEP` / `_FLOW_IO` / `jobhash` keys (copied, never read on the modelled path), logging,
reverse-flow statistics.  Core Lean only.
-/
import AiuVerif.Basic

namespace AiuVerif.Flow

inductive Err where
  | assert | key | value | index | hang
  deriving DecidableEq, Repr

def Err.show : Err → String
  | .assert => "err:assert"
  | .key => "err:key"
  | .value => "err:value"
  | .index => "err:index"
  | .hang => "err:hang"

/-! ### events -/

inductive PeerItem where
  | s (v : String)
  | i (v : Int)
  deriving DecidableEq, Repr

/-- the value stored under `args["Peer"]` / `args["Peers"]` -/
inductive PeerVal where
  | str (v : String)
  | list (v : List PeerItem)
  | int (v : Int)
  deriving DecidableEq, Repr

structure Args where
  peer : Option PeerVal := none
  peers : Option PeerVal := none
  typ : Option String := none
  collGroup : Option String := none
  hasBytes : Bool := false
  jobhash : Option Int := none
  deriving DecidableEq, Repr

/-- the keys `flow_prepare_event_data` adds to the helper copy -/
structure Helper where
  cat : String
  sync : String
  peers : List Int
  typ : Nat
  deriving DecidableEq, Repr

structure Ev where
  ph : String
  pid : Int
  tid : Int
  ts : Rat
  dur : Option Rat
  name : String
  cat : Option String := none
  uid : Nat := 0
  args : Option Args := none
  hlp : Option Helper := none
  id : Option Nat := none
  bp : Option String := none
  deriving DecidableEq, Repr

def TYPE_NONE : Nat := 0
def TYPE_BCLIST : Nat := 1
def TYPE_SEND : Nat := 2
def TYPE_MCAST : Nat := 3
def TYPE_DONE : Nat := 4

/-! ### name functions (on `List Char`; names are assumed to contain no newline) -/

def isWs (c : Char) : Bool :=
  c == ' ' || c == '\t' || c == '\n' || c == '\r' || c == '\x0b' || c == '\x0c'

def isDig (c : Char) : Bool := '0' ≤ c && c ≤ '9'

/-- `l` starts with `p`: the rest -/
def dropPrefix? : List Char → List Char → Option (List Char)
  | l, [] => some l
  | [], _ :: _ => none
  | c :: l, d :: p => if c == d then dropPrefix? l p else none

def spanDigits : List Char → List Char × List Char
  | [] => ([], [])
  | c :: l => if isDig c then let r := spanDigits l; (c :: r.1, r.2) else ([], c :: l)

/-- match of `" \[(\d+[Bb])\]"` at the head: the rest after the match -/
def bytesTagAt (l : List Char) : Option (List Char) :=
  match dropPrefix? l [' ', '['] with
  | none => none
  | some r =>
    let d := spanDigits r
    if d.1.isEmpty then none else
    match d.2 with
    | b :: ']' :: rest => if b == 'B' || b == 'b' then some rest else none
    | _ => none

def hasBytesTag : List Char → Bool
  | [] => false
  | c :: l => (bytesTagAt (c :: l)).isSome || hasBytesTag l

/-- `_bytes_pattern.sub('', name)`: leftmost non-overlapping matches removed (fuel = length) -/
def stripBytesAux : Nat → List Char → List Char
  | 0, l => l
  | _, [] => []
  | n + 1, c :: l =>
    match bytesTagAt (c :: l) with
    | some rest => stripBytesAux n rest
    | none => c :: stripBytesAux n l

def stripBytes (s : String) : String :=
  let l := s.toList
  String.ofList (stripBytesAux (l.length + 1) l)

/-- first occurrence of `pat` in `l`: the text after it -/
def afterFirst (pat : List Char) : List Char → Option (List Char)
  | [] => if pat.isEmpty then some [] else none
  | c :: l =>
    match dropPrefix? (c :: l) pat with
    | some r => some r
    | none => afterFirst pat l

/-- everything before the last `]` of `l` -/
def uptoLastBracket : List Char → Option (List Char)
  | [] => none
  | c :: l =>
    match uptoLastBracket l with
    | some r => some (c :: r)
    | none => if c == ']' then some [] else none

/-- `_sync_pattern = " \[sync=(.*)\]"`, first match, group 1 (greedy up to the last `]`) -/
def syncTag (name : String) : Option String :=
  match afterFirst " [sync=".toList name.toList with
  | none => none
  | some r => (uptoLastBracket r).map String.ofList

/-- longest suffix of `l` (given reversed) whose characters satisfy `p`: (suffix reversed, rest reversed) -/
def spanRev (p : Char → Bool) : List Char → List Char × List Char
  | [] => ([], [])
  | c :: l => if p c then let r := spanRev p l; (c :: r.1, r.2) else ([], c :: l)

/-- `_send_data_pattern = 'Send[_\d]+ Data [^\s]+ DmaO$'` is found in the name -/
def isSendData (name : String) : Bool :=
  let r := name.toList.reverse
  match dropPrefix? r " DmaO".toList.reverse with
  | none => false
  | some r1 =>
    let t := spanRev (fun c => !isWs c) r1
    if t.1.isEmpty then false else
    match dropPrefix? t.2 " Data ".toList.reverse with
    | none => false
    | some r2 =>
      let u := spanRev (fun c => isDig c || c == '_') r2
      if u.1.isEmpty then false else (dropPrefix? u.2 "Send".toList.reverse).isSome

def digitsToNat (l : List Char) : Nat :=
  l.foldl (fun n c => 10 * n + (c.toNat - '0'.toNat)) 0

def recvAt (l : List Char) : Option Nat :=
  match l with
  | r :: e :: c :: v :: '_' :: rest =>
    if (r == 'R' || r == 'r') && (e == 'E' || e == 'e') && (c == 'C' || c == 'c') && (v == 'V' || v == 'v') then
      let d := spanDigits rest
      if d.1.isEmpty then none else
      match d.2 with
      | '_' :: _ => some (digitsToNat d.1)
      | _ => none
    else none
  | _ => none

def recvPeerL : List Char → Option Nat
  | [] => none
  | c :: l => match recvAt (c :: l) with
    | some n => some n
    | none => recvPeerL l

/-- `_recv_pattern = "[Rr][Ee][Cc][Vv]_(\d+)_"`, first match, as int -/
def recvPeer (name : String) : Option Nat := recvPeerL name.toList

/-- `_event_type_map[...]` (KeyError otherwise) -/
def typeCode (t : String) : Except Err Nat :=
  if t = "WDone Barrier" then pure TYPE_DONE
  else if t = "MultiCast" then pure TYPE_MCAST
  else if t = "MultiCast XSEG" then pure TYPE_SEND
  else if t = "SingleCast" then pure TYPE_SEND
  else if t = "Set BCList" then pure TYPE_BCLIST
  else throw .key

/-- are all `_` of the digit string single and between digits -/
def digitsUnderscoreOk : List Char → Bool
  | [] => false
  | [c] => isDig c
  | c :: d :: l =>
    if isDig c then digitsUnderscoreOk (d :: l)
    else if c == '_' then isDig d && digitsUnderscoreOk (d :: l) else false

def dropWsFront : List Char → List Char
  | [] => []
  | c :: l => if isWs c then dropWsFront l else c :: l

/-- Python `int(str)` on ASCII input: surrounding whitespace, optional sign, decimal digits with
single underscores between digits; anything else is a `ValueError`. -/
def pyInt? (s : String) : Option Int :=
  let l := (dropWsFront (dropWsFront s.toList).reverse).reverse
  let (neg, body) := match l with
    | '-' :: r => (true, r)
    | '+' :: r => (false, r)
    | r => (false, r)
  match body with
  | [] => none
  | c :: r =>
    if isDig c && digitsUnderscoreOk (c :: r) then
      let n : Int := digitsToNat ((c :: r).filter isDig)
      some (if neg then -n else n)
    else none

def peerItem (p : PeerItem) : Except Err Int :=
  match p with
  | .i v => pure v
  | .s v => match pyInt? v with
    | some n => pure n
    | none => throw .value

def parseItems : List PeerItem → Except Err (List Int)
  | [] => pure []
  | p :: ps => do
    let a ← peerItem p
    let as ← parseItems ps
    pure (a :: as)

def splitCommaL : List Char → List Char → List (List Char)
  | acc, [] => [acc.reverse]
  | acc, c :: l => if c == ',' then acc.reverse :: splitCommaL [] l else splitCommaL (c :: acc) l

/-- `str.split(',')` (structural, so that concrete histories reduce in the kernel) -/
def splitComma (s : String) : List String := (splitCommaL [] s.toList).map String.ofList

def parsePeers : PeerVal → Except Err (List Int)
  | .str v => parseItems ((splitComma v).map PeerItem.s)
  | .list v => parseItems v
  | .int v => pure [v]

/-- `x in "Xbe"` for a string `x` -/
def phInXbe (ph : String) : Bool :=
  ph = "" || ph = "X" || ph = "b" || ph = "e" || ph = "Xb" || ph = "be" || ph = "Xbe"

/-- `x in "F"` -/
def phInF (ph : String) : Bool := ph = "" || ph = "F"

/-! ### flow_prepare_event_data -/

/-- `event_updates`: the `[…B]` tags are removed from the name unless `args` has `Bytes` -/
def updName (e : Ev) (a : Args) : String :=
  if hasBytesTag e.name.toList && !a.hasBytes then stripBytes e.name else e.name

/-- `event_updates`: `args["Peers"] = args.pop("Peer")` -/
def updArgs (a : Args) : Args :=
  { a with peer := none, peers := match a.peer with | some p => some p | none => a.peers }

/-- the `args` of the event that is PASSED ON: as `updArgs`, except that a list already stored under `Peers` (the
peer union written by the communication summarization) is put back after the helper copy was taken -/
def updArgsOut (a : Args) : Args :=
  match a.peer, a.peers with
  | some _, some (.list v) => { a with peer := none, peers := some (.list v) }
  | _, _ => updArgs a

/-- the original event after `event_updates` (it is mutated in place and passed on) -/
def upd (e : Ev) (a : Args) : Ev := { e with name := updName e a, args := some (updArgs a) }

/-- the original event as it is passed on (mutated in place; the helper is a copy taken from `upd`) -/
def updOut (e : Ev) (a : Args) : Ev := { e with name := updName e a, args := some (updArgsOut a) }

/-- the `Peers` key of the helper: from `args`, `[]` for send-data names, from `Recv_<n>_` in the name, or absent -/
def helperPeers (name : String) (a' : Args) : Except Err (Option (List Int)) :=
  match a'.peers with
  | some pv => do let l ← parsePeers pv; pure (some l)
  | none =>
    if isSendData name then pure (some [])
    else match recvPeer name with
      | some n => pure (some [(n : Int)])
      | none => pure none

/-- `_event_type_map[args["Type"]]` if `Type` is in `args`, else `_TYPE_NONE` -/
def typeOf (a : Args) : Except Err Nat :=
  match a.typ with
  | none => pure TYPE_NONE
  | some t => typeCode t

/-- the keys added to the helper copy; `none`: the name has no sync tag, no helper is produced.
Order of the error branches as in the code: int() of the peers, (sync), Type lookup, jobhash, assert Peers. -/
def helperData (e : Ev) (a : Args) : Except Err (Option Helper) := do
  let name := updName e a
  let peers? ← helperPeers name (updArgs a)
  match syncTag name with
  | none => pure none
  | some sync =>
    let typ ← typeOf a
    if a.jobhash.isNone then throw .key else
    match peers? with
    | none => throw .assert
    | some ps => pure (some ⟨a.collGroup.getD "", sync, ps, typ⟩)

/-- the helper copy (`ph = "F"`, no `args`, `cat` = CollGroup) -/
def mkHelper (e' : Ev) (h : Helper) : Ev :=
  { e' with ph := "F", args := none, cat := some h.cat, hlp := some h }

def prepare (e : Ev) : Except Err (List Ev) :=
  if !phInXbe e.ph then pure [e] else
  match e.args with
  | none => pure [e]
  | some a => do
    match ← helperData e a with
    | none => pure [updOut e a]
    | some h => pure [updOut e a, mkHelper (upd e a) h]

def prepareAll : List Ev → Except Err (List Ev)
  | [] => pure []
  | e :: es => do
    let a ← prepare e
    let as ← prepareAll es
    pure (a ++ as)

/-! ### CollectiveGroupingContext -/

/-- a helper event with its mandatory keys resolved (what sits in a group queue) -/
structure Q where
  ev : Ev
  h : Helper
  dur : Rat
  deriving DecidableEq, Repr

structure Grp where
  key : String
  queue : List Q
  latest : Rat
  first : Rat
  deriving DecidableEq, Repr

structure St where
  groups : List Grp := []
  seq : Nat := 1000000
  thr : Rat := 5000000
  stale : Nat := 0
  deriving DecidableEq, Repr

def absR (q : Rat) : Rat := if q < 0 then -q else q
def maxR (a b : Rat) : Rat := if a < b then b else a   -- Python max(a, b): a unless b > a
def minR (a b : Rat) : Rat := if b < a then b else a   -- Python min(a, b): a unless b < a

/-- `isclose(first_ts, 0.0, abs_tol=1e-9)` -/
def closeToZero (q : Rat) : Bool := absR q ≤ 1 / 1000000000

/-- the per-group part of `insert` -/
def Grp.add (g : Grp) (q : Q) : Grp :=
  { g with
    queue := g.queue ++ [q]
    latest := maxR g.latest (q.ev.ts + q.dur)
    first := if closeToZero g.first then q.ev.ts
             else if q.h.typ = TYPE_SEND then minR g.first q.ev.ts else g.first }

def addTo (q : Q) : List Grp → List Grp
  | [] => [Grp.add { key := q.h.cat, queue := [], latest := 0, first := 0 } q]
  | g :: gs => if g.key = q.h.cat then g.add q :: gs else g :: addTo q gs

/-- `insert`: `event["cat"]` (KeyError), append, `assert dur > 0`, `event["Peers"]` (KeyError) -/
def toQ (e : Ev) : Except Err Q :=
  match e.hlp with
  | none =>
    -- an `F`/empty-`ph` event that did not come from `flow_prepare_event_data`
    if e.cat.isNone then throw .key
    else match e.dur with
      | none => throw .assert
      | some d => if d > 0 then throw .key else throw .assert
  | some h =>
    match e.dur with
    | none => throw .assert
    | some d => if d > 0 then pure ⟨e, h, d⟩ else throw .assert

/-- `group_candidates` -/
def candidates (ts : Rat) (gs : List Grp) : List String :=
  (gs.filter (fun g => g.latest < ts)).map (·.key)

/-! #### detect_final -/

structure SG where
  closed : Bool := false
  mcast : Bool := false
  opn : Nat := 0
  cls : Nat := 0
  peers : List Int := []
  deriving DecidableEq, Repr

def setAdd (s : List Int) (x : Int) : List Int := if x ∈ s then s else s ++ [x]

def setAddAll (s : List Int) : List Int → List Int
  | [] => s
  | x :: xs => setAddAll (setAdd s x) xs

def sgStep (s : SG) (q : Q) : SG :=
  let peers := setAddAll (setAdd s.peers q.ev.pid) q.h.peers
  let mcast0 := s.mcast || decide (peers.length > 2)
  let opn := if q.h.typ = TYPE_BCLIST then s.opn + q.h.peers.length
             else if q.h.typ = TYPE_MCAST then s.opn + 1
             else if q.h.typ = TYPE_SEND then s.opn + 1 else s.opn
  let mcast := mcast0 || decide (q.h.typ = TYPE_BCLIST) || decide (q.h.typ = TYPE_MCAST)
  let cls := if q.h.typ = TYPE_DONE then s.cls + 1 else s.cls
  let partners := peers.length
  let closed := decide (partners > 1) && decide (cls > 0) &&
    (if mcast then decide (2 * partners = opn + 1) && decide (cls + 1 = partners)
     else decide (opn > 0) && decide (cls + 1 = partners))
  { closed := closed, mcast := mcast, opn := opn, cls := cls, peers := peers }

/-- `sync_groups[hash(sync)] = …` : update in place, or append a new entry -/
def sgUpdate (q : Q) : List (String × SG) → List (String × SG)
  | [] => [(q.h.sync, sgStep {} q)]
  | (k, s) :: m => if k = q.h.sync then (k, sgStep s q) :: m else (k, s) :: sgUpdate q m

def sgFold (m : List (String × SG)) : List Q → List (String × SG)
  | [] => m
  | q :: qs => sgFold (sgUpdate q m) qs

def detectFinal (queue : List Q) : Bool :=
  let m := sgFold [] queue
  decide (m.length > 1) && m.all (fun p => p.2.closed)

/-! #### build_flows -/

/-- `find_recv_partner`: first queued event with `(sync, Type, pid) = (send.sync, DONE, send.Peers[0])` -/
def findPartner (sync : String) (peer : Int) : List Q → Option Q
  | [] => none
  | r :: rs => if r.h.sync = sync ∧ r.h.typ = TYPE_DONE ∧ r.ev.pid = peer then some r else findPartner sync peer rs

/-- the `s` event of `create_flow_events_from_pair` -/
def mkS (id : Nat) (src : Q) : Ev :=
  { src.ev with ph := "s", name := src.h.sync, id := some id, dur := none, hlp := none }

/-- the `f` event of `create_flow_events_from_pair` -/
def mkF (id : Nat) (src dst : Q) : Ev :=
  { dst.ev with ph := "f", name := src.h.sync, id := some id, bp := some "e",
                ts := dst.ev.ts + dst.dur - 1 / 1000, dur := none, hlp := none }

/-- the loop of `build_flows` over `rest`, partners searched in the whole `queue` -/
def buildLoop (queue : List Q) : Nat → List Q → Except Err (Nat × List Ev)
  | seq, [] => pure (seq, [])
  | seq, e :: rest =>
    if e.h.typ = TYPE_SEND then
      match e.h.peers with
      | [] => throw .index
      | p :: _ =>
        match findPartner e.h.sync p queue with
        | none => buildLoop queue seq rest
        | some r => do
          let (seq', out) ← buildLoop queue (seq + 1) rest
          pure (seq', mkS (seq + 1) e :: mkF (seq + 1) e r :: out)
    else buildLoop queue seq rest

def buildFlows (seq : Nat) (queue : List Q) : Except Err (Nat × List Ev) := buildLoop queue seq queue

/-- stable insertion sort by `ts` (`revents.sort(key=lambda e: e["ts"])`) -/
def insertTs (x : Ev) : List Ev → List Ev
  | [] => [x]
  | y :: ys => if x.ts ≤ y.ts then x :: y :: ys else y :: insertTs x ys

def sortTs : List Ev → List Ev
  | [] => []
  | x :: xs => insertTs x (sortTs xs)

/-! #### check_drop_group, flow_extraction, drain -/

def isStale (g : Grp) (thr ref : Rat) : Bool :=
  g.latest + 4 * maxR (g.latest - g.first) thr < ref

def findGrp (k : String) : List Grp → Option Grp
  | [] => none
  | g :: gs => if g.key = k then some g else findGrp k gs

def removeGrp (k : String) : List Grp → List Grp
  | [] => []
  | g :: gs => if g.key = k then gs else g :: removeGrp k gs

/-- the `for g in groups_complete` loop of `flow_extraction` -/
def candLoop (ref : Rat) : St → List String → Except Err (St × List Ev)
  | st, [] => pure (st, [])
  | st, k :: ks =>
    match findGrp k st.groups with
    | none => candLoop ref st ks
    | some g =>
      if detectFinal g.queue then do
        let (seq', out) ← buildFlows st.seq g.queue
        pure ({ st with groups := removeGrp k st.groups, seq := seq' }, sortTs out)
      else if isStale g st.thr ref then
        candLoop ref { st with groups := removeGrp k st.groups, stale := st.stale + 1 } ks
      else candLoop ref st ks

/-- `flow_extraction` on one event -/
def extractStep (st : St) (e : Ev) : Except Err (St × List Ev) :=
  if phInF e.ph then do
    let q ← toQ e
    let st1 := { st with groups := addTo q st.groups }
    candLoop e.ts st1 (candidates e.ts st1.groups)
  else pure (st, [e])

def extractStream : St → List Ev → Except Err (St × List Ev)
  | st, [] => pure (st, [])
  | st, e :: es => do
    let (st1, out) ← extractStep st e
    let (st2, outs) ← extractStream st1 es
    pure (st2, out ++ outs)

/-- `drain`: `drop_threshold = 0`; first group: final → flows (not sorted); else stale against 1e30 → dropped;
else the real loop never ends (`hang`) -/
def drainGroups : Nat → List Grp → Except Err (Nat × List Ev)
  | seq, [] => pure (seq, [])
  | seq, g :: gs =>
    if detectFinal g.queue then do
      let (seq1, out) ← buildFlows seq g.queue
      let (seq2, outs) ← drainGroups seq1 gs
      pure (seq2, out ++ outs)
    else if isStale g 0 (10 ^ 30) then drainGroups seq gs
    else throw .hang

/-- all of `flow_extraction` over a stream, then the context's `drain` -/
def extractAll (es : List Ev) : Except Err (List Ev) := do
  let (st, out) ← extractStream {} es
  let (_, outs) ← drainGroups st.seq st.groups
  pure (out ++ outs)

/-- `flow_data_cleanup` -/
def cleanup (es : List Ev) : List Ev := es.filter (fun e => e.ph ≠ "F")

/-- the three registered stages in registration order, batch semantics -/
def runFlow (input : List Ev) : Except Err (List Ev) := do
  let a ← prepareAll input
  let b ← extractAll a
  pure (cleanup b)

end AiuVerif.Flow
