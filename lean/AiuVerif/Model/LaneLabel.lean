/-
`RefinementContext._restore_pid_tid` (pipeline/tb_refinement.py), the tid part: torch-profiler inputs
may name a lane by a STRING tid (`"stream 11"`).  Ingestion keeps the string as `args.otid` and
works with `hash(otid)`; the overlap resolution (`-O tid`) moves an offending slice to a spare tid
`hash(otid) + k`, `k ≥ 1`; at the end the refinement stage gives every torch slice a lane name again:

    otid  = event["args"].pop("otid")
    moved = event["tid"] - hash(otid)
    event["tid"] = otid if moved == 0 else f"{otid} ({moved})"

`laneLabel otid moved` is that name (for `moved ≥ 0`, which is what the overlap resolution produces).
Core only.
-/
namespace AiuVerif.LaneLabel

def laneLabel (otid : String) (moved : Nat) : String :=
  if moved = 0 then otid else otid ++ " (" ++ Nat.repr moved ++ ")"

end AiuVerif.LaneLabel
