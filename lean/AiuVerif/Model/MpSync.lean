/-
Model of the multi-AIU clock alignment stage (C07):

  pipeline/mp_sync_tight.py   mp_sync_tight_v1  (callback: MpSyncTightContext.mp_gather_events)
                              MpSyncTightContext.drain and everything it calls:
                              _ignore_allgather_when_possible, _mp_gather_info,
                              _rank_contain_reduce_op, mp_calibrate_dts, sync_last_send_recv,
                              _sync_mb_recv, _get_list_DTS_end_of_coll, _get_last_event_in_cg,
                              mp_alter_event_ts, _calib_dev_ts
  pipeline/timesync.py        _conv_DTS_to_array_in_us (what `args.ts_dev` is),
                              _match_opIds_from_event / get_opIds_from_event

The stage buffers every event (deep copy) and does all work in `drain`; the model is therefore
a function from the list of events the stage received to the list it emits (or an error class).
Numbers are exact rationals.  The numpy reductions are modelled exactly: `dts_list.sort()[-1]`
is the maximum, `np.argmin` the first minimal index, `np.argmin` of the *scalar* mean-square
error in `_sync_mb_recv` is 0.  `hash((pid, CollGroup))` as queue key is modelled as the pair
itself (injectivity of `hash` is in the trusted base).  Python exceptions on the modelled path
are explicit: "exit" (`sys.exit(1)`: a rank without a queue for a kept group), "keyerror",
"indexerror", "valueerror", "assert" (the two `_mp_trace_sanity_check` asserts — the rank-count one is
implied by the `drain` guard — and the send/receive length assert; all three are unreachable and kept as
branches).  The two update loops over `dts_shifts` are given in closed form (`shiftAt`); the final
`list.sort` is a stable sort, modelled by the structurally recursive stable insertion sort.
The model follows the code after `fix: anchor multi-AIU alignment to rank 0's shifted device clock`
(`refOffset`); the previous formula is kept as `oldRefOffset` for the sentinel theorem.
Core Lean only (imported by the driver).
-/
import AiuVerif.Basic

namespace AiuVerif
namespace MpSync

/-- the part of `event["args"]` the stage reads or writes -/
structure Args where
  cg : Option String          -- args["CollGroup"]
  hasTS5 : Bool               -- "TS5" in args
  tsDev : Option (List Rat)   -- args["ts_dev"]  (device counters in µs, `TSi / soc_freq`)
  tsAll : Option (List Rat)   -- args["ts_all"]
deriving DecidableEq, Repr

/-- an event as the stage sees it; `uid` is the identity used by the correspondence only.
    `ph`, `ts`, `pid`, `name` are total: `EventProcessor.sanity_check` (always the first stage)
    drops events lacking one of `_MINREQKEYS`; `dur` and `args` may be absent. -/
structure MEv where
  uid : Nat
  ph : String
  pid : Int
  name : String
  ts : Rat
  dur : Option Rat
  args : Option Args
deriving DecidableEq, Repr

def isPrefixL : List Char → List Char → Bool
  | [], _ => true
  | _ :: _, [] => false
  | a :: as, b :: bs => a == b && isPrefixL as bs

def isInfixL (p : List Char) : List Char → Bool
  | [] => isPrefixL p []
  | c :: cs => isPrefixL p (c :: cs) || isInfixL p cs

/-- Python `pat in s` (structural on the character lists, so that it also evaluates in the kernel) -/
def hasSub (pat s : String) : Bool := isInfixL pat.toList s.toList

/-- `get_opIds_from_event`: index of the first keyword of
    `[" DmaI", " Cmpt Prep", " Cmpt Exec", " DmaO"]` contained in the name, 0 when none is -/
def opId (name : String) : Nat :=
  if hasSub " DmaI" name then 0
  else if hasSub " Cmpt Prep" name then 1
  else if hasSub " Cmpt Exec" name then 2
  else if hasSub " DmaO" name then 3
  else 0

/-- `_conv_DTS_to_array_in_us`: `ts_dev[i] = float(args["TS(i+1)"]) / freq` -/
def convDev (freq : Rat) (counters : List Int) : List Rat := counters.map (fun (c : Int) => (c : Rat) / freq)

/-- `"TS5" in e["args"]`: the events `mp_alter_event_ts` touches (needs `args`) -/
def isDev (e : MEv) : Bool :=
  match e.args with
  | some a => a.hasTS5
  | none => false

/-- the guard of `mp_gather_events`: `ph in ["X","b"] and "args" in event and "CollGroup" in args`
    gives the queue key `(pid, CollGroup)` -/
def collKey (e : MEv) : Option (Int × String) :=
  if e.ph = "X" ∨ e.ph = "b" then
    match e.args with
    | some a => a.cg.map (fun g => (e.pid, g))
    | none => none
  else none

/-- insertion-ordered distinct values (keys of a dict / `if x not in list: append`) -/
def distinct {α : Type} [DecidableEq α] (l : List α) : List α :=
  l.foldl (fun acc x => if x ∈ acc then acc else acc ++ [x]) []

/-- `self.proc_ids`: pids that own at least one collective event -/
def procIds (evs : List MEv) : List Int := distinct ((evs.filterMap collKey).map (·.1))

/-- `self.coll_groups` after gathering: the groups of rank 0 in first-seen order -/
def collGroups (evs : List MEv) : List String :=
  distinct (((evs.filterMap collKey).filter (fun k => k.1 = 0)).map (·.2))

/-- `self.queues[hash((pid, cg))]` as the events themselves, in arrival order (`[]` = no such key) -/
def queue (evs : List MEv) (pid : Int) (cg : String) : List MEv :=
  evs.filter (fun e => collKey e = some (pid, cg))

/-- the `if` of `drain`: action only with ≥ 1 group and ≥ 2 ranks -/
def acts (evs : List MEv) : Bool :=
  decide (0 < (collGroups evs).length) && decide (1 < (procIds evs).length)

/-- `_ignore_allgather_when_possible`: with at least one AllReduce group only those are kept -/
def keptGroups (cgs : List String) : List String :=
  if cgs.any (hasSub "AllReduce") then cgs.filter (hasSub "AllReduce") else cgs

/-- `_rank_contain_reduce_op(0)` on the first kept group: tree (true) or chain (false) -/
def treeReduce (evs : List MEv) (cg0 : String) : Bool :=
  (queue evs 0 cg0).any (fun e => hasSub "AllReduce_all_reduce" e.name)

/-- `event["args"]["ts_dev"][k]` -/
def tsDevAt (k : Nat) (e : MEv) : Except String Rat :=
  match e.args with
  | none => .error "keyerror"
  | some a =>
    match a.tsDev with
    | none => .error "keyerror"
    | some l =>
      match l[k]? with
      | none => .error "indexerror"
      | some t => .ok t

/-- maximum of a list (`sort(); [-1]`) -/
def maxL : List Rat → Option Rat
  | [] => none
  | x :: xs => some (xs.foldl max x)

/-- `_get_list_DTS_end_of_coll(pid, k)`: per kept group the largest `ts_dev[k]` of the rank's
    events in that group; a missing queue is the `sys.exit(1)` branch -/
def dtsEnd (evs : List MEv) (cgs : List String) (pid : Int) (k : Nat) : Except String (List Rat) :=
  cgs.mapM (fun cg =>
    match queue evs pid cg with
    | [] => .error "exit"
    | q => do
      let l ← q.mapM (tsDevAt k)
      match maxL l with
      | none => .error "indexerror"
      | some m => pure m)

/-- first element with the minimal value (`np.argmin`), carrying a payload instead of the index -/
def argminBy {α : Type} : List (α × Rat) → Option (α × Rat)
  | [] => none
  | x :: xs => some (xs.foldl (fun best y => if y.2 < best.2 then y else best) x)

/-- last element with the maximal key (`sort(key=...)` is stable, then `[-1]`) -/
def lastMaxBy {α : Type} : List (Rat × α) → Option (Rat × α)
  | [] => none
  | x :: xs => some (xs.foldl (fun best y => if best.1 ≤ y.1 then y else best) x)

/-- `P_map[k]`: identity for tree, reversed for chain -/
def pmap (tree : Bool) (np k : Nat) : Int :=
  if tree then (k : Int) else (np : Int) - 1 - (k : Int)

/-- result of the calibration: `dts_shifts` (indexed by pid) and `dts_2_hts_ref_offset` -/
structure Calib where
  np : Nat
  tree : Bool
  shifts : List Rat
  ref : Rat
deriving DecidableEq, Repr

/-- closed form of the two update loops over `dts_shifts` for the rank at permuted position `pp`:
    `_sync_mb_recv` (positions ≥ 2 are moved onto position 1 using group index 0) and the
    send/receive shift `d` (tree: every position ≥ 1 gets `-d`; chain: position 0 gets `+d`) -/
def shiftAt (tree : Bool) (col0 : List Rat) (d : Rat) (pp : Nat) : Rat :=
  (if 2 ≤ pp then
     match col0[pp - 1]?, col0[0]? with
     | some a, some b => 0 - (a - b)
     | _, _ => 0
   else 0) +
  (if tree then (if 1 ≤ pp then 0 - d else 0) else (if pp = 0 then d else 0))

/-- `dts_2_hts_ref_offset`: host end of rank 0's reference event minus its device time *on the
    reference clock* (`ts_dev[k] + dts_shifts[0]`) -/
def refOffset (hostEnd key s0 : Rat) : Rat := hostEnd - (key + s0)

/-- the formula before the repair of the chain branch (rank 0's raw device time; wrong whenever
    `dts_shifts[0] ≠ 0`, i.e. chain with more than two ranks).  Kept as a regression sentinel:
    `C07.epoch_dependent_chain3` shows what it breaks. -/
def oldRefOffset (hostEnd key _s0 : Rat) : Rat := hostEnd - key

/-- `ndarr_DTS_last_recv[k][0]`: row `k` of the `_sync_mb_recv` matrix belongs to permuted position
    `k+1`; only its entry for the first kept group is used (`np.argmin` of a scalar is 0) -/
def col0At (evs : List MEv) (cgs : List String) (tree : Bool) (np : Nat) (k : Nat) : Except String Rat := do
  let row ← dtsEnd evs cgs (pmap tree np (k + 1)) 1
  match row with
  | [] => .error "indexerror"     -- rows have `cgs.length ≥ 1` entries
  | x :: _ => pure x

/-- the device-time reductions of `sync_last_send_recv` in evaluation order: column 0 of the
    `_sync_mb_recv` matrix (rows = permuted positions 1 .. NP-1, only when NP > 2), the per-group last
    send end (TS5) of position 0 and the per-group last receive (TS2) of position 1 -/
def ends (evs : List MEv) (cgs : List String) (tree : Bool) (np : Nat) :
    Except String (List Rat × List Rat × List Rat) := do
  let col0 ← if 2 < np then (List.range (np - 1)).mapM (col0At evs cgs tree np) else pure []
  let send ← dtsEnd evs cgs (pmap tree np 0) 4
  let recv ← dtsEnd evs cgs (pmap tree np 1) 1
  pure (col0, send, recv)

/-- `_get_last_event_in_cg(0, idx, k)` and the two host fields read from it:
    (`ts + dur`, `ts_dev[k]`) of rank 0's event with the greatest `ts_dev[k]` in the reference group -/
def refPick (evs : List MEv) (cgRef : String) (k : Nat) : Except String (Rat × Rat) := do
  let q := queue evs 0 cgRef
  let keys ← q.mapM (tsDevAt k)
  match lastMaxBy (List.zip keys q) with
  | none => .error "indexerror"
  | some (key, ev) =>
    match ev.dur with
    | some dur => pure (ev.ts + dur, key)
    | none => .error "keyerror"

/-- `mp_calibrate_dts` / `sync_last_send_recv`, parametrised by the reference-offset formula -/
def calibrateG (rf : Rat → Rat → Rat → Rat) (evs : List MEv) : Except String Calib := do
  let cgs := keptGroups (collGroups evs)
  let np := (procIds evs).length
  match cgs with
  | [] => .error "assert"      -- `_mp_trace_sanity_check` (unreachable: `keptGroups` of a non-empty list is non-empty)
  | cg0 :: _ =>
    let tree := treeReduce evs cg0
    let (col0, send, recv) ← ends evs cgs tree np
    -- `assert len(list_TS5_last_send) == len(list_TS2_last_recv)` (both have one entry per kept group)
    if send.length ≠ recv.length then .error "assert" else
    let diff := List.zipWith (fun r s => r - s) recv send
    match argminBy (List.zip cgs diff) with
    | none => .error "valueerror"
    | some (cgRef, d) =>
      let shiftOf := fun (pid : Nat) => shiftAt tree col0 d (if tree then pid else np - 1 - pid)
      let (hostEnd, key) ← refPick evs cgRef (if tree then 4 else 1)
      pure { np := np, tree := tree, shifts := (List.range np).map shiftOf, ref := rf hostEnd key (shiftOf 0) }

def calibrate : List MEv → Except String Calib := calibrateG refOffset

/-- Python list indexing with negative wrap-around -/
def pyIdx {α : Type} (l : List α) (i : Int) : Option α :=
  if 0 ≤ i then l[i.toNat]?
  else if -(l.length : Int) ≤ i then l[((l.length : Int) + i).toNat]?
  else none

/-- the per-rank offset: `dts_shifts[pid] + dts_2_hts_ref_offset` -/
def offsetOf (c : Calib) (pid : Int) : Option Rat := (pyIdx c.shifts pid).map (· + c.ref)

/-- one iteration of `mp_alter_event_ts` (+ `_calib_dev_ts`) -/
def alter (c : Calib) (e : MEv) : Except String MEv :=
  match e.args with
  | none => .error "keyerror"
  | some a =>
    if a.hasTS5 then
      match a.tsDev with
      | none => .error "keyerror"
      | some l =>
        match pyIdx c.shifts e.pid with
        | none => .error "indexerror"   -- (an empty ts_dev skips this lookup but fails two lines later, same class)
        | some s =>
          let dev := l.map (· + s)
          let all := dev.map (· + c.ref)
          match all[opId e.name]? with
          | none => .error "indexerror"
          | some t => .ok { e with ts := t, args := some { a with tsDev := some dev, tsAll := some all } }
    else .ok e

/-- insert before the first element that is not earlier (keeps equal keys in arrival order) -/
def insertTs (e : MEv) : List MEv → List MEv
  | [] => [e]
  | x :: xs => if e.ts ≤ x.ts then e :: x :: xs else x :: insertTs e xs

/-- `revents.sort(key=lambda x: x["ts"])`: a stable sort by ts (modelled as the structurally
    recursive stable insertion sort, which the kernel can evaluate; the result of a stable sort
    is unique, so this is the list Python's timsort returns) -/
def sortOut (l : List MEv) : List MEv := l.foldr insertTs []

/-- `MpSyncTightContext.drain` on the buffered events: calibrate + alter when there is something
    to align, pop everything from the back (reversal), stable sort by ts -/
def mpSyncG (rf : Rat → Rat → Rat → Rat) (evs : List MEv) : Except String (List MEv) := do
  let evs' ← if acts evs then (do let c ← calibrateG rf evs; evs.mapM (alter c)) else pure evs
  pure (sortOut evs'.reverse)

def mpSync : List MEv → Except String (List MEv) := mpSyncG refOffset

/-! ### the transformation of the epoch clause (specification side) -/

/-- add `c` µs (= `K / soc_freq`) to every device counter of rank `r` -/
def shiftRank (r : Int) (c : Rat) (e : MEv) : MEv :=
  if e.pid = r then
    { e with args := e.args.map (fun a => { a with tsDev := a.tsDev.map (fun l => l.map (· + c)) }) }
  else e

/-- forget the scratch copy of the device counters (`cleanup_copy_of_device_ts` removes it before export) -/
def eraseDev (e : MEv) : MEv := { e with args := e.args.map (fun a => { a with tsDev := none }) }

end MpSync
end AiuVerif
