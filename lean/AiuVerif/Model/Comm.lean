/-
Model of communication-sequence summarization (`--comm_summarize_seq`, property C20).  Core only.

Python modelled (src/aiu_trace_analyzer/pipeline/coll_group.py):
* `CommunicationGroupContext.extract_sequence_number`  → `seqDigits`, `seqKey`, `memberKey`
    `re.compile(r"[_-](\d+)").search(name)`: the first `_`/`-` that is followed by a digit, and the
    maximal digit run after it; key `int(str(jobid) + digits)` = `jobid * 10^len(digits) + value`;
    the callers test `if sequence:` so the key 0 (job 0, digits all zero) is *not* a sequence.
* `communication_event_collection` / `add_to_sequence`  → `collectStep`, `addToSequence`, `lno`
    (`_longest_name_overlap` with its `"EmptyName"` quirk: when one name followed by its sentinel
    letter is a prefix of the other name followed by its sentinel, no difference is found).
* `communication_event_apply` / `apply`                 → `applyStep`
    (`self.queues[sequence]` on a key that was never collected → `KeyError`; the merged slice is the
    *last* part, with `name`, `ts`, `dur = end_ts - start_ts` overwritten and `args["Peers"]` set).
* both callbacks: `event["ph"] != "X" or "SenRdma" not in event["name"]` → pass; then
  `event["args"]["jobhash"]` → `KeyError` when absent (evaluated before the name is searched).
* registration `collection → pipeline_barrier → apply` on one shared context
  (core/acelyzer.py): by the engine theorem of C03 the apply stage sees the whole stream, in order,
  after the collection stage has seen all of it → `summarize`.

Not modelled: `\d` matching non-ASCII digits; a non-numeric `args.Peer` (`int()` raises); the
iteration order of the Python `set` of peers (`Peers` is compared as a sorted set); member slices
without `dur`.
-/
import AiuVerif.Basic

namespace AiuVerif.Comm

structure CEv where
  uid : Nat
  ph : String
  name : String
  jobhash : Option Nat
  ts : Num
  dur : Num
  peer : Option Int
  deriving DecidableEq

/-- `"SenRdma" in name` -/
def infixOf (p : List Char) : List Char → Bool
  | [] => p.isEmpty
  | c :: rest => p.isPrefixOf (c :: rest) || infixOf p rest

def hasSenRdma (name : String) : Bool := infixOf "SenRdma".toList name.toList

def startsWithDigit : List Char → Bool
  | [] => false
  | c :: _ => c.isDigit

/-- first match of `[_-](\d+)`: group 1 -/
def seqDigitsAux : List Char → Option (List Char)
  | [] => none
  | c :: rest =>
    if (c == '_' || c == '-') && startsWithDigit rest then some (rest.takeWhile Char.isDigit)
    else seqDigitsAux rest

def seqDigits (name : String) : Option (List Char) := seqDigitsAux name.toList

def natOfDigits (ds : List Char) : Nat := ds.foldl (fun n c => 10 * n + (c.toNat - '0'.toNat)) 0

/-- `int(str(jobid) + digits)` -/
def seqKey (job : Nat) (digits : List Char) : Nat := job * 10 ^ digits.length + natOfDigits digits

/-- the event is looked at by the two callbacks at all -/
def candidate (ev : CEv) : Bool := ev.ph == "X" && hasSenRdma ev.name

/-- `event["args"]["jobhash"]` raises -/
def raises (ev : CEv) : Bool := candidate ev && ev.jobhash.isNone

/-- the sequence key of a part of a communication sequence; `none`: not a part -/
def memberKey (ev : CEv) : Option Nat :=
  if candidate ev then
    match ev.jobhash, seqDigits ev.name with
    | some j, some d => if seqKey j d = 0 then none else some (seqKey j d)
    | _, _ => none
  else none

structure SeqData where
  count : Int
  start : Num
  stop : Num
  name : String
  peers : List Int          -- the Python set, kept strictly increasing
  deriving DecidableEq

/-- `_longest_name_overlap(a, b)` on `a + 'a'`, `b + 'b'`; `acc` = reversed common prefix -/
def lnoAux (acc : List Char) : List Char → List Char → Option (List Char)
  | x :: xs, y :: ys => if x = y then lnoAux (x :: acc) xs ys else some acc.reverse
  | _, _ => none

def lno (a b : String) : String :=
  match lnoAux [] (a.toList ++ ['a']) (b.toList ++ ['b']) with
  | some p => String.ofList p
  | none => "EmptyName"

/-- `set.add` on a strictly increasing list -/
def insertPeer (p : Int) : List Int → List Int
  | [] => [p]
  | x :: xs => if p < x then p :: x :: xs else if p = x then x :: xs else x :: insertPeer p xs

def addPeer (peer : Option Int) (l : List Int) : List Int :=
  match peer with
  | some p => insertPeer p l
  | none => l

def minN (a b : Num) : Num := if b < a then b else a
def maxN (a b : Num) : Num := if a < b then b else a

def initData (ev : CEv) : SeqData :=
  { count := 1, start := ev.ts, stop := ev.ts + ev.dur, name := ev.name, peers := addPeer ev.peer [] }

def mergeData (d : SeqData) (ev : CEv) : SeqData :=
  { count := d.count + 1, start := minN d.start ev.ts, stop := maxN d.stop (ev.ts + ev.dur),
    name := lno d.name ev.name, peers := addPeer ev.peer d.peers }

/-- `self.queues` : sequence key → data -/
abbrev St := List (Nat × SeqData)

def stGet : St → Nat → Option SeqData
  | [], _ => none
  | kv :: rest, k => if kv.1 == k then some kv.2 else stGet rest k

def stSet : St → Nat → SeqData → St
  | [], k, d => [(k, d)]
  | kv :: rest, k, d => if kv.1 == k then (k, d) :: rest else kv :: stSet rest k d

def stDel : St → Nat → St
  | [], _ => []
  | kv :: rest, k => if kv.1 == k then stDel rest k else kv :: stDel rest k

/-- `add_to_sequence(event, sequence)` -/
def addToSequence (st : St) (k : Nat) (ev : CEv) : St :=
  match stGet st k with
  | none => stSet st k (initData ev)
  | some d => stSet st k (mergeData d ev)

/-- `communication_event_collection` (the event itself is always passed on) -/
def collectStep (st : St) (ev : CEv) : Except String St :=
  if raises ev then .error "keyerror"
  else match memberKey ev with
    | none => .ok st
    | some k => .ok (addToSequence st k ev)

def collectFrom : St → List CEv → Except String St
  | st, [] => .ok st
  | st, ev :: rest =>
    match collectStep st ev with
    | .error e => .error e
    | .ok st1 => collectFrom st1 rest

inductive COut where
  /-- the event leaves unchanged -/
  | pass (ev : CEv)
  /-- the event leaves with `name`, `ts`, `dur` overwritten and `args.Peers` set -/
  | merged (ev : CEv) (peers : List Int)
  deriving DecidableEq

/-- `communication_event_apply` -/
def applyStep (st : St) (ev : CEv) : Except String (St × List COut) :=
  if raises ev then .error "keyerror"
  else match memberKey ev with
    | none => .ok (st, [COut.pass ev])
    | some k =>
      match stGet st k with
      | none => .error "keyerror"
      | some d =>
        if d.count - 1 != 0 then .ok (stSet st k { d with count := d.count - 1 }, [])
        else .ok (stDel st k,
          [COut.merged { ev with name := d.name, ts := d.start, dur := d.stop - d.start } d.peers])

def applyFrom : St → List CEv → Except String (St × List COut)
  | st, [] => .ok (st, [])
  | st, ev :: rest =>
    match applyStep st ev with
    | .error e => .error e
    | .ok r1 =>
      match applyFrom r1.1 rest with
      | .error e => .error e
      | .ok r2 => .ok (r2.1, r1.2 ++ r2.2)

/-- collection over the whole stream, barrier, application over the whole stream.
Returns the events leaving the apply stage and the number of sequences left in the context
(non-zero = the "unprocessed communication event sequences" error of `__del__`). -/
def summarize (evs : List CEv) : Except String (List COut × Nat) :=
  match collectFrom [] evs with
  | .error e => .error e
  | .ok st =>
    match applyFrom st evs with
    | .error e => .error e
    | .ok r => .ok (r.2, r.1.length)

end AiuVerif.Comm
