/-
C14 — the hidden inputs of a run, made explicit.

What one `Acelyzer.run()` can see besides its input files and options:
  * `strHash`      Python's salted `hash(str)` (PYTHONHASHSEED).  In the current code it only reaches
                   dictionary *keys*: `hash((name, pid))`-keyed queues (pipeline/hashqueue.py
                   `event_data_hash`, pipeline/stats.py `queue_hash`, rcu_utilization fingerprints,
                   iteration_detect letters); the job id is a stable digest of the path since the
                   repair of types.py `GlobalIngestData.add_job_info`.
  * `barrierHold`  the list inside the module-level `pipeline/barrier.py::_main_barrier_context`,
                   which survives a run that aborted between collecting and draining.
  * `jobmap`       the class-level `types.py::GlobalIngestData._jobmap` (job id -> (file name, dialect)),
                   never emptied; `add_job_info` overwrites the slot of a re-registered id.

`runProc` models `Acelyzer.run`: ingestion registers the pseudo job `top_level_multifile` and every
input file in the job map (ingest/ingestion.py `AbstractTraceIngest.__init__`),
`register_processing_functions` first empties the shared barrier, then the engine of
`Model/Engine.lean` streams the events and drains the stages — or the run aborts after `n` events
(an exception in ingestion or in a stage): nothing is drained or exported and the shared barrier
keeps what it holds.  With `-I` every registered stage is followed by a `duplicate_and_hold` stage
(core/processing.py `register_stage`, core/duplicate_hold.py).

Stages are arbitrary (`priv`: any callback + private context), the shared barrier, or one of the two
ways a stage of the real pipeline touches a hidden input:
  * `jobAnnot`   looks the event's job id up in the job map (normalize.py `get_job`,
                 tb_refinement.py / ingestion.py `get_dialect`); a miss is the explicit `none` case;
  * `hashGroup`  groups events in a dict keyed by the *hash* of a string key and emits one row per
                 group in insertion order at drain time (stats.py summary rows, hashqueue contexts).
Core Lean only (this file is imported by the driver).
-/
import AiuVerif.Model.Engine

namespace AiuVerif
namespace Hid

/-- (file name, dialect code) — the value type of `GlobalIngestData._jobmap` -/
abbrev JobInfo := String × Nat

/-- `_jobmap`: the most recent registration of a key is found first -/
abbrev Jobmap := List (Nat × JobInfo)

def jmLookup (k : Nat) : Jobmap → Option JobInfo
  | [] => none
  | (k', v) :: rest => if k' = k then some v else jmLookup k rest

/-- an input file as the job registry sees it: `key = crc32(path) % 10000` (a function of the
    input, computed by the harness), `info = (Path(path).name, dialect)` -/
structure File where
  key : Nat
  info : JobInfo

/-- `add_job_info` for a list of sources, in order: `cls._jobmap[jobhash] = (name, dialect)` -/
def registerAll : List File → Jobmap → Jobmap
  | [], m => m
  | f :: fs, m => registerAll fs ((f.key, f.info) :: m)

variable {ε : Type}

/-- the kinds of stages of the modelled pipeline core -/
inductive Stage (ε : Type) where
  /-- any callback with a private context that reads no hidden input -/
  | priv (st : RS ε)
  /-- `pipeline_barrier` on the module-level `_main_barrier_context` -/
  | barrier
  /-- reads `_jobmap[keyOf event]`; `none` = no entry (`get_job` → "Not Available", `get_dialect` raises) -/
  | jobAnnot (keyOf : ε → Nat) (f : ε → Option JobInfo → List ε)
  /-- dict keyed by `hash(key event)`; passes the event on; at drain one `emit firstKey members` per
      group, in insertion order of the groups -/
  | hashGroup (key : ε → String) (emit : String → List ε → List ε)

/-- state of a hash-keyed grouping: insertion-ordered `hash ↦ (key of the first member, members)` -/
abbrev GroupsH (ε : Type) := List (Nat × String × List ε)

def addH (h : Nat) (k : String) (e : ε) : GroupsH ε → GroupsH ε
  | [] => [(h, k, [e])]
  | (h', k', ms) :: rest => if h' = h then (h', k', ms ++ [e]) :: rest else (h', k', ms) :: addH h k e rest

/-- the grouping stage with the groups collected so far as a parameter -/
def groupRSFrom (H : String → Nat) (key : ε → String) (emit : String → List ε → List ε)
    (s0 : GroupsH ε) : RS ε :=
  { σ := GroupsH ε, s := s0,
    step := fun s e => (addH (H (key e)) (key e) e s, [e]),
    drain := fun s => (s.map (fun g => emit g.2.1 g.2.2)).flatten }

def groupRS (H : String → Nat) (key : ε → String) (emit : String → List ε → List ε) : RS ε :=
  groupRSFrom H key emit []

/-- the same grouping keyed by the string itself (no hash involved): the specification -/
abbrev GroupsK (ε : Type) := List (String × List ε)

def addK (k : String) (e : ε) : GroupsK ε → GroupsK ε
  | [] => [(k, [e])]
  | (k', ms) :: rest => if k' = k then (k', ms ++ [e]) :: rest else (k', ms) :: addK k e rest

def groupSpecRSFrom (key : ε → String) (emit : String → List ε → List ε) (s0 : GroupsK ε) : RS ε :=
  { σ := GroupsK ε, s := s0,
    step := fun s e => (addK (key e) e s, [e]),
    drain := fun s => (s.map (fun g => emit g.1 g.2)).flatten }

def groupSpecRS (key : ε → String) (emit : String → List ε → List ε) : RS ε :=
  groupSpecRSFrom key emit []

def annotRS (jm : Jobmap) (keyOf : ε → Nat) (f : ε → Option JobInfo → List ε) : RS ε :=
  { σ := Unit, s := (), step := fun _ e => ((), f e (jmLookup (keyOf e) jm)), drain := fun _ => [] }

/-- a stage as the engine runs it, given what the run sees of the hidden inputs -/
def inst (jm : Jobmap) (H : String → Nat) : Stage ε → BStage ε
  | .priv st => .priv st
  | .barrier => .barrier
  | .jobAnnot keyOf f => .priv (annotRS jm keyOf f)
  | .hashGroup key emit => .priv (groupRS H key emit)

/-- `duplicate_and_hold` + `IntermediateDuplicateAndHoldContext`: a deep copy of every event goes to
    the side exporter, the event itself is passed on; `drain` flushes the side file, returns `[]` -/
def dah : RS ε :=
  { σ := List ε, s := [], step := fun s e => (s ++ [e], [e]), drain := fun _ => [] }

/-- `EventProcessor(intermediate=…)`: every registered stage is followed by a `duplicate_and_hold` -/
def withDah : List (BStage ε) → List (BStage ε)
  | [] => []
  | st :: rest => st :: .priv dah :: withDah rest

/-! ### engine run that also returns what the shared barrier holds afterwards -/

def drainAllH (hold : List ε) : List (BStage ε) → List ε × List ε
  | [] => ([], hold)
  | st :: rest =>
    have : (BStage.stream (BStage.drainOf hold st).2 rest (BStage.drainOf hold st).1).1.length
        < (st :: rest).length := by
      simp [BStage.stream_length]
    let r := BStage.stream (BStage.drainOf hold st).2 rest (BStage.drainOf hold st).1
    let d := drainAllH r.2.2 r.1
    (r.2.1 ++ d.1, d.2)
termination_by p => p.length

/-- (exported events, shared hold afterwards) -/
def runH (hold : List ε) (p : List (BStage ε)) (input : List ε) : List ε × List ε :=
  let r := BStage.stream hold p input
  let d := drainAllH r.2.2 r.1
  (r.2.1 ++ d.1, d.2)

/-! ### a run of the analyzer -/

structure Hidden (ε : Type) where
  strHash : String → Nat
  barrierHold : List ε
  jobmap : Jobmap

inductive Result (ε : Type) where
  | ok (exported : List ε)
  | aborted

def Result.toList : Result ε → List ε
  | .ok l => l
  | .aborted => []

/-- dialect codes -/
def dTORCH : Nat := 0
def dFLEX : Nat := 1

/-- `MultifileIngest.__init__` registers itself before the real files (key = digest of the literal) -/
structure Run (ε : Type) where
  /-- digest of `"top_level_multifile"` -/
  topKey : Nat
  files : List File
  stages : List (Stage ε)
  /-- the merged event stream the importer yields -/
  input : List ε
  /-- `some n`: an exception ends the run after `n` events have been processed -/
  abortAt : Option Nat
  /-- `-I` -/
  intermediate : Bool

def Run.jobmapAfter (r : Run ε) (m : Jobmap) : Jobmap :=
  registerAll r.files ((r.topKey, ("top_level_multifile", dTORCH)) :: m)

def Run.pipeline (r : Run ε) (jm : Jobmap) (H : String → Nat) : List (BStage ε) :=
  let p := r.stages.map (inst jm H)
  if r.intermediate then withDah p else p

/-- `Acelyzer.run` -/
def runProc (h : Hidden ε) (r : Run ε) : Result ε × Hidden ε :=
  let jm := r.jobmapAfter h.jobmap
  let p := r.pipeline jm h.strHash
  -- register_processing_functions: `event_pipe._main_barrier_context.drain()`
  let hold0 : List ε := []
  match r.abortAt with
  | none =>
    let o := runH hold0 p r.input
    (.ok o.1, { h with barrierHold := o.2, jobmap := jm })
  | some n =>
    let s := BStage.stream hold0 p (r.input.take n)
    (.aborted, { h with barrierHold := s.2.2, jobmap := jm })

/-- the code before the repair of `register_processing_functions` (no reset of the shared barrier);
    kept to state what the reset is needed for and to check the engine model with a non-empty hold -/
def runProcNoReset (h : Hidden ε) (r : Run ε) : Result ε × Hidden ε :=
  let jm := r.jobmapAfter h.jobmap
  let p := r.pipeline jm h.strHash
  match r.abortAt with
  | none =>
    let o := runH h.barrierHold p r.input
    (.ok o.1, { h with barrierHold := o.2, jobmap := jm })
  | some n =>
    let s := BStage.stream h.barrierHold p (r.input.take n)
    (.aborted, { h with barrierHold := s.2.2, jobmap := jm })

/-- a history of runs in one process -/
def runHistory (step : Hidden ε → Run ε → Result ε × Hidden ε) (h : Hidden ε) : List (Run ε) → Hidden ε
  | [] => h
  | r :: rs => runHistory step (step h r).2 rs

/-- a fresh interpreter -/
def Hidden.init (H : String → Nat) : Hidden ε := { strHash := H, barrierHold := [], jobmap := [] }

/-! ### process-level memo tables

Not in the current code, but the shape of the next hidden input one would add by accident: a
class-level dict that caches a derived value (`if key not in cache: cache[key] = compute(event)`;
use `cache[key]`), e.g. a compiled classifier per category in `PipelineContextTool.is_category`.
The table outlives a run, so its initial content is a hidden input of every later run.
`Props/C14.lean` shows when such a table is harmless (the key determines the cached value) and
that it is not when it does not (category name without the dialect). -/

abbrev Memo (ν : Type) := List (String × ν)

def memoLookup {ν : Type} (k : String) : Memo ν → Option ν
  | [] => none
  | (k', v) :: rest => if k' = k then some v else memoLookup k rest

/-- one call: look the key up, fill the slot on a miss, act on the cached value -/
def memoStep {ν : Type} (ckey : ε → String) (val : ε → ν) (g : ε → ν → List ε) (m : Memo ν) (e : ε) :
    Memo ν × List ε :=
  match memoLookup (ckey e) m with
  | some v => (m, g e v)
  | none => ((ckey e, val e) :: m, g e (val e))

/-- the calls of one run, in the order the events arrive: (table afterwards, outputs) -/
def memoRun {ν : Type} (ckey : ε → String) (val : ε → ν) (g : ε → ν → List ε) :
    Memo ν → List ε → Memo ν × List ε
  | m, [] => (m, [])
  | m, e :: es =>
    let r := memoStep ckey val g m e
    let r' := memoRun ckey val g r.1 es
    (r'.1, r.2 ++ r'.2)

/-- a history of runs sharing the table: the table after the last one -/
def memoHistory {ν : Type} (ckey : ε → String) (val : ε → ν) (g : ε → ν → List ε) :
    Memo ν → List (List ε) → Memo ν
  | m, [] => m
  | m, xs :: rest => memoHistory ckey val g (memoRun ckey val g m xs).1 rest

/-! ### process-level option defaults

`Acelyzer.defaults` is a class-level dict; `--event_limit` is registered with
`default=self.defaults["event_limits"]` (that very object) and `_parse_event_limit_type` merges the
parsed JSON into a **copy** of it.  The class-level dict is therefore a hidden input that no run
changes.  `parseInPlace` is the variant that merges into the object itself. -/

abbrev Opts := List (String × Int)

def optGet (k : String) : Opts → Option Int
  | [] => none
  | (k', v) :: rest => if k' = k then some v else optGet k rest

/-- `result.update(parsed)`: the command line wins -/
def mergeOpts (d cmd : Opts) : Opts := cmd ++ d

/-- current code: (effective options of the run, class-level defaults afterwards) -/
def parseCopy (d cmd : Opts) : Opts × Opts := (mergeOpts d cmd, d)

/-- `result = self.defaults[...]; result |= parsed`: the defaults object itself is updated -/
def parseInPlace (d cmd : Opts) : Opts × Opts := (mergeOpts d cmd, mergeOpts d cmd)

/-- a process-level state threaded through a history of runs -/
def stateAfter {σ ι ο : Type} (step : σ → ι → ο × σ) : σ → List ι → σ
  | s, [] => s
  | s, i :: rest => stateAfter step (step s i).2 rest

/-! ### the specification: no hidden input at all -/

/-- the stage with the job map reduced to this run's own registrations and grouping by the key itself -/
def specRS (jm : Jobmap) : Stage ε → RS ε
  | .priv st => st
  | .barrier => BStage.privBarrier []
  | .jobAnnot keyOf f => annotRS jm keyOf f
  | .hashGroup key emit => groupSpecRS key emit

/-- what a complete run must export: sequential batch composition of the specification stages -/
def specOutput (r : Run ε) : List ε :=
  RS.runSpec (r.stages.map (specRS (r.jobmapAfter []))) r.input

def specResult (r : Run ε) : Result ε :=
  match r.abortAt with
  | none => .ok (specOutput r)
  | some _ => .aborted

end Hid
end AiuVerif
