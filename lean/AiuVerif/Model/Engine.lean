/-
Model of the streaming engine:
  core/processing.py  EventProcessor.pre_process / process / drain
  core/engine.py      Engine.run
  pipeline/barrier.py pipeline_barrier + the module-level `_main_barrier_context`

A registered stage is a callback + context.  `RS ε` packs the context's private state, the
callback (`step`) and the context's `drain`.  Python mutation of the context becomes a new
state value.  Core Lean only (this file is imported by the driver).
-/
namespace AiuVerif

/-- running stage: private state + step (callback) + drain (context.drain) -/
structure RS (ε : Type) where
  σ : Type
  s : σ
  step : σ → ε → σ × List ε
  drain : σ → List ε

namespace RS
variable {ε : Type}

/-- one stage consumes a list element-wise (inner `for event in event_list` of pre_process) -/
def feed1 (st : RS ε) : List ε → RS ε × List ε
  | [] => (st, [])
  | x :: xs =>
    let (s', out) := st.step st.s x
    let (st'', outs) := feed1 { st with s := s' } xs
    (st'', out ++ outs)

/-- `pre_process`: the list returned by stage i is fed element-wise to stage i+1.
    (The `if event_list == []: break` of the real code is the lemma `feed_nil`.) -/
def feed : List (RS ε) → List ε → List (RS ε) × List ε
  | [], xs => ([], xs)
  | st :: rest, xs =>
    let (st', ys) := feed1 st xs
    let (rest', zs) := feed rest ys
    (st' :: rest', zs)

/-- `Engine.run` loop: `process()` once per input event -/
def stream (p : List (RS ε)) : List ε → List (RS ε) × List ε
  | [] => (p, [])
  | x :: xs =>
    let (p', out) := feed p [x]
    let (p'', outs) := stream p' xs
    (p'', out ++ outs)

theorem feed_length (p : List (RS ε)) (xs : List ε) : (feed p xs).1.length = p.length := by
  induction p generalizing xs with
  | nil => simp [feed]
  | cons st rest ih => simp [feed, ih]

theorem stream_length (p : List (RS ε)) (xs : List ε) : (stream p xs).1.length = p.length := by
  induction xs generalizing p with
  | nil => simp [stream]
  | cons x xs ih => simp [stream, ih, feed_length]

/-- `EventProcessor.drain`: pop the first stage, drain its context, process each pending event
    with the remaining stages; repeat until no stage is left. -/
def drainAll : List (RS ε) → List ε
  | [] => []
  | st :: rest =>
    have : (stream rest (st.drain st.s)).1.length < (st :: rest).length := by
      simp [stream_length]
    (stream rest (st.drain st.s)).2 ++ drainAll (stream rest (st.drain st.s)).1
termination_by p => p.length

/-- everything handed to the exporter, in order -/
def run (p : List (RS ε)) (input : List ε) : List ε :=
  let (p', out) := stream p input
  out ++ drainAll p'

/-- batch semantics of one stage: all step outputs, then the drain of the final state -/
def batch (st : RS ε) (xs : List ε) : List ε :=
  let (st', ys) := feed1 st xs
  ys ++ st'.drain st'.s

/-- the specification: plain sequential composition of the batch semantics -/
def runSpec (p : List (RS ε)) (input : List ε) : List ε :=
  p.foldl (fun xs st => batch st xs) input

/-! ### delivery log: which stage (by registration index) was handed which event, in time order -/

/-- deliveries of one `pre_process` call; `k` = registration index of the head stage -/
def feedLog (k : Nat) : List (RS ε) → List ε → List (Nat × ε)
  | [], _ => []
  | st :: rest, xs => xs.map (fun x => (k, x)) ++ feedLog (k + 1) rest (feed1 st xs).2

def streamLog (k : Nat) (p : List (RS ε)) : List ε → List (Nat × ε)
  | [] => []
  | x :: xs => feedLog k p [x] ++ streamLog k (feed p [x]).1 xs

def drainLog (k : Nat) : List (RS ε) → List (Nat × ε)
  | [] => []
  | st :: rest =>
    have : (stream rest (st.drain st.s)).1.length < (st :: rest).length := by
      simp [stream_length]
    streamLog (k + 1) rest (st.drain st.s) ++ drainLog (k + 1) (stream rest (st.drain st.s)).1
termination_by p => p.length

/-- the global delivery log of a whole run -/
def runLog (p : List (RS ε)) (input : List ε) : List (Nat × ε) :=
  streamLog 0 p input ++ drainLog 0 (stream p input).1

end RS

/-! ### the shared barrier

`pipeline_barrier` ignores its context argument and appends to the module-level
`_main_barrier_context.hold`; every built-in barrier registration passes that same object as
its context, so popping *any* barrier stage drains the one shared list.  `BStage` is either an
ordinary stage with private state or such a barrier; the shared hold list is threaded. -/

inductive BStage (ε : Type) where
  | priv (st : RS ε)
  | barrier

namespace BStage
variable {ε : Type}

def feed1 (hold : List ε) : BStage ε → List ε → BStage ε × List ε × List ε
  | priv st, xs => let r := st.feed1 xs; (priv r.1, r.2, hold)
  | barrier, xs => (barrier, [], hold ++ xs)

/-- returns (stages', output, hold') -/
def feed (hold : List ε) : List (BStage ε) → List ε → List (BStage ε) × List ε × List ε
  | [], xs => ([], xs, hold)
  | st :: rest, xs =>
    let (st', ys, h1) := feed1 hold st xs
    let (rest', zs, h2) := feed h1 rest ys
    (st' :: rest', zs, h2)

def stream (hold : List ε) (p : List (BStage ε)) : List ε → List (BStage ε) × List ε × List ε
  | [] => (p, [], hold)
  | x :: xs =>
    let (p', out, h1) := feed hold p [x]
    let (p'', outs, h2) := stream h1 p' xs
    (p'', out ++ outs, h2)

theorem feed_length (hold : List ε) (p : List (BStage ε)) (xs : List ε) :
    (feed hold p xs).1.length = p.length := by
  induction p generalizing xs hold with
  | nil => simp [feed]
  | cons st rest ih => simp [feed, ih]

theorem stream_length (hold : List ε) (p : List (BStage ε)) (xs : List ε) :
    (stream hold p xs).1.length = p.length := by
  induction xs generalizing p hold with
  | nil => simp [stream]
  | cons x xs ih => simp [stream, ih, feed_length]

/-- what `context.drain()` returns for the popped stage, and the shared hold afterwards -/
def drainOf (hold : List ε) : BStage ε → List ε × List ε
  | priv st => (st.drain st.s, hold)
  | barrier => (hold, [])

def drainAll (hold : List ε) : List (BStage ε) → List ε
  | [] => []
  | st :: rest =>
    have : (stream (drainOf hold st).2 rest (drainOf hold st).1).1.length < (st :: rest).length := by
      simp [stream_length]
    let r := stream (drainOf hold st).2 rest (drainOf hold st).1
    r.2.1 ++ drainAll r.2.2 r.1
termination_by p => p.length

def run (hold : List ε) (p : List (BStage ε)) (input : List ε) : List ε :=
  let r := stream hold p input
  r.2.1 ++ drainAll r.2.2 r.1

/-- a barrier with a *private* hold list initialised to `h` -/
def privBarrier (h : List ε) : RS ε :=
  { σ := List ε, s := h, step := fun s x => (s ++ [x], []), drain := fun s => s }

/-- replace every shared barrier by a private one; the first gets the current shared hold -/
def privOf : List ε → List (BStage ε) → List (RS ε)
  | _, [] => []
  | h, priv st :: rest => st :: privOf h rest
  | h, barrier :: rest => privBarrier h :: privOf [] rest

end BStage
end AiuVerif
