/-
Three small stages of the default pipeline that had no model of their own:

* `map_tid_to_range` + `TIDMappingContext` (pipeline/tid_mapping.py): FLEX slices get an
  "eye-friendly" tid — the k-th distinct tid seen (over ALL pids) is mapped to
  `remap_start + k * remap_step`; the pre-computed table of `remap_size` slots is continued by
  `tid_remap[-1] + remap_step` when it runs out (`IndexError` for an empty table).
* `drop_global_events` (pipeline/drop_global_event.py): `--drop_globals` removes every event whose
  name contains one of the listed name parts.
* `processing_filter` (pipeline/filter.py): `-F <types>` keeps an event iff its `ph` occurs in the
  given string.
Core Lean only.
-/
import AiuVerif.Basic
import AiuVerif.Model.PhaseName

namespace AiuVerif.Small
open AiuVerif.PhaseName (hasSub)

/-! ### map_tid_to_range -/

structure TidCtx where
  orig : List Int       -- `tid_original`
  remap : List Int      -- `tid_remap`
  step : Int            -- `remap_step`
deriving Repr, DecidableEq

/-- `TIDMappingContext.__init__` -/
def TidCtx.init (size : Nat) (start step : Int) : TidCtx :=
  { orig := [], remap := (List.range size).map (fun (k : Nat) => start + (k : Int) * step), step := step }

/-- position of the first element equal to `t` (the `for index, otid in enumerate(...)` scan) -/
def indexOf? (t : Int) : List Int → Option Nat
  | [] => none
  | x :: xs => if t = x then some 0 else (indexOf? t xs).map (· + 1)

/-- what the stage reads of an event -/
structure TEv where
  uid : Nat
  isX : Bool            -- `ph == "X"`
  tid : Option Int      -- `None` = no `tid` entry
  flex : Bool           -- `args.jobhash` present and registered with the FLEX dialect
  pid : Int
deriving Repr, DecidableEq

/-- registration of a tid that was not seen before -/
def register (c : TidCtx) (t : Int) : Except String TidCtx :=
  if t ∈ c.orig then .ok c
  else
    let o := c.orig ++ [t]
    if c.remap.length < o.length then
      match c.remap.getLast? with
      | none => .error "indexerror"                      -- `tid_remap[-1]` of an empty table
      | some l => .ok { c with orig := o, remap := c.remap ++ [l + c.step] }
    else .ok { c with orig := o }

/-- the callback: the new context and the (single) event returned -/
def mapTid (c : TidCtx) (e : TEv) : Except String (TidCtx × TEv) :=
  match e.isX, e.tid, e.flex with
  | true, some t, true =>
    match register c t with
    | .error m => .error m
    | .ok c' =>
      let new := match indexOf? t c'.orig with
        | some i => c'.remap.getD i 0                       -- never out of range (`remap_covers`)
        | none => 0                                         -- `tid_new = 0` (unreachable)
      .ok (c', { e with tid := some new })
  | _, _, _ => .ok (c, e)

def mapAll : TidCtx → List TEv → Except String (TidCtx × List TEv)
  | c, [] => .ok (c, [])
  | c, e :: es =>
    match mapTid c e with
    | .error m => .error m
    | .ok (c', e') =>
      match mapAll c' es with
      | .error m => .error m
      | .ok (c'', es') => .ok (c'', e' :: es')

/-! ### drop_global_events -/

/-- `is_global_event` for a list of name parts -/
def isGlobal (parts : List String) (name : String) : Bool := parts.any (fun p => hasSub name p)

/-- the stage over a whole stream: names in, kept names out (the event object is untouched) -/
def dropGlobals (parts : List String) (evs : List (Nat × String)) : List (Nat × String) :=
  evs.filter (fun e => !isGlobal parts e.2)

/-! ### processing_filter -/

/-- `-F pat`: `isinstance(pat, str) and event["ph"] in pat` (substring test; `none` = no string) -/
def keepPh (pat : Option String) (ph : String) : Bool :=
  match pat with
  | some p => hasSub p ph
  | none => false

def processingFilter (pat : Option String) (evs : List (Nat × String)) : List (Nat × String) :=
  evs.filter (fun e => keepPh pat e.2)

/-! ### recombine_cpu_events (pipeline/overlap.py) -/

/-- what the stage reads of an event -/
structure REv where
  uid : Nat
  ph : String
  flex : Bool            -- `args.jobhash` present and registered with the FLEX dialect
  hasTS1 : Bool          -- FLEX `acc_event_cat` = `has.args.TS1`
  name : String
  pid : Int
  tid : Option Int
deriving Repr, DecidableEq

/-- FLEX host slices (no `args.TS1`, not the `AIU Roundtrip` frame) are put on ONE thread id per process -/
def recombined (e : REv) : Bool :=
  e.flex && hasSub "X" e.ph && !e.hasTS1 && !hasSub e.name "AIU Roundtrip"

def recombine (cpuTid : Int) (e : REv) : REv :=
  if recombined e then { e with tid := some cpuTid } else e

end AiuVerif.Small
