/-
Executable model of `src/aiu_trace_analyzer/ingest/ingestion.py` (FLEX dialect, JSON files, scale 1.0):

* `upd` / `annot`     — `AbstractTraceIngest.updated_event`, `_rank_device_annotation` (FLEX branch),
                        `_pid_correction` (the `KeyError` when `pid` is absent).  `rank_pid` is threaded
                        with its `-1` sentinel exactly as in the code.
* `annotate`          — `JsonEventTraceIngest.get_next_event` applied to the successive raw items: the
                        updated events up to the first raising item, and that error.
* `sane`              — `sane_event` (`dur < 0`, `math.isclose(dur, 0.0, abs_tol=1e-9)`; the latter is
                        `|dur| ≤ 1e-9` where `1e-9` is the IEEE double, an exact rational `tol`).
* `pairBE`            — `build_complete_event` iterated by `JsonEventTraceIngest.__next__`: pass-through of
                        non-B/E events (`M` unconditionally, everything else through `sane_event`), B followed
                        by E ⇒ `X` with `dur = E.ts − B.ts`, the three assertions, the `KeyError`s, a dangling
                        `B` at end of file (silently dropped with `StopIteration`), warning counters.
                        `pending_close` is `False` at every entry of `build_complete_event` that the public
                        iterator can reach (it stays `True` only after `StopIteration`/an exception, after
                        which the file is never asked again), so it is not a state component of the model.
* `fileStream`        — one `JsonFileEventTraceIngest`: its complete yield sequence, how it ends
                        (`StopIteration` = `none`, or the exception), the two warning counts.  `rank0` is
                        `distributedInfo.rank` (default `-1`), `processed` the "already processed by
                        acelyzer, dropping ALL events" branch of `_initialize_data`.
* `sortDesc`          — `list.sort(reverse=True, key=ts-or-0.0)`: *the* stable descending sort
                        (insertion sort; any stable sort computes the same list).
* `pull`, `prefill`, `next`, `loop`, `merge` — `MultifileIngest.update_event_front`, `__iter__`,
                        `__next__` (including the `while True` path that discards a popped event whose
                        file is disabled), `disable_ingest`, and the consumer's `for` loop.

Python's `x in "XBE"` on strings is a *substring* test; the three tests are modelled with the complete
lists of substrings.  Core Lean only.
-/
import AiuVerif.Basic

namespace AiuVerif
namespace Ingest

/-- projection of a trace-event dict: identity `u` (an opaque top-level key that every path carries
along), the keys the ingestion reads or writes, and the `rank` entry of `args` / `attr` -/
structure Ev where
  u : Nat
  ph : String
  ts : Option Rat
  dur : Option Rat
  pid : Option Int
  name : Option String
  hasArgs : Bool
  hasAttr : Bool
  rkArgs : Option Int := none
  rkAttr : Option Int := none
deriving DecidableEq, Repr

/-- `AssertionError`, `KeyError`, `IndexError` -/
inductive Err | assert | key | index
deriving DecidableEq, Repr

/-- `ph in "XBE"` -/
def inXBE (ph : String) : Bool := ph ∈ ["", "X", "B", "E", "XB", "BE", "XBE"]
/-- `ph in "BE"` -/
def inBE (ph : String) : Bool := ph ∈ ["", "B", "E", "BE"]
/-- `ph in "Mbei"` -/
def inMbei (ph : String) : Bool :=
  ph ∈ ["", "M", "b", "e", "i", "Mb", "be", "ei", "Mbe", "bei", "Mbei"]

/-- `_rank_device_annotation`, FLEX branch, writing into `attr` (`useAttr`) or `args` -/
def annot (rank : Int) (e : Ev) (useAttr : Bool) : Except Err (Ev × Int) :=
  let rank' : Except Err Int :=
    if rank == -1 then (match e.pid with | none => .error .key | some p => .ok p) else .ok rank
  match rank' with
  | .error x => .error x
  | .ok r =>
    if !useAttr && !e.hasArgs then .error .key          -- event["args"]["rank"] = … without "args"
    else
      let e1 := if useAttr then { e with rkAttr := some r } else { e with rkArgs := some r }
      let e2 := if r ≥ 0 then { e1 with pid := some r } else e1
      .ok (e2, r)

/-- `updated_event` (scale 1.0: `ts`/`dur` keep their values) -/
def upd (rank : Int) (e : Ev) : Except Err (Ev × Int) :=
  if !inXBE e.ph then
    if inMbei e.ph then annot rank e false else .ok (e, rank)
  else
    let e0 := if !e.hasAttr && !e.hasArgs then { e with hasArgs := true } else e
    match annot rank e0 e.hasAttr with
    | .error x => .error x
    | .ok (e1, r) =>
      match e1.pid with
      | none => .error .key                              -- `_pid_correction`: event["pid"]
      | some _ => .ok (e1, r)

/-- the updated events of the successive items, up to the first item whose update raises -/
def annotate : Int → List Ev → List Ev × Option Err
  | _, [] => ([], none)
  | r, e :: es =>
    match upd r e with
    | .error x => ([], some x)
    | .ok (e', r') => let p := annotate r' es; (e' :: p.1, p.2)

/-- the IEEE double `1e-9` -/
def tol : Rat := mkRat 4835703278458517 4835703278458516698824704

inductive Sane | keep | neg | zero
deriving DecidableEq, Repr

def sane (e : Ev) : Sane :=
  match e.dur with
  | none => .keep
  | some d => if d < 0 then .neg else if d ≤ tol then .zero else .keep

/-- what one file iterator does: yields, how it ends, warning counts -/
structure FileOut where
  evs : List Ev
  term : Option Err
  neg : Nat
  zero : Nat
deriving DecidableEq, Repr

def FileOut.fail (x : Err) : FileOut := ⟨[], some x, 0, 0⟩

/-- `return self.sane_event(e)` followed by the rest of the iteration -/
def emitSane (e : Ev) (r : FileOut) : FileOut :=
  match sane e with
  | .keep => { r with evs := e :: r.evs }
  | .neg => { r with neg := r.neg + 1 }
  | .zero => { r with zero := r.zero + 1 }

/-- the `X` slice `build_complete_event` makes of a `B` and the `E` that follows it -/
def complete (b : Ev) (t1 t2 : Rat) : Ev := { b with ph := "X", dur := some (t2 - t1) }

/-- `build_complete_event` iterated to the end of the (already updated) item list; `t` is how the
item list itself ends (`none`: exhausted, `some x`: the next `get_next_event` raises `x`) -/
def pairBE (t : Option Err) : List Ev → FileOut
  | [] => ⟨[], t, 0, 0⟩
  | e :: rest =>
    if !inBE e.ph then
      if e.ph == "M" then (let r := pairBE t rest; { r with evs := e :: r.evs })
      else emitSane e (pairBE t rest)
    else if e.ph == "B" then
      match rest with
      | [] => ⟨[], t, 0, 0⟩                              -- dangling B: dropped, StopIteration
      | e2 :: rest' =>
        match e.name, e2.name with
        | some a, some b =>
          if a ≠ b then .fail .assert                    -- "Subsequent B/E events with different names"
          else if e2.ph == "E" then
            match e.ts, e2.ts with
            | some t1, some t2 => emitSane (complete e t1 t2) (pairBE t rest')
            | _, _ => .fail .key
          else .fail .assert                             -- "Expected to find E-event"
        | _, _ => .fail .key
    else .fail .assert                                   -- "Expected to find B-event"

def fileStream (rank0 : Int) (processed : Bool) (raws : List Ev) : FileOut :=
  let p := annotate rank0 (if processed then [] else raws)
  pairBE p.2 p.1

/-! ### the k-way merge -/

abbrev Entry := Ev × Nat

/-- `x[0]["ts"] if "ts" in x[0] else 0.0` -/
def key (e : Ev) : Rat := e.ts.getD 0

def insDesc (x : Entry) : List Entry → List Entry
  | [] => [x]
  | y :: ys => if key y.1 ≤ key x.1 then x :: y :: ys else y :: insDesc x ys

/-- stable sort, descending by `key` -/
def sortDesc (l : List Entry) : List Entry := l.foldr insDesc []

/-- what is left of one file iterator -/
structure Src where
  evs : List Ev
  term : Option Err
deriving DecidableEq, Repr

structure MS where
  front : List Entry
  live : List Bool          -- `ingest_map`
  rem : List Src
deriving DecidableEq, Repr

/-- `refill = self.ingesters[idx].__next__()` then `update_event_front` / `disable_ingest` -/
def pull (st : MS) (idx : Nat) : Except Err MS :=
  match st.rem[idx]? with
  | none => .error .index
  | some ⟨e :: es, t⟩ =>
    .ok { st with rem := st.rem.set idx ⟨es, t⟩, front := sortDesc (st.front ++ [(e, idx)]) }
  | some ⟨[], none⟩ => .ok { st with live := st.live.set idx false }
  | some ⟨[], some x⟩ => .error x

/-- `__iter__` -/
def prefill : List Nat → MS → Except Err MS
  | [], st => .ok st
  | i :: is, st =>
    match pull st i with
    | .error x => .error x
    | .ok st' => prefill is st'

/-- `__next__`; `none` = `StopIteration`.  The fuel bounds the `while True` loop, which pops one front
entry per round (`nextEv` supplies `front.length + 1`). -/
def next : Nat → MS → Except Err (Option (Entry × MS))
  | 0, _ => .ok none
  | fuel + 1, st =>
    match st.front.getLast? with
    | none => .ok none
    | some x =>
      let st1 := { st with front := st.front.dropLast }
      match st.live[x.2]? with
      | none => .error .index
      | some true =>
        (match pull st1 x.2 with
         | .error err => .error err                      -- the popped event is lost with the exception
         | .ok st2 => .ok (some (x, st2)))
      | some false => next fuel st1                      -- popped event of a disabled file: discarded

def nextEv (st : MS) : Except Err (Option (Entry × MS)) := next (st.front.length + 1) st

def loop : Nat → MS → List Entry × Option Err
  | 0, _ => ([], none)
  | fuel + 1, st =>
    match nextEv st with
    | .error x => ([], some x)
    | .ok none => ([], none)
    | .ok (some (x, st')) => let r := loop fuel st'; (x :: r.1, r.2)

def total (srcs : List Src) : Nat := (srcs.map (·.evs.length)).sum

def init (srcs : List Src) : MS := ⟨[], srcs.map (fun _ => true), srcs⟩

/-- `list(MultifileIngest(...))`: the yielded events (with the index of the file they came from) and
the exception that ended the iteration, if any -/
def merge (srcs : List Src) : List Entry × Option Err :=
  match prefill (List.range srcs.length) (init srcs) with
  | .error x => ([], some x)
  | .ok st => loop (total srcs + 1) st

def srcOf (f : FileOut) : Src := ⟨f.evs, f.term⟩

end Ingest
end AiuVerif
