/-
Slice conservation view of the pipeline (C01).

* `Cls` / `classOf`: the slice-flow class of every stage callback that
  `Acelyzer.register_processing_functions` can register (table by callback name; the theorems
  check it against the site list generated from the source).
* `Slice` / `removedBy` / `specKept`: the documented removal rules of the property statement as an
  executable specification over what the rules read of an input slice.
Core Lean only.
-/
import AiuVerif.Basic

namespace AiuVerif.Conserve

/-- slice-flow class of a stage (what it may do to *input slices*; synthesized events are free) -/
inductive Cls where
  | pass          -- every input slice leaves exactly once (fields may change, order may change, may be held until drain)
  | filter        -- may remove slices under a documented rule, never duplicates or invents one
  | merge         -- `communication_event_apply`: parts of a sequence are replaced by their last part (C20)
  | outOfDomain   -- only registered by switches outside the claimed domain (-S, -s, -R, --flex_ts_fix, -O async, bandwidth)
deriving DecidableEq, Repr

def classOf : String → Option Cls
  | "drop_timestamp_reversed_events" => some .pass
  | "create_slice_from_BE" => some .pass
  | "normalize_phase1" => some .filter            -- --event_limit, --event_filter
  | "frequency_align_collect" => some .outOfDomain
  | "pipeline_barrier" => some .pass
  | "frequency_align_apply" => some .outOfDomain
  | "normalize_phase2" => some .pass
  | "event_sanity_checks" => some .pass
  | "remove_ids_from_name" => some .outOfDomain
  | "map_tid_to_range" => some .pass
  | "cycle_count_to_wallclock" => some .pass
  | "tighten_hts_by_instr_type" => some .pass
  | "tripple_phased_events" => some .outOfDomain
  | "mp_sync_tight_v1" => some .pass
  | "mp_ts_calibration_v2" => some .outOfDomain
  | "queueing_counter" => some .filter            -- Prep slices unless --keep_prep
  | "drop_global_events" => some .filter          -- --drop_globals names
  | "recombine_cpu_events" => some .pass
  | "sort_events" => some .pass
  | "assert_ts_sequence" => some .pass
  | "detect_partial_overlap_tids" => some .pass
  | "detect_partial_overlap_events" => some .filter   -- -O drop
  | "collect_iteration_stats" => some .pass
  | "extract_power_event" => some .pass
  | "compute_power" => some .pass
  | "analyze_power_statistics" => some .pass
  | "extract_data_transfer_event" => some .outOfDomain
  | "compute_bandwidth" => some .outOfDomain
  | "compute_utilization_fingerprints" => some .pass
  | "communication_event_collection" => some .pass
  | "communication_event_apply" => some .merge
  | "compute_utilization" => some .pass
  | "assert_global_ts_sequence" => some .pass
  | "launch_flow_collect" => some .pass
  | "event_categorizer" => some .pass
  | "event_categorizer_update" => some .pass
  | "launch_flow_create_missing" => some .pass
  | "flow_prepare_event_data" => some .pass
  | "flow_extraction" => some .pass
  | "mp_calc_bw_v2" => some .outOfDomain
  | "mp_calc_bw" => some .pass
  | "calculate_stats" => some .pass
  | "processing_filter" => some .filter           -- -F
  | "flow_data_cleanup" => some .pass
  | "cleanup_copy_of_device_ts" => some .pass
  | "tb_refinement_intrusive" => some .pass
  | "tb_refinement_lightweight" => some .pass
  | "cycle_count_conversion_cleanup" => some .pass
  | "calculate_stats_v2" => some .outOfDomain
  | _ => none

/-- the removal rules the property statement documents, by the stage that implements them
    (zero/negative duration is removed at ingestion, before the pipeline) -/
def documentedFilters : List String :=
  ["normalize_phase1", "queueing_counter", "drop_global_events", "detect_partial_overlap_events",
   "processing_filter"]

/-- what the documented rules read of one input slice (computed by the harness from the raw input) -/
structure Slice where
  uid : Nat
  durPos : Bool        -- duration > 1e-9 (else skipped at ingestion and counted in a warning)
  inLimit : Bool       -- selected by --event_limit (C17 decides this; default: true)
  filtered : Bool      -- some --event_filter attribute:regex pair matches (C17)
  isPrep : Bool        -- name ends in "Cmpt Prep" (FLEX dialect `acc_compute_prep`)
  isGlobal : Bool      -- name contains one of the --drop_globals name parts
  dropped : Bool       -- removed by -O drop (C04 decides this; false unless -O drop)
deriving Repr

structure Opts where
  prepQueue : Bool     -- prep_queue counter active (default -C)
  keepPrep : Bool
  dropGlobals : Bool
  keepPh : Option String   -- -F pattern (none = option absent)
deriving Repr

/-- is the slice removed by a documented rule? -/
def removedBy (o : Opts) (s : Slice) : Bool :=
  !s.durPos || !s.inLimit || s.filtered ||
  (s.isPrep && o.prepQueue && !o.keepPrep) ||
  (s.isGlobal && o.dropGlobals) ||
  s.dropped ||
  (match o.keepPh with
   | none => false
   | some pat => !(pat.contains 'X'))

/-- the declarative specification: the uids that must be exported, each exactly once -/
def specKept (o : Opts) (input : List Slice) : List Nat :=
  (input.filter fun s => !removedBy o s).map (·.uid)

end AiuVerif.Conserve
