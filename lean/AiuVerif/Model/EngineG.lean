/-
The streaming engine over a GLOBAL store: stages whose contexts may be shared in any way.

`EventProcessor` hands each callback its context object; several registrations may pass the same
object (the module-level barrier, `normalize_ctx`, `overlap_ctx`, two-phase contexts written
against the developer README, …), and `EventProcessor.drain` calls `drain()` of the popped
stage's context even if it was drained before.  All of that is covered by letting every `step`
and `drain` read and write one global store `St` (the heap of context objects).

The log records, in time order, every delivery of an event to a stage (`.del k x`) and every
emission of an event by a stage, from its callback or from its context's drain (`.emit k y`).
Core Lean only.
-/
namespace AiuVerif

structure GStage (St ε : Type) where
  step : St → ε → St × List ε
  drain : St → St × List ε

inductive GLog (ε : Type) where
  | del (k : Nat) (x : ε)
  | emit (k : Nat) (y : ε)

namespace GStage
variable {St ε : Type}

/-- one stage consumes a list element-wise; returns (store, outputs) -/
def feed1 (st : GStage St ε) : St → List ε → St × List ε
  | s, [] => (s, [])
  | s, x :: xs =>
    let r := st.step s x
    let r' := feed1 st r.1 xs
    (r'.1, r.2 ++ r'.2)

/-- `pre_process` -/
def feed : List (GStage St ε) → St → List ε → St × List ε
  | [], s, xs => (s, xs)
  | st :: rest, s, xs =>
    let r := feed1 st s xs
    feed rest r.1 r.2

/-- deliveries and emissions of one `pre_process` call whose head stage has registration index `k` -/
def feedLog (k : Nat) : List (GStage St ε) → St → List ε → List (GLog ε)
  | [], _, _ => []
  | st :: rest, s, xs =>
    let r := feed1 st s xs
    xs.map (.del k) ++ r.2.map (.emit k) ++ feedLog (k + 1) rest r.1 r.2

def stream (p : List (GStage St ε)) : St → List ε → St × List ε
  | s, [] => (s, [])
  | s, x :: xs =>
    let r := feed p s [x]
    let r' := stream p r.1 xs
    (r'.1, r.2 ++ r'.2)

def streamLog (k : Nat) (p : List (GStage St ε)) : St → List ε → List (GLog ε)
  | _, [] => []
  | s, x :: xs => feedLog k p s [x] ++ streamLog k p (feed p s [x]).1 xs

/-- `EventProcessor.drain`: pop the first stage, drain its context, process what came back with
    the remaining stages; structural recursion on the stage list (the stages themselves never change) -/
def drainAll : List (GStage St ε) → St → St × List ε
  | [], s => (s, [])
  | st :: rest, s =>
    let d := st.drain s
    let r := stream rest d.1 d.2
    let r' := drainAll rest r.1
    (r'.1, r.2 ++ r'.2)

def drainLog (k : Nat) : List (GStage St ε) → St → List (GLog ε)
  | [], _ => []
  | st :: rest, s =>
    let d := st.drain s
    d.2.map (.emit k) ++ streamLog (k + 1) rest d.1 d.2 ++ drainLog (k + 1) rest (stream rest d.1 d.2).1

/-- everything handed to the exporter -/
def run (p : List (GStage St ε)) (s : St) (input : List ε) : List ε :=
  let r := stream p s input
  r.2 ++ (drainAll p r.1).2

def runLog (p : List (GStage St ε)) (s : St) (input : List ε) : List (GLog ε) :=
  streamLog 0 p s input ++ drainLog 0 p (stream p s input).1

/-- what was delivered to stage `j`, in time order -/
def dels (j : Nat) : List (GLog ε) → List ε
  | [] => []
  | .del k x :: l => if k = j then x :: dels j l else dels j l
  | .emit _ _ :: l => dels j l

/-- what stage `j` emitted (callback returns and drains), in time order -/
def emits (j : Nat) : List (GLog ε) → List ε
  | [] => []
  | .emit k y :: l => if k = j then y :: emits j l else emits j l
  | .del _ _ :: l => emits j l

end GStage
end AiuVerif
