/-
Executable model of the TS4 power sub-pipeline (C10)

    extract_power_event  →  sort_events(event_types=["C"], sortkey="TS_cycles")  →  compute_power

as registered by `Acelyzer.register_processing_functions` for the default `power_ts4` counter
(`src/aiu_trace_analyzer/pipeline/power.py`, `pipeline/sort.py`, `constants.py`).

Modelled, function by function:
* `extract_power_event` + `PowerExtractionContext.build_input_events` (power_ts = 4) → `extract1`:
  only `ph ∈ {"X","b"}`, name not matching the filter regex `" Prep"`, `"Power"` and `"ts_all"` in
  args; `event["dur"]` is read unguarded (a missing `dur` is the `KeyError` branch); slices with
  `dur <= 0.1` give nothing; the first accepted slice of a pid also yields the zero counter at its
  TS3 wall-clock time; every accepted slice yields a counter at its TS4 wall-clock time carrying
  `float(args["Power"])`, `cat` = the slice name, `TS_cycles = ts`.
* `EventSortingContext.sort`/`drain` for the counter sorter → `sortStage`: `C` events with a
  `TS_cycles` key are queued per `(pid, tid=0)`; at drain every queue is stably sorted by
  `float(TS_cycles)` and the queues are emitted in first-seen order.
* `compute_power` + `PowerExtractionContext.compute_power` / `compute_delta` / `get_prev` /
  `update_prev` / `name_from_category` (ts4) → `stepPower`, `computeDelta`, `goAll`: per-pid `prev`;
  `int()` of both readings; prev reading 0 → prev replaced; this reading 0 → this skipped; equal
  `TS_cycles` → this skipped (prev replaced instead when prev's `cat` matches the filter); the three
  `--skip_events` rules; `new_val = pb - pa if pa <= pb else 2**32 + pb - pa`; `12 * new_val * (1/512)
  / dt`; `> 100` → 0; a negative value is the `OverflowError` branch; the emitted event is `prev`
  with the computed value at `prev["ts"]`; `drain` emits nothing, so the last sample of a pid never
  appears.
Numbers are exact rationals.  Core Lean only.
-/
import AiuVerif.Basic

namespace AiuVerif
namespace Power

/-- a device slice as it reaches `extract_power_event` -/
structure Slice where
  ph : String
  name : String
  pid : Int
  dur : Option Num          -- `none`: key absent
  ts3 : Num                 -- `args["ts_all"][2]`
  ts4 : Num                 -- `args["ts_all"][3]`
  power : Option Num        -- `float(args["Power"])` when `"Power"` and `"ts_all"` are both in `args`
deriving DecidableEq, Repr

/-- a helper counter event (`ph = "C"`, `name = "Power"`) between the three stages -/
structure Ctr where
  pid : Int
  cat : String
  ts : Num                  -- `event["ts"]`
  tsc : Num                 -- `event["TS_cycles"]`
  q : Num                   -- `event["args"]["Watts"]`: the raw charge reading
deriving DecidableEq, Repr

/-- an emitted `Power` counter (`cat = "Power4"`) -/
structure Out where
  pid : Int
  ts : Num
  watts : Num
deriving DecidableEq, Repr

/-! ### strings -/

def isInfix (needle : List Char) : List Char → Bool
  | [] => needle.isEmpty
  | c :: cs => needle.isPrefixOf (c :: cs) || isInfix needle cs

/-- `needle in hay` / `re.compile(needle).search(hay)` for a metacharacter-free needle -/
def containsStr (hay needle : String) : Bool := isInfix needle.toList hay.toList

/-- the filter pattern `" Prep"` both contexts are constructed with -/
def isPrep (s : String) : Bool := containsStr s " Prep"

/-! ### `extract_power_event` / `build_input_events` -/

/-- state: the pids in `processed_first` -/
def extract1 (seen : List Int) (s : Slice) : Except String (List Int × List Ctr) :=
  if (s.ph = "X" ∨ s.ph = "b") ∧ ¬ isPrep s.name then
    match s.power with
    | none => .ok (seen, [])
    | some q =>
      match s.dur with
      | none => .error "keyerror"
      | some d =>
        if d ≤ 1 / 10 then .ok (seen, [])
        else
          let sample : Ctr := ⟨s.pid, s.name, s.ts4, s.ts4, q⟩
          if seen.contains s.pid then .ok (seen, [sample])
          else .ok (seen ++ [s.pid], [⟨s.pid, s.name, s.ts3, s.ts3, 0⟩, sample])
  else .ok (seen, [])

def extractGo : List Int → List Slice → Except String (List Ctr)
  | _, [] => .ok []
  | seen, s :: rest =>
    match extract1 seen s with
    | .error e => .error e
    | .ok (seen', cs) =>
      match extractGo seen' rest with
      | .error e => .error e
      | .ok more => .ok (cs ++ more)

def extractAll (slices : List Slice) : Except String (List Ctr) := extractGo [] slices

/-! ### the counter sorter -/

/-- pids in first-seen order (the insertion order of the `queues` dict) -/
def pidsOf : List Ctr → List Int
  | [] => []
  | c :: rest => c.pid :: (pidsOf rest).filter (· ≠ c.pid)

def sortRank (l : List Ctr) : List Ctr := l.mergeSort (fun a b => decide (a.tsc ≤ b.tsc))

def rankOf (p : Int) (l : List Ctr) : List Ctr := l.filter (fun c => c.pid = p)

def sortStage (l : List Ctr) : List Ctr := (pidsOf l).flatMap (fun p => sortRank (rankOf p l))

/-! ### `compute_power` -/

/-- Python `int(x)` of a float: truncation towards zero -/
def truncInt (q : Num) : Int := if 0 ≤ q then q.floor else -((-q).floor)

inductive Delta where
  | replacePrev              -- `update_prev(this); return None`
  | skipThis                 -- `return None`
  | value (w : Num)
deriving DecidableEq, Repr

def skipRule (prev this : Ctr) : Bool :=
  (containsStr prev.cat "Cmpt Exec" && containsStr this.cat "Cmpt Exec") ||
  (containsStr prev.cat " DmaO" && containsStr this.cat " DmaI") ||
  (containsStr prev.cat "Cmpt Exec" && containsStr this.cat " DmaI")

/-- `new_val = pb - pa if pa <= pb else (2**32) + pb - pa` -/
def rawDelta (pa pb : Int) : Int := if pa ≤ pb then pb - pa else 4294967296 + pb - pa

/-- `voltage * new_val * LSB_on_ADC / dt_in_us` -/
def watts (nv : Int) (dt : Num) : Num := 12 * (nv : Num) * (1 / 512) / dt

/-- `if new_val > 100: new_val = 0` -/
def clamp (w : Num) : Num := if 100 < w then 0 else w

def computeDelta (skip : Bool) (prev this : Ctr) : Delta :=
  let pa := truncInt prev.q
  let pb := truncInt this.q
  if pa = 0 then .replacePrev
  else if pb = 0 then .skipThis
  else if prev.tsc = this.tsc then (if isPrep prev.cat then .replacePrev else .skipThis)
  else if skip && skipRule prev this then .skipThis
  else .value (clamp (watts (rawDelta pa pb) (this.tsc - prev.tsc)))

/-- `PowerExtractionContext.compute_power` for one pid: state = `prev` of that pid -/
def stepPower (skip : Bool) (st : Option Ctr) (c : Ctr) : Except String (Option Ctr × List Out) :=
  match st with
  | none => .ok (some c, [])
  | some prev =>
    match computeDelta skip prev c with
    | .replacePrev => .ok (some c, [])
    | .skipThis => .ok (some prev, [])
    | .value w => if w < 0 then .error "overflow" else .ok (some c, [⟨prev.pid, prev.ts, w⟩])

/-- one pid's counter sequence through `compute_power` -/
def go (skip : Bool) : Option Ctr → List Ctr → Except String (List Out)
  | _, [] => .ok []
  | st, c :: rest =>
    match stepPower skip st c with
    | .error e => .error e
    | .ok (st', outs) =>
      match go skip st' rest with
      | .error e => .error e
      | .ok more => .ok (outs ++ more)

/-- one pid's counter sequence from a fresh context -/
def computeRank (skip : Bool) (l : List Ctr) : Except String (List Out) := go skip none l

/-- the stage on a stream of counters of several pids: `self.prev` keyed by pid -/
def goAll (skip : Bool) : (Int → Option Ctr) → List Ctr → Except String (List Out)
  | _, [] => .ok []
  | m, c :: rest =>
    match stepPower skip (m c.pid) c with
    | .error e => .error e
    | .ok (st', outs) =>
      match goAll skip (fun p => if p = c.pid then st' else m p) rest with
      | .error e => .error e
      | .ok more => .ok (outs ++ more)

def computeStage (skip : Bool) (l : List Ctr) : Except String (List Out) := goAll skip (fun _ => none) l

/-! ### the sub-pipeline -/

/-- `Power` counters leaving `compute_power` for a stream of slices (the slices themselves pass
through all three stages unchanged and are not part of the projection) -/
def pipeline (skip : Bool) (slices : List Slice) : Except String (List Out) :=
  match extractAll slices with
  | .error e => .error e
  | .ok cs => computeStage skip (sortStage cs)

/-! ### specification vocabulary (used by the theorems; executable so the driver can print it) -/

/-- keep the first counter of every run of equal `TS_cycles`; `cur` is the last one kept -/
def dedupGo (cur : Ctr) : List Ctr → List Ctr
  | [] => [cur]
  | b :: rest => if cur.tsc = b.tsc then dedupGo cur rest else cur :: dedupGo b rest

/-- the valid samples of a time-sorted counter sequence: non-zero reading, one per time stamp -/
def valid (l : List Ctr) : List Ctr :=
  match l.filter (fun c => truncInt c.q ≠ 0) with
  | [] => []
  | a :: rest => dedupGo a rest

/-- `(Q_b − Q_a) mod 2^32` -/
def chargeDelta (a b : Ctr) : Int := (truncInt b.q - truncInt a.q) % 4294967296

def specValue (a b : Ctr) : Num := clamp (12 * (chargeDelta a b : Num) / 512 / (b.tsc - a.tsc))

def specGo (a : Ctr) : List Ctr → List Out
  | [] => []
  | b :: rest => ⟨a.pid, a.ts, specValue a b⟩ :: specGo b rest

/-- for consecutive samples `(a, b)`: at `a`'s time the value `clamp (12·ΔQ mod 2^32 / 512 / Δt)` -/
def specPairs : List Ctr → List Out
  | [] => []
  | a :: rest => specGo a rest

end Power
end AiuVerif
