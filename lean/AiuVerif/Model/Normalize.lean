/-
Executable model of the 32-bit cycle-counter wrap correction (C05).

Python modelled (all in /repo/src/aiu_trace_analyzer):
* pipeline/normalize.py
    `normalize_phase1`            → `step1`  (default `EventLimiter({})`: only the window test `ts+dur ≥ 0`
                                              can drop; empty `--event_filter`)
    `NormalizationContext.tsx_32bit_local_correction` → `localFix`, `firstWrap`, reference update
    `init_reference_overflow`, `update_reference_overflow` → `epochStart`, `Ctx.epoch` running minimum per pid
    `frequency_stats`             → only its `ZeroDivisionError` (`float(dur_cycles) / event["dur"]` of a
                                    `Cmpt Exec` slice with `dur == 0`); its numbers never reach an event (the
                                    equal-start-time division was repaired in /repo 9ff54c0)
    `normalize_phase2`, `tsx_32bit_global_correction`, `get_overflow_count` → `step2`
    `NormalizationContext._get_ref_ts` → `PhaseName.refIdx`
    `NormalizationContext.drain`  → returns `[]` and keeps `queues` (the state survives the drain in `pipeline`)
* pipeline/barrier.py `pipeline_barrier` + core/acelyzer.py registration
    `normalize_phase1 → pipeline_barrier → normalize_phase2 → event_sanity_checks` → `pipeline`:
    phase 1 is folded over the whole stream before any event reaches phase 2 (C03 `barrier_separates`,
    `shared_barrier_batch`), phase 2 therefore reads the final per-pid reference epoch.
* pipeline/correctness.py `_args_ts_n_sanity_check` → `sanity`

Conventions / limits of the model:
* an event either carries all of TS1..TS5 (`tsx = some [c1,…,c5]`) or no `TS1` key (`tsx = none`); a list of
  another length stands for an event lacking a `TSk` key, for which the code raises `KeyError` (in phase 1, or in
  phase 2 when the reference key itself is missing) — the model answers `keyerror` when the reference index is
  out of range and is not compared on other lengths.
* numbers are exact (`Rat`/`Int`); the code computes in doubles (exact on the harness grid).
* `get_overflow_count` also creates `queues[qid]` when phase 2 meets a pid that phase 1 never saw; inside
  `pipeline` this cannot happen (every device slice passed phase 1 with the same context), `step2` computes the
  value the code would use in that case but does not thread the state update.
* job bookkeeping (`queues[qid][job]`, `frequency_minmax`) and warnings only feed log output: not modelled.
* name unification (`Receive→Recv`, `RDMA→Rdma`), `attr→args`, `Bytes→bytes`, `jobname` are not on the
  counter path: not modelled (the substitutions cannot create or destroy a phase suffix).
Core Lean only.
-/
import AiuVerif.Basic
import AiuVerif.Model.PhaseName

namespace AiuVerif.Normalize
open AiuVerif.PhaseName

/-- `1 << 32` -/
def M32 : Int := 4294967296
/-- `-(1 << 48)`: initial `prev` of both correction loops -/
def prev0 : Int := -281474976710656
/-- `-1e31`: initial `last` of `_args_ts_n_sanity_check` -/
def sanity0 : Int := -10000000000000000000000000000000

structure Ev where
  uid : Nat
  ph : String
  pid : Int
  name : String
  ts : Rat
  dur : Rat
  /-- `args.TS1..TS5` (as integers) when present -/
  tsx : Option (List Int)
  /-- `args.OVC` (written by phase 2) -/
  ovc : Option Int := none
  /-- `args.TSxOF`: 1-based index of the first counter found smaller than its predecessor -/
  tsxof : Option Nat := none
deriving Repr

/-- loop of `tsx_32bit_local_correction`: add one period after a decreasing step -/
def localFixAux (prev : Int) : List Int → List Int
  | [] => []
  | c :: cs =>
    let c' := if c < prev then c + M32 else c
    c' :: localFixAux c' cs

def localFix (cs : List Int) : List Int := localFixAux prev0 cs

/-- `TSxOF`: key of the first decreasing step (before it nothing was corrected, so `prev` is raw) -/
def firstWrapAux (prev : Int) (k : Nat) : List Int → Option Nat
  | [] => none
  | c :: cs => if c < prev then some k else firstWrapAux c (k + 1) cs

def firstWrap (cs : List Int) : Option Nat := firstWrapAux prev0 1 cs

/-- state of `NormalizationContext` that can influence an event -/
structure Ctx where
  /-- `queues[hash(pid)]["0"][0]`: earliest epoch start seen for the pid -/
  epoch : Int → Option Rat

def Ctx.empty : Ctx := ⟨fun _ => none⟩

/-- `is_ignored_type`: `event_type in "M"` (substring test) -/
def ignoredType (ph : String) : Bool := ph == "M" || ph == ""

/-- `event_within_limits` with the default limiter: intersects `[0.0, float_max]` -/
def withinLimits (e : Ev) : Bool := ignoredType e.ph || decide (0 ≤ e.ts + e.dur)

/-- `init_reference_overflow`: `epoch_start = ts - cycle / soc_frequency` -/
def epochStart (f : Rat) (ts : Rat) (cycle : Int) : Rat := ts - (cycle : Rat) / f

/-- `update_reference_overflow`: first value, afterwards replaced only by a strictly earlier one -/
def updEpoch (old : Option Rat) (es : Rat) : Rat :=
  match old with
  | none => es
  | some v => if es < v then es else v

def setAt (m : Int → Option Rat) (k : Int) (v : Rat) : Int → Option Rat :=
  fun q => if q = k then some v else m q

/-- `normalize_phase1` on one event: `(new context, emitted events)` -/
def step1 (f : Rat) (c : Ctx) (e : Ev) : Except String (Ctx × List Ev) :=
  if !withinLimits e then .ok (c, [])
  else if e.ph != "X" then .ok (c, [e])
  else
    match e.tsx with
    | none => .ok (c, [e])
    | some raw =>
      let fixed := localFix raw
      match fixed[refIdx e.name]? with
      | none => .error "keyerror"
      | some cyc =>
        let c1 : Ctx := { c with epoch := setAt c.epoch e.pid (updEpoch (c.epoch e.pid) (epochStart f e.ts cyc)) }
        let e' : Ev := { e with tsx := some fixed, tsxof := firstWrap raw }
        -- frequency_stats: float(dur_cycles) / event["dur"]
        if hasSub e.name "Cmpt Exec" && decide (e.dur = 0) then .error "zerodiv"
        else .ok (c1, [e'])

/-- phase 1 streamed over the input; the emitted events are what the barrier holds -/
def phase1 (f : Rat) : Ctx → List Ev → Except String (Ctx × List Ev)
  | c, [] => .ok (c, [])
  | c, e :: es =>
    match step1 f c e with
    | .error m => .error m
    | .ok (c1, o1) =>
      match phase1 f c1 es with
      | .error m => .error m
      | .ok (c2, o2) => .ok (c2, o1 ++ o2)

/-- `last <= x1 <= x2 …` -/
def chainFrom (last : Int) : List Int → Bool
  | [] => true
  | c :: cs => decide (last ≤ c) && chainFrom c cs

/-- `get_overflow_count`: `floor((ts - epoch0) / (2^32 / f))` -/
def overflowCount (f : Rat) (epoch0 t : Rat) : Int := ((t - epoch0) / ((M32 : Rat) / f)).floor

/-- `normalize_phase2` / `tsx_32bit_global_correction` on one event, reading the final context -/
def step2 (f : Rat) (ignoreCrit : Bool) (c : Ctx) (e : Ev) : Except String Ev :=
  if e.ph != "X" then .ok e
  else
    match e.tsx with
    | none => .ok e
    | some cs =>
      match cs[refIdx e.name]?, cs[0]? with
      | some cr, some c1 =>
        -- event["ts"] is the wall clock of the phase-start counter; epochs are counted at the time of TS1
        let t1 := e.ts - ((cr - c1 : Int) : Rat) / f
        let epoch0 := match c.epoch e.pid with
          | some v => v
          | none => epochStart f t1 c1
        let ovc := overflowCount f epoch0 t1
        let out := cs.map (· + ovc * M32)
        if !ignoreCrit && !chainFrom prev0 out then .error "assert"
        else .ok { e with tsx := some out, ovc := some ovc }
      | _, _ => .error "keyerror"

/-- the formula before repair d452497 (epochs counted at the host `ts` of the phase-start counter, with that
counter): kept as a regression sentinel, see `C05.old_formula_wrong` -/
def step2Old (f : Rat) (ignoreCrit : Bool) (c : Ctx) (e : Ev) : Except String Ev :=
  if e.ph != "X" then .ok e
  else
    match e.tsx with
    | none => .ok e
    | some cs =>
      match cs[refIdx e.name]? with
      | some cr =>
        let epoch0 := match c.epoch e.pid with
          | some v => v
          | none => epochStart f e.ts cr
        let ovc := overflowCount f epoch0 e.ts
        let out := cs.map (· + ovc * M32)
        if !ignoreCrit && !chainFrom prev0 out then .error "assert"
        else .ok { e with tsx := some out, ovc := some ovc }
      | none => .error "keyerror"

/-- `event_sanity_checks` -/
def sanity (e : Ev) : Except String Ev :=
  match e.tsx with
  | none => .ok e
  | some cs => if chainFrom sanity0 cs then .ok e else .error "assert"

def mapE (g : Ev → Except String Ev) : List Ev → Except String (List Ev)
  | [] => .ok []
  | e :: es =>
    match g e with
    | .error m => .error m
    | .ok e' =>
      match mapE g es with
      | .error m => .error m
      | .ok es' => .ok (e' :: es')

def post (s2 : Ctx → Ev → Except String Ev) (c : Ctx) (e : Ev) : Except String Ev :=
  match s2 c e with
  | .error m => .error m
  | .ok e' => sanity e'

/-- `normalize_phase1 → pipeline_barrier → normalize_phase2 → event_sanity_checks` with one shared context -/
def pipelineWith (s2 : Ctx → Ev → Except String Ev) (f : Rat) (evs : List Ev) : Except String (List Ev) :=
  match phase1 f Ctx.empty evs with
  | .error m => .error m
  | .ok (c, held) => mapE (post s2 c) held

def pipeline (f : Rat) (ignoreCrit : Bool) (evs : List Ev) : Except String (List Ev) :=
  pipelineWith (step2 f ignoreCrit) f evs

def pipelineOld (f : Rat) (ignoreCrit : Bool) (evs : List Ev) : Except String (List Ev) :=
  pipelineWith (step2Old f ignoreCrit) f evs

end AiuVerif.Normalize
